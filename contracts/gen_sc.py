"""C10: stability labels (gen.SC_apply) and the arguments the run() methods pass to it."""
import z3

from pyvc import npmodel as N
from pyvc import spec as S
from pyvc import sym
from pyvc.contract import Contract, register, spec_canary
from pyvc.interp import LoopSpec
from pyvc.sym import And_, Arr, F, Implies_, Not_, Or_, ite, zi


def mac_abs(vx, vy):
    """MAC of two abstract vectors: a value in [0, 1], non-finite if either vector is"""
    R = z3.RealSort()
    val = sym.ufun("MAC_val", sym.VecSort, sym.VecSort, R)
    nan = sym.ufun("MAC_nan", sym.VecSort, sym.VecSort, z3.BoolSort())
    from pyvc.core import cur
    c = cur()
    v = val(vx, vy)
    c.fact(z3.And(v >= 0, v <= 1))
    return F(Or_(sym.vec_isnan(vx), sym.vec_isnan(vy), nan(vx, vy)), v)


@register
class MAC_abs(Contract):
    """call-site contract (C10): MAC of two 1-D shapes is a number in [0, 1] determined by the two
    vectors; its value is the subject of C18"""
    qualname = "pyoma2.functions.gen.MAC"
    name = "abstract"
    verify_body = False

    def requires(self, c, phi_X, phi_A):
        return [("vectors", S.vec_of(phi_X) is not None and S.vec_of(phi_A) is not None),
                ("same-length", sym.eq(phi_X.shape[0], phi_A.shape[0]))]

    def spec(self, c, phi_X, phi_A):
        return mac_abs(S.vec_of(phi_X), S.vec_of(phi_A))


def label(Fn, Xi, Phi, i, cc, ordmin, ordmax, e_f, e_x, e_p, strict=True):
    """the property's definition of 'stable' for the pole in row i, column cc (step 1)"""
    from pyvc.core import cur
    c = cur()
    in_range = And_(sym.le(ordmin, cc), sym.le(cc, ordmax), sym.lt(0, cc))
    f = Fn.get(i, cc)
    prev = sym.sub(cc, 1)
    # guard the reads of column cc-1 when cc == 0 (never used: in_range is false there)
    pc = ite(sym.lt(0, cc), prev, 0) if not sym.is_pyint(cc) else max(cc - 1, 0)
    ff = Fn.snapshot_fn()
    col = Arr((Fn.axes[0],), lambda idx: ff((idx[0], (pc,))), "float")     # column pc, no bounds obligation
    d = N.abs_(N.subtract(col, f))
    allnan, q = N.nanargmin_total(d)
    fq = Fn.get(q, pc)
    x, xq = Xi.get(i, cc), Xi.get(q, pc)
    c.numpy_mode += 1
    try:
        c1 = sym.div(sym.abs_(sym.sub(f, fq)), f)
        c2 = sym.div(sym.abs_(sym.sub(x, xq)), x)
        c3 = sym.sub(1, mac_abs(Phi.vecfn(((i,), (cc,))), Phi.vecfn(((q,), (pc,)))))
    finally:
        c.numpy_mode -= 1
    return And_(in_range, Not_(allnan), sym.lt(c1, e_f), sym.lt(c2, e_x), sym.lt(c3, e_p))


def _outer(k, pre, it):
    Fn, Xi, Phi = pre["Fn"], pre["Xi"], pre["Phi"]
    a = (pre["ordmin"], pre["ordmax"], pre["err_fn"], pre["err_xi"], pre["err_phi"])
    done = lambda cc: And_(sym.le(a[0], cc), sym.lt(cc, sym.add(a[0], k)))     # noqa: E731
    return {"Lab": Arr(Fn.axes, lambda idx: ite(And_(done(idx[1][0]), label(Fn, Xi, Phi, idx[0][0], idx[1][0], *a)), 1, 0), "int")}


def _inner(k, pre, it):
    Fn, Xi, Phi = pre["Fn"], pre["Xi"], pre["Phi"]
    a = (pre["ordmin"], pre["ordmax"], pre["err_fn"], pre["err_xi"], pre["err_phi"])
    o = pre["o"]
    old = pre["Lab"].snapshot_fn()
    return {"Lab": Arr(Fn.axes, lambda idx: ite(And_(sym.eq(idx[1][0], o), sym.lt(idx[0][0], k)),
                                               sym.b2i(label(Fn, Xi, Phi, idx[0][0], o, *a)), old(idx)), "int")}


@register
class SC_apply(Contract):
    qualname = "pyoma2.functions.gen.SC_apply"
    props = ("C10",)
    bounded_driver = {"driver": "c10_fn", "inputs": {}}      # native fallback when the body leaves the subset (the crafted tables need no counter-model)
    loops = {0: LoopSpec(_outer), 1: LoopSpec(_inner)}
    use = {"pyoma2.functions.gen.MAC": "abstract"}

    def setup(self, c):
        n0 = S.integer("n_rows", lo=1)
        n1 = S.integer("n_cols", lo=1)
        L = S.integer("Nch", lo=1)
        ordmin = S.integer("ordmin", lo=0)
        ordmax = S.integer("ordmax")
        c.assume(ordmax < n1)
        return {"Fn": S.array("Fn", "float", shape=(n0, n1)), "Xi": S.array("Xi", "float", shape=(n0, n1)),
                "Phi": S.vec_table("Phi", (n0, n1, L)), "ordmin": ordmin, "ordmax": ordmax, "step": 1,
                "err_fn": S.real("err_fn", pos=True), "err_xi": S.real("err_xi", pos=True),
                "err_phi": S.real("err_phi", pos=True)}

    def requires(self, c, Fn, Xi, Phi, ordmin, ordmax, step, err_fn, err_xi, err_phi):
        return [("step==1", sym.eq(step, 1)), ("ordmin>=0", sym.le(0, ordmin)),
                ("ordmax<n_cols", sym.lt(ordmax, Fn.shape[1])),
                ("shapes", And_(sym.eq(Xi.shape[0], Fn.shape[0]), sym.eq(Xi.shape[1], Fn.shape[1]),
                                sym.eq(Phi.shape[0], Fn.shape[0]), sym.eq(Phi.shape[1], Fn.shape[1]))),
                ("vectors", Phi.vecfn is not None)]

    def spec(self, c, Fn, Xi, Phi, ordmin, ordmax, step, err_fn, err_xi, err_phi):
        """C10: Lab[i, c] = 1 exactly when column c's order is in [ordmin, ordmax] and not the first, the pole
        is retained, the previous column holds a retained pole, and the nearest one (in frequency) is within
        the three relative tolerances; otherwise 0."""
        a = (ordmin, ordmax, err_fn, err_xi, err_phi)
        return Arr(Fn.axes, lambda idx: sym.b2i(label(Fn, Xi, Phi, idx[0][0], idx[1][0], *a)), "int")

    generic_replay = False

    def witness(self, o):
        """replay: the real SC_apply on the counter-model's Fn/Xi tables (mode shapes are realised as
        identical / distinct vectors since MAC is abstract in the proof) and on crafted tables"""
        from pyvc import concretise as CZ
        from pyvc.core import Ctx, Engine
        m = CZ.small_model(o, 4)
        ctx = Ctx(Engine(), [ch == "T" for ch in o.path])
        with ctx:
            env = self.setup(ctx)
            inp = {k: CZ.ev_value(m, env[k]) for k in ("Fn", "Xi", "ordmin", "ordmax", "err_fn", "err_xi", "err_phi")}
        return {"driver": "c10_fn", "inputs": inp}

    # ---- canaries (taken from why_tests_cant) -------------------------------------------
    def _wrong_next(self, c, Fn, Xi, Phi, ordmin, ordmax, step, err_fn, err_xi, err_phi):
        """compares with the *same* column instead of the previous one"""
        def lab(idx):
            i, cc = idx[0][0], idx[1][0]
            ff = Fn.snapshot_fn()
            col = Arr((Fn.axes[0],), lambda idx2: ff((idx2[0], (cc,))), "float")
            allnan, q = N.nanargmin_total(N.abs_(N.subtract(col, Fn.get(i, cc))))
            return sym.b2i(And_(sym.le(ordmin, cc), sym.le(cc, ordmax), sym.lt(0, cc), Not_(allnan)))
        return Arr(Fn.axes, lab, "int")

    def _wrong_first(self, c, Fn, Xi, Phi, ordmin, ordmax, step, err_fn, err_xi, err_phi):
        """labels the first order too"""
        a = (ordmin, ordmax, err_fn, err_xi, err_phi)

        def lab(idx):
            i, cc = idx[0][0], idx[1][0]
            return sym.b2i(Or_(label(Fn, Xi, Phi, i, cc, *a), And_(sym.eq(cc, 0), Not_(Fn.get(i, cc).nan))))
        return Arr(Fn.axes, lab, "int")

    canaries = {"same column instead of previous": spec_canary(_wrong_next),
                "first order labelled": spec_canary(_wrong_first)}
