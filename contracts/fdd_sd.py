"""C13: spectral matrix estimation fdd.SD_est; C04: multi-setup merging fdd.SD_PreGER."""
import z3

from pyvc import models as MD
from pyvc import npmodel as N
from pyvc import spec as S
from pyvc import sym
from pyvc.contract import Contract, register, spec_canary
from pyvc.core import PyRaise, cur
from pyvc.interp import LoopSpec, assert_same
from pyvc.sym import And_, Arr, C, F, Implies_, Not_, Seq, zi


def CSD(x, y, **kw):
    return MD.MODELS["scipy.signal.csd"](None, [x, y], kw)


def sd_est_spec(Yall, Yref, dt, nxseg, method, pov):
    """C13: entry (i, j) pairs channel i of Yall with channel j of Yref (x = data, y = reference => conj(X_i) Y_j);
    'per': Welch/Hann, nperseg = nxseg, noverlap = nxseg*pov, fs = 1/dt, scipy's grid k*fs/nxseg;
    'cor': raw boxcar periodogram of half segments zero-padded to nxseg -> irfft -> exponential window (1 % at the end,
    one-sided) -> rfft, grid k/(dt*nxseg)."""
    c = cur()
    n_all, Ndat = Yall.shape
    n_ref = Yref.shape[0]
    x = N.reshape(Yall, n_all, 1, Ndat)
    y = N.reshape(Yref, 1, n_ref, Ndat)
    c.numpy_mode += 1
    try:
        if method == "per":
            return CSD(x, y, fs=sym.div(1, dt), nperseg=nxseg, noverlap=sym.mul(nxseg, pov), window="hann")
        if method == "cor":
            _, P = CSD(x, y, nperseg=sym.floordiv(nxseg, 2), nfft=nxseg, noverlap=0, window="boxcar")
            R = MD.MODELS["numpy.fft.irfft"](None, [P], {})
            n = R.shape[2]
            tau = sym.div(sym.neg(n), sym.log_(sym.toF(0.01)))
            win = MD.MODELS["scipy.signal.windows.exponential"](None, [n], {"center": 0, "tau": tau, "sym": False})
            Rw = N.multiply(R, win)
            Sy = MD.MODELS["numpy.fft.rfft"](None, [Rw], {})
            step = sym.div(sym.div(1, dt), nxseg)
            freq = Arr(((Sy.shape[2],),), lambda idx: sym.mul(idx[0][0], step), "float")
            return (freq, Sy)
    finally:
        c.numpy_mode -= 1
    raise PyRaise("UnboundLocalError", "freq")


class _SDest(Contract):
    qualname = "pyoma2.functions.fdd.SD_est"
    props = ("C13",)
    method = "per"
    generic_replay = False
    bounded_driver = {"driver": "c13_sdest", "inputs": {}}

    def witness(self, o):
        return dict(self.bounded_driver)

    def setup(self, c):
        n_all = S.integer("n_all", lo=1)
        n_ref = S.integer("n_ref", lo=1)
        Nd = S.integer("Ndat", lo=2)
        nxseg = S.integer("nxseg", lo=2)
        return {"Yall": S.array("Yall", "float", shape=(n_all, Nd), finite=True),
                "Yref": S.array("Yref", "float", shape=(n_ref, Nd), finite=True),
                "dt": S.real("dt", pos=True), "nxseg": nxseg, "method": self.method, "pov": S.real("pov", lo=0, hi=1)}

    def requires(me, c, Yall, Yref, dt, nxseg=1024, method="cor", pov=0.5):
        return [("same-length", sym.eq(Yall.shape[1], Yref.shape[1])), ("nxseg>=2", sym.le(2, nxseg))]

    def spec(me, c, Yall, Yref, dt, nxseg=1024, method="cor", pov=0.5):
        return sd_est_spec(Yall, Yref, dt, nxseg, method, pov)


def _swap(me, c, Yall, Yref, dt, nxseg, method, pov):
    """canary: data and reference swapped in the estimator (opposite conjugation, transposed pairing)"""
    f, P = sd_est_spec(Yref, Yall, dt, nxseg, method, pov)
    return (f, N.moveaxis(P, 0, 1))


def _grid_half(me, c, Yall, Yref, dt, nxseg, method, pov):
    """canary: grid from nxseg/2"""
    f, P = sd_est_spec(Yall, Yref, dt, nxseg, method, pov)
    ff = f.snapshot_fn()
    return (Arr(f.axes, lambda idx: sym.mul(2, ff(idx)), "float"), P)


@register
class SD_est_per(_SDest):
    name = "per"
    method = "per"
    canaries = {"data/reference swapped": spec_canary(_swap), "grid from nxseg/2": spec_canary(_grid_half)}


@register
class SD_est_cor(_SDest):
    name = "cor"
    method = "cor"
    canaries = {"data/reference swapped": spec_canary(_swap)}


# ----------------------------------------------------------------------------------
# C04: SD_PreGER
# ----------------------------------------------------------------------------------
from pyvc import matmodel as MM   # noqa: E402

NSET = 2


def preger_parts(Y, fs, nxseg, pov, method):
    """per setup s: G_s = SD(all_s, ref_s) with the caller's nxseg / overlap / estimator (all_s = [ref_s; mov_s]);
    Gbar = mean over setups of G_s[:n_ref, :n_ref]"""
    c = cur()
    c.numpy_mode += 1
    try:
        dt = sym.div(1, fs)
    finally:
        c.numpy_mode -= 1
    n_ref = Y[0]["ref"].shape[0]
    G, freq = [], None
    for s in range(len(Y)):
        Yall = N.vstack((Y[s]["ref"], Y[s]["mov"]))
        freq, Sref = sd_est_spec(Yall, Y[s]["ref"], dt, nxseg, method, pov)
        G.append(Sref)
    acc = None
    for g in G:
        blk = N.getitem(g, (slice(None, n_ref), slice(None, n_ref)))
        acc = blk if acc is None else N.add(acc, blk)
    c.numpy_mode += 1
    try:
        Gbar = N.multiply(sym.div(1, len(Y)), acc)
    finally:
        c.numpy_mode -= 1
    return freq, G, Gbar, n_ref


def merged_at(G, Gbar, n_ref, ff):
    """the merged matrix at line ff: [Gbar; T_0 Gbar; T_1 Gbar; ...], T_s = G_s[n_ref:, :n_ref] inv(G_s[:n_ref, :n_ref])"""
    gb = N.getitem(Gbar, (slice(None), slice(None), ff))
    blocks = []
    for g in G:
        gmr = N.getitem(N.getitem(g, (slice(n_ref, None), slice(None, n_ref))), (slice(None), slice(None), ff))
        grr = N.getitem(N.getitem(g, (slice(None, n_ref), slice(None, n_ref))), (slice(None), slice(None), ff))
        blocks.append(N.dot(N.dot(gmr, MM.inv(grr)), gb))
    return N.vstack([gb, N.vstack(blocks)])


def _freq_loop(k, pre, it):
    c = cur()
    g = c.memo["ghost:preger"]
    return {"Gg": Seq(k, lambda ff: merged_at(g["G_code"], g["Gbar_code"], g["n_ref"], ff))}


class _PreGER(Contract):
    qualname = "pyoma2.functions.fdd.SD_PreGER"
    props = ("C04",)
    method = "per"
    generic_replay = False
    bounded_driver = {"driver": "c04_preger", "inputs": {}}
    use = {"pyoma2.functions.fdd.SD_est": None}

    def witness(self, o):
        return dict(self.bounded_driver)

    def setup(self, c):
        n_ref = S.integer("n_ref", lo=1)
        Y = []
        for s in range(NSET):
            Nd = S.integer(f"Ndat{s}", lo=2)
            nm = S.integer(f"n_mov{s}", lo=1)
            Y.append({"ref": S.array(f"ref{s}", "float", shape=(n_ref, Nd), finite=True),
                      "mov": S.array(f"mov{s}", "float", shape=(nm, Nd), finite=True)})
        return {"Y": Y, "fs": S.real("fs", pos=True), "nxseg": S.integer("nxseg", lo=2), "pov": S.real("pov", lo=0, hi=1),
                "method": self.method}

    def check(self, c, pre, post, outcome):
        if outcome[0] != "return":
            c.oblige("post", "no-exception", False, {"raised": outcome[1]})
            return
        freq, Sy = outcome[1]
        wf, G, Gbar, n_ref = preger_parts(pre["Y"], pre["fs"], pre["nxseg"], pre["pov"], pre["method"])
        assert_same("freq = the estimator's grid", freq, wf, "post")
        total = n_ref
        for y in pre["Y"]:
            total = sym.add(total, y["mov"].shape[0])
        c.oblige("post", "shape", And_(Sy.ndim == 3, sym.eq(Sy.shape[0], total), sym.eq(Sy.shape[1], n_ref), sym.eq(Sy.shape[2], wf.shape[0])))
        ff = c.fresh_int("ff")

        def sub():
            want = merged_at(G, Gbar, n_ref, ff)
            got = N.getitem(Sy, (slice(None), slice(None), ff))
            assert_same("Sy[:, :, f] = [mean ref block; transmissibility_s * mean ref block ...]", got, want, "post")
        c.subproof(z3.And(ff >= 0, ff < zi(wf.shape[0])), sub)


def _preger_loop_state(k, pre, it):
    """Gg after k frequency lines, written with the quantities the code has computed so far (Gyy, Gy_refref)"""
    Gyy, Gbar, n_ref = pre["Gyy"], pre["Gy_refref"], pre["n_ref"]
    return {"Gg": Seq(k, lambda ff: merged_at(Gyy, Gbar, n_ref, ff))}


@register
class SD_PreGER_per(_PreGER):
    name = "per"
    method = "per"
    loops = {1: LoopSpec(_preger_loop_state)}


@register
class SD_PreGER_cor(_PreGER):
    name = "cor"
    method = "cor"
    loops = {1: LoopSpec(_preger_loop_state)}
