"""C19: geometry tables.  gen.flatten_sns_names (the order of the sensor names, clause 'REF1..REFk then each setup's roving
names') is proved from the real source; the pandas-dependent functions are outside the verifier's reach and are checked
by a bounded native stand-in (labelled bounded, never counted as proved)."""
import z3

from pyvc import npmodel as N
from pyvc import spec as S
from pyvc import sym
from pyvc.contract import Contract, register, spec_canary
from pyvc.core import PyRaise, cur
from pyvc.interp import FmtStr, LoopSpec
from pyvc.sym import And_, Not_, Seq, SymStr, zi

from .mpe import Kept

I = z3.IntSort()
NSET = 2


def _names(c, tag, length):
    f = z3.Function(c.fresh_name(tag), I, sym.StrSort)
    return Seq(length, lambda j: SymStr(f(zi(j))), label=tag)


def _refs(c, tag, k, n):
    f = z3.Function(c.fresh_name(tag), I, I)

    def get(a):
        v = f(zi(a))
        c.fact(z3.And(v >= 0, v < zi(n)))
        return v
    return Seq(k, get, label=tag)


def _is_ref(ref, j):
    """j in ref (the code's `j not in ref_ind[i]` negated)"""
    n = ref.length
    a = sym.Arr(((n,),), lambda idx: sym.eq(ref.get(idx[0][0]), j), "bool")
    return N.any_(a)


def roving_names(c, s, names, ref):
    """the names of setup s that are not at a reference position, in their listed order (enumeration A7)"""
    key = f"ghost:rov{s}"
    K = c.memo.get(key)
    if K is None:
        K = Kept(lambda j: Not_(_is_ref(ref, j)))
        c.memo[key] = K
    return K


def flat_spec(c, names, refs, upto_setup, upto_j, first=1):
    """[REF1..REFk] ++ roving names of setups < upto_setup ++ the first roving names among positions < upto_j of that setup"""
    k = refs[0].length
    parts = [(k, lambda p: FmtStr("REF{}", (sym.add(p, first),)))]
    for s in range(upto_setup + (1 if upto_j is not None else 0)):
        K = roving_names(c, s, names[s], refs[s])
        lim = names[s].length if (s < upto_setup or upto_j is None) else upto_j
        cnt = K.count(lim)
        parts.append((cnt, lambda p, K=K, s=s, lim=lim: names[s].get(K.request(p, lim))))
    offs, tot = [], 0
    for n_, _ in parts:
        offs.append(tot)
        tot = sym.add(tot, n_)

    def at(p):
        r = None
        for (n_, fn), off in reversed(list(zip(parts, offs))):
            v = fn(sym.sub(p, off))
            r = v if r is None else sym.Lazy.choose(sym.lt(p, sym.add(off, n_)), lambda v=v: v, lambda r=r: r)
        return r
    return Seq(tot, at)


class _Flatten(Contract):
    qualname = "pyoma2.functions.gen.flatten_sns_names"
    props = ("C19", "C02")       # C02: the merged shape's row order is the order in which the multi-setup names are flattened
    generic_replay = False
    bounded_driver = {"driver": "c19_geo", "inputs": {"trials": 60}}

    def witness(self, o):
        return dict(self.bounded_driver)


def _ref_loop(k, pre, it):
    return {"sns_names_fl": Seq(k, lambda p: FmtStr("REF{}", (sym.add(p, 1),)))}


def _inner_loop(k, pre, it):
    c = cur()
    g = c.memo["ghost:flatten"]
    i = pre["i"]
    return {"sns_names_fl": flat_spec(c, g["names"], g["refs"], i, k)}


@register
class flatten_multi(_Flatten):
    """list of lists + reference indices (multi-setup): REF1..REFk, then every setup's non-reference names in listed order"""
    name = "list of lists"
    loops = {0: LoopSpec(_ref_loop), 2: LoopSpec(_inner_loop)}

    def setup(self, c):
        k = S.integer("k_ref", lo=1)
        names, refs = [], []
        for s in range(NSET):
            L = S.integer(f"n_names{s}", lo=1)
            kk = k if s == 0 else S.integer(f"k_ref{s}", lo=0)
            names.append(_names(c, f"names{s}", L))
            refs.append(_refs(c, f"ref_ind{s}", kk, L))
        c.memo["ghost:flatten"] = {"names": names, "refs": refs}
        return {"sens_names": names, "ref_ind": refs}

    def spec(me, c, sens_names, ref_ind=None):
        g = c.memo["ghost:flatten"]
        return flat_spec(c, g["names"], g["refs"], NSET, None)

    def _wrong_refs(me, c, sens_names, ref_ind=None):
        g = c.memo["ghost:flatten"]
        return flat_spec(c, g["names"], g["refs"], NSET, None, first=0)

    canaries = {"reference names numbered from 0": spec_canary(_wrong_refs)}


@register
class flatten_multi_noref(_Flatten):
    name = "list of lists without reference indices"
    callable_modular = False

    def setup(self, c):
        return {"sens_names": [_names(c, "names0", S.integer("n0", lo=1)), _names(c, "names1", S.integer("n1", lo=1))], "ref_ind": None}

    def spec(me, c, sens_names, ref_ind=None):
        raise PyRaise("AttributeError", "reference indices needed")


@register
class flatten_list(_Flatten):
    """a plain list of names is the order itself"""
    name = "list of names"
    callable_modular = False

    def setup(self, c):
        n = S.integer("n_names", lo=1)
        names = _names(c, "names", n)
        c.memo["ghost:names"] = names
        return {"sens_names": names, "ref_ind": None}

    def spec(me, c, sens_names, ref_ind=None):
        return sens_names

    def check(me, c, pre, post, outcome):
        Contract.check(me, c, pre, post, outcome)
        if outcome[0] == "return":
            c.oblige("post", "the list itself is returned", outcome[1] is post["sens_names"])


@register
class flatten_bad(_Flatten):
    name = "unsupported type"
    callable_modular = False

    def setup(self, c):
        return {"sens_names": S.integer("not_a_list", lo=0), "ref_ind": None}

    def spec(me, c, sens_names, ref_ind=None):
        raise PyRaise("ValueError", "type")


# ----------------------------------------------------------------------------------------------------------------------
# pandas-dependent part: bounded stand-in only
# ----------------------------------------------------------------------------------------------------------------------

class _GeoBounded(Contract):
    props = ("C19",)
    name = "tables"
    bounded_only = True
    callable_modular = False
    generic_replay = False
    bounded_reason = ("unsupported: pandas DataFrames (reindex, replace, fillna, sub, column selection, index/columns lists) have no model in the "
                      "verifier; the functions are exercised natively instead")
    bounded_bound = ("1-5 sensors (single setup) or 2-3 setups with 1-2 references and 1-3 roving sensors each; every documented name form; random row "
                     "permutations, spare rows, every subset of optional sheets, 10 + 8 single-fault corruptions per table set; mapping tables over "
                     "{sensor names, one constraint, 0, NaN}; def_geo1/def_geo2 with the documented argument forms")
    bounded_driver = {"driver": "c19_geo", "inputs": {"trials": 120, "trials_thorough": 1500}}


@register
class geo1_tables(_GeoBounded):
    qualname = "pyoma2.functions.gen.check_on_geo1"


@register
class geo2_tables(_GeoBounded):
    qualname = "pyoma2.functions.gen.check_on_geo2"
    bounded_driver = {"driver": "c19_geo", "inputs": {"trials": 40, "trials_thorough": 400, "seed_offset": 1}}


@register
class geo_mapping(_GeoBounded):
    qualname = "pyoma2.functions.gen.dfphi_map_func"
    bounded_driver = {"driver": "c19_geo", "inputs": {"trials": 40, "trials_thorough": 400, "seed_offset": 2}}
