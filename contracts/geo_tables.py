"""C19: validation skeleton of gen.check_on_geo1 over abstract tables (shapes, emptiness, labels, provenance).
ValueError exactly for the malformed table sets of the statement, no other exception, optional sheets may be omitted;
coordinates and directions re-ordered to the sensor names; one-based line / surface sheets shifted, background nodes kept;
empty or omitted sheets give None."""
import z3

from pyvc import pdmodel as P
from pyvc import spec as S
from pyvc import sym
from pyvc.contract import Contract, register
from pyvc.core import cur
from pyvc.sym import And_, Not_, Obj, Or_, SymStr, zi

I = z3.IntSort()
OPTIONAL = ("sensors lines", "BG nodes", "BG lines", "BG surfaces")
WIDTH = {"sensors lines": None, "BG nodes": 3, "BG lines": 2, "BG surfaces": 3}
SHIFTED = ("sensors lines", "BG lines", "BG surfaces")


def _labels(c, tag, n):
    f = z3.Function(c.fresh_name(tag), I, sym.StrSort)
    return [SymStr(f(z3.IntVal(j))) for j in range(n)]


class _Geo1(Contract):
    qualname = "pyoma2.functions.gen.check_on_geo1"
    props = ("C19",)
    inline = ("pyoma2.functions.gen.flatten_sns_names",)      # executed in place (its own contracts: geo.py)
    generic_replay = False
    callable_modular = False
    bounded_driver = {"driver": "c19_geo", "inputs": {"trials": 60}}
    present = OPTIONAL          # optional sheets in the file
    extra = ()                  # extra sheets ('INFO' is allowed and dropped, anything else is unknown)
    missing = None              # a required sheet left out
    n_rows = 3
    n_names = 2
    dir_rows = 3

    def witness(self, o):
        return dict(self.bounded_driver)

    def setup(self, c):
        n = self.n_rows
        g = {}
        g["names"] = _labels(c, "name", self.n_names)
        g["coord_idx"] = _labels(c, "coord_idx", n)
        g["dir_idx"] = _labels(c, "dir_idx", self.dir_rows)
        g["coord"] = P.table(n, S.integer("coord_cols", lo=0), index=g["coord_idx"], columns=None, tag=("sheet", "sensors coordinates"))
        g["dirs"] = P.table(self.dir_rows, S.integer("dir_cols", lo=0), index=g["dir_idx"], columns=None, tag=("sheet", "sensors directions"))
        fd = {}
        order = ["INFO"] if "INFO" in self.extra else []
        order += ["sensors names", "sensors coordinates", "sensors directions"]
        for k in order:
            if k == self.missing:
                continue
            fd[k] = {"INFO": Obj("pandas.DataFrame", {"nrows": 1, "ncols": 1, "idx_labels": None, "col_labels": None, "tag": ("sheet", "INFO")}),
                     "sensors names": g["names"], "sensors coordinates": g["coord"], "sensors directions": g["dirs"]}[k]
        g["opt"] = {}
        for k in self.present:
            t = P.table(S.integer(k.replace(" ", "_") + "_rows", lo=0), S.integer(k.replace(" ", "_") + "_cols", lo=0), index=None, columns=None, tag=("sheet", k))
            g["opt"][k] = t
            fd[k] = t
        for k in self.extra:
            if k != "INFO":
                fd[k] = P.table(1, 1, tag=("sheet", k))
        g["fd"] = fd
        c.memo["ghost:geo1"] = g
        return {"file_dict": fd, "ref_ind": None}

    def valid(self, c, g):
        """the statement's well-formedness of the table set (None: structurally invalid - missing / unknown sheet)"""
        if self.missing is not None or any(k != "INFO" for k in self.extra):
            return False
        cf, df_ = g["coord"].fields, g["dirs"].fields
        conds = [sym.eq(cf["ncols"], 3), sym.eq(cf["nrows"], df_["nrows"]), sym.eq(cf["ncols"], df_["ncols"])]
        for k, t in g["opt"].items():
            if WIDTH[k] is not None:
                conds.append(Or_(P.empty_flag(t), sym.eq(t.fields["ncols"], WIDTH[k])))
        if len(g["coord_idx"]) == len(g["dir_idx"]):
            conds.append(And_(*[sym.eq(a, b) for a, b in zip(g["coord_idx"], g["dir_idx"])]))
        else:
            conds.append(False)
        for nm in g["names"]:
            conds.append(Or_(*[sym.eq(nm, x) for x in g["coord_idx"]]))
        return And_(*conds)

    def check(self, c, pre, post, outcome):
        g = c.memo["ghost:geo1"]
        valid = self.valid(c, g)
        if outcome[0] == "raise":
            c.oblige("post", "only ValueError is raised", outcome[1] == "ValueError", {"raised": outcome[1], "msg": c.memo.get("raise_msg", "")})
            c.oblige("post", "rejected only when the table set is malformed", Not_(valid))
            return
        c.oblige("post", "accepted only when the table set is well formed", valid)
        r = outcome[1]
        c.oblige("post", "seven results", isinstance(r, tuple) and len(r) == 7)
        if not (isinstance(r, tuple) and len(r) == 7):
            return
        names, coord, sdir, lines, bgn, bgl, bgs = r
        c.oblige("post", "sensor names in their given order", isinstance(names, list) and len(names) == len(g["names"]) and all(a is b for a, b in zip(names, g["names"])))
        c.oblige("post", "coordinates re-ordered to the sensor names",
                 P.is_table(coord) and coord.fields["tag"][0] == "reindex" and coord.fields["tag"][1] == ("sheet", "sensors coordinates") and coord.fields["tag"][2] is names)
        c.oblige("post", "directions re-ordered to the sensor names (as an array)",
                 isinstance(sdir, Obj) and sdir.cls == "pandas.values" and sdir.fields["tag"][0] == "values" and sdir.fields["tag"][1][0] == "reindex"
                 and sdir.fields["tag"][1][1] == ("sheet", "sensors directions") and sdir.fields["tag"][1][2] is names)
        for k, got in zip(OPTIONAL, (lines, bgn, bgl, bgs)):
            t = g["opt"].get(k)
            if t is None:
                c.oblige("post", f"'{k}' omitted -> None", got is None)
                continue
            emp = P.empty_flag(t)
            want_tag = ("to_numpy", ("sub", ("sheet", k), 1)) if k in SHIFTED else ("to_numpy", ("sheet", k))
            if got is None:
                c.oblige("post", f"'{k}' is None only when the sheet is empty", emp)
            else:
                c.oblige("post", f"'{k}' kept when not empty", Not_(emp))
                c.oblige("post", f"'{k}': {'one-based -> zero-based, ' if k in SHIFTED else ''}as an array", isinstance(got, Obj) and got.fields.get("tag") == want_tag,
                         {"got": str(getattr(got, "fields", {}).get("tag"))[:80]})


def _variant(name, **kw):
    return register(type("geo1_" + name.replace(" ", "_"), (_Geo1,), dict(kw, name=name)))


_variant("all optional sheets")
_variant("no optional sheets", present=())
_variant("lines and BG nodes only", present=("sensors lines", "BG nodes"))
_variant("BG lines and surfaces only, INFO sheet", present=("BG lines", "BG surfaces"), extra=("INFO",))
_variant("unknown sheet", extra=("sensor lines",))
_variant("missing names", missing="sensors names")
_variant("missing coordinates", missing="sensors coordinates")
_variant("missing directions", missing="sensors directions")
_variant("directions with fewer rows", dir_rows=2)


# ----------------------------------------------------------------------------------------------------------------------
# gen.check_on_geo2
# ----------------------------------------------------------------------------------------------------------------------
OPT2 = ("constraints", "sensors sign", "sensors lines", "sensors surfaces", "BG nodes", "BG lines", "BG surfaces")
WIDTH2 = {"BG nodes": 3, "BG lines": 2, "BG surfaces": 3}
SHIFTED2 = ("sensors lines", "sensors surfaces", "BG lines", "BG surfaces")
LITERALS = ("0", "0.0", "interp")


class _Geo2(Contract):
    qualname = "pyoma2.functions.gen.check_on_geo2"
    props = ("C19",)
    inline = ("pyoma2.functions.gen.flatten_sns_names",)
    generic_replay = False
    callable_modular = False
    bounded_driver = {"driver": "c19_geo", "inputs": {"trials": 60}}
    present = ()
    extra = ()
    missing = None
    n_names = 2
    n_pts = 1
    cstr_cols = 1

    def witness(self, o):
        return dict(self.bounded_driver)

    def setup(self, c):
        g = {}
        g["names"] = _labels(c, "name", self.n_names)
        ncell = self.n_pts * 3
        g["cells"] = _labels(c, "map_cell", ncell)
        g["pts"] = P.table(self.n_pts, S.integer("pts_cols", lo=0), index=None, columns=["x", "y", "z"], tag=("sheet", "points coordinates"))
        g["map"] = P.table(S.integer("map_rows", lo=0), S.integer("map_cols", lo=0), index=None, columns=None, tag=("sheet", "mapping"), cells=g["cells"])
        fd = {}
        for k, v in (("sensors names", g["names"]), ("points coordinates", g["pts"]), ("mapping", g["map"])):
            if k != self.missing:
                fd[k] = v
        g["opt"] = {}
        for k in self.present:
            if k == "constraints":
                g["c_cols"] = _labels(c, "cstr_col", self.cstr_cols)
                g["c_idx"] = _labels(c, "cstr_name", 1)
                t = P.table(1, self.cstr_cols, index=g["c_idx"], columns=g["c_cols"], tag=("sheet", k))
            else:
                t = P.table(S.integer(k.replace(" ", "_") + "_rows", lo=0), S.integer(k.replace(" ", "_") + "_cols", lo=0), tag=("sheet", k))
            g["opt"][k] = t
            fd[k] = t
        for k in self.extra:
            fd[k] = P.table(1, 1, tag=("sheet", k))
        c.memo["ghost:geo2"] = g
        return {"file_dict": fd, "ref_ind": None, "fill_na": "zero"}

    def valid(self, c, g):
        if self.missing is not None or any(k != "INFO" for k in self.extra):
            return False
        pf, mf = g["pts"].fields, g["map"].fields
        conds = [sym.eq(pf["ncols"], 3), sym.eq(pf["nrows"], mf["nrows"]), sym.eq(pf["ncols"], mf["ncols"])]
        sg = g["opt"].get("sensors sign")
        if sg is not None:
            conds.append(Or_(P.empty_flag(sg), And_(sym.eq(sg.fields["nrows"], pf["nrows"]), sym.eq(sg.fields["ncols"], pf["ncols"]))))
        for k, w in WIDTH2.items():
            t = g["opt"].get(k)
            if t is not None:
                conds.append(Or_(P.empty_flag(t), sym.eq(t.fields["ncols"], w)))
        cells, names = g["cells"], g["names"]
        for nm in names:
            conds.append(Or_(*[sym.eq(nm, x) for x in cells]))
        if "constraints" in g["opt"]:
            for col in g["c_cols"]:
                conds.append(Or_(*[sym.eq(col, nm) for nm in names]))
            for k in g["c_idx"]:
                conds.append(Or_(*[And_(sym.eq(k, x), *[Not_(sym.eq(x, nm)) for nm in names], *[Not_(sym.eq(x, lit)) for lit in LITERALS]) for x in cells]))
        return And_(*conds)

    def check(self, c, pre, post, outcome):
        g = c.memo["ghost:geo2"]
        valid = self.valid(c, g)
        if outcome[0] == "raise":
            c.oblige("post", "only ValueError is raised", outcome[1] == "ValueError", {"raised": outcome[1], "msg": c.memo.get("raise_msg", "")})
            c.oblige("post", "rejected only when the table set is malformed", Not_(valid))
            return
        c.oblige("post", "accepted only when the table set is well formed", valid)
        r = outcome[1]
        c.oblige("post", "ten results", isinstance(r, tuple) and len(r) == 10)
        if not (isinstance(r, tuple) and len(r) == 10):
            return
        names, pts, smap, cstr, sign, lines, surf, bgn, bgl, bgs = r
        c.oblige("post", "sensor names in their given order", isinstance(names, list) and len(names) == len(g["names"]) and all(a is b for a, b in zip(names, g["names"])))
        c.oblige("post", "point coordinates handed through", pts is g["pts"])
        c.oblige("post", "mapping with missing cells as 0", P.is_table(smap) and smap.fields["tag"] == ("fillna", ("sheet", "mapping"), sym.toF(0.0)) or
                 (P.is_table(smap) and smap.fields["tag"][0] == "fillna" and smap.fields["tag"][1] == ("sheet", "mapping")))
        sg = g["opt"].get("sensors sign")
        if sg is None:
            c.oblige("post", "omitted sign sheet -> +1 everywhere, shaped like the points", P.is_table(sign) and sign.fields["tag"] == ("filled", "ones")
                     and sym.same_axes((sign.fields["nrows"],), (g["pts"].fields["nrows"],)))
        else:
            if sign is sg:
                c.oblige("post", "sign sheet used when not empty", Not_(P.empty_flag(sg)))
            else:
                c.oblige("post", "empty sign sheet -> +1 everywhere", And_(P.empty_flag(sg), P.is_table(sign) and sign.fields["tag"] == ("filled", "ones")))
        if "constraints" in g["opt"]:
            ok = P.is_table(cstr) and cstr.fields["tag"][0] == "select" and cstr.fields["tag"][2] is names and list(cstr.fields["col_labels"]) == list(names)
            c.oblige("post", "constraints: one column per sensor, in sensor order", ok, {"got": str(getattr(cstr, "fields", {}).get("tag"))[:100]})
            if ok:
                # the columns come from the given table (missing-value fill first), columns of sensors the table does not mention are added as zeros
                t = cstr.fields["tag"][1]
                while isinstance(t, tuple) and t and t[0] == "addcol":
                    c.oblige("post", "added constraint columns are zero", sym.is_pyint(t[3]) and t[3] == 0)
                    t = t[1]
                c.oblige("post", "constraints come from the constraints sheet, missing values as 0", isinstance(t, tuple) and t[0] == "fillna" and t[1] == ("sheet", "constraints"))
        else:
            c.oblige("post", "no constraints sheet -> None", cstr is None)
        for k, got in (("sensors lines", lines), ("sensors surfaces", surf), ("BG nodes", bgn), ("BG lines", bgl), ("BG surfaces", bgs)):
            t = g["opt"].get(k)
            if t is None:
                c.oblige("post", f"'{k}' omitted -> None", got is None)
                continue
            emp = P.empty_flag(t)
            want_tag = ("to_numpy", ("sub", ("sheet", k), 1)) if k in SHIFTED2 else ("to_numpy", ("sheet", k))
            if got is None:
                c.oblige("post", f"'{k}' is None only when the sheet is empty", emp)
            else:
                c.oblige("post", f"'{k}' kept when not empty", Not_(emp))
                c.oblige("post", f"'{k}': {'one-based -> zero-based, ' if k in SHIFTED2 else ''}as an array", isinstance(got, Obj) and got.fields.get("tag") == want_tag,
                         {"got": str(getattr(got, "fields", {}).get("tag"))[:80]})


def _variant2(name, **kw):
    return register(type("geo2_" + name.replace(" ", "_"), (_Geo2,), dict(kw, name=name)))


_variant2("required sheets only")
_variant2("constraints and sign", present=("constraints", "sensors sign"))
_variant2("constraints naming both sensors", present=("constraints",), cstr_cols=2)
_variant2("lines, surfaces, BG nodes", present=("sensors lines", "sensors surfaces", "BG nodes"))
_variant2("BG lines and surfaces", present=("BG lines", "BG surfaces"))
_variant2("unknown sheet", extra=("constraint",))
_variant2("missing mapping", missing="mapping")
_variant2("missing points", missing="points coordinates")
