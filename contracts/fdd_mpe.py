"""C06: fdd.SD_svalsvec (per-line SVD) and fdd.FDD_mpe (dominant line in the band, unity-normalised shape)."""
import z3

from pyvc import matmodel as MM
from pyvc import npmodel as N
from pyvc import spec as S
from pyvc import sym
from pyvc.contract import Contract, register, spec_canary
from pyvc.core import PyRaise, cur
from pyvc.interp import LoopSpec, assert_same
from pyvc.sym import And_, Arr, C, F, Implies_, NAN, Not_, Or_, Seq, zi


def line_svd(SD, f):
    """(U, sigma) of the spectral matrix at line f"""
    U, s, _ = MM.svd(N.getitem(SD, (slice(None), slice(None), f)))
    return U, s


def svalsvec_tables(SD, upto=None, init=None):
    """line-major tables as the loop fills them: rows < upto hold the decomposition of that line, later rows the
    allocation's contents"""
    nr, nc, nf = SD.shape
    zero = sym.toF(0.0)
    czero = C(False, z3.RealVal(0), z3.RealVal(0))

    def done(k):
        return True if upto is None else sym.lt(k, upto)

    def sval(idx):
        k, b = idx[0][0], idx[1][0]
        c = cur()
        c.numpy_mode += 1
        try:
            return sym.ite(done(k), sym.sqrt_(line_svd(SD, k)[1].get(b)), zero)
        finally:
            c.numpy_mode -= 1

    def s_val(idx):
        k, a, b = idx[0][0], idx[1][0], idx[2][0]
        c = cur()
        c.numpy_mode += 1
        try:
            filled = sym.ite(sym.eq(a, b), sym.sqrt_(line_svd(SD, k)[1].get(a)), zero)
            if upto is None:
                return filled
            # lines not reached yet hold whatever the allocation (np.empty) held
            return sym.ite(done(k), filled, init["S_val"](idx))
        finally:
            c.numpy_mode -= 1

    def s_vec(idx):
        k, i, j = idx[0][0], idx[1][0], idx[2][0]
        filled = sym.conj_(sym.toC(line_svd(SD, k)[0].get(j, i)))
        if upto is None:
            return filled
        return sym.ite(done(k), filled, init["S_vec"](idx))
    return {"Sval": Arr(((nf,), (nc,)), sval, "float"), "S_val": Arr(((nf,), (nc,), (nc,)), s_val, "float"),
            "S_vec": Arr(((nf,), (nr,), (nr,)), s_vec, "complex")}


@register
class SD_svalsvec(Contract):
    qualname = "pyoma2.functions.fdd.SD_svalsvec"
    props = ("C06",)
    generic_replay = False
    bounded_driver = {"driver": "c06_fdd", "inputs": {}}
    loops = {0: LoopSpec(lambda k, pre, it: svalsvec_tables(pre["SD"], k, {"S_val": pre["S_val"].snapshot_fn(), "S_vec": pre["S_vec"].snapshot_fn()}))}

    def witness(self, o):
        return dict(self.bounded_driver)

    def setup(self, c):
        nr = S.integer("nr", lo=1)
        nc = S.integer("nc", lo=1)
        nf = S.integer("nf", lo=1)
        c.assume(nc <= nr)
        return {"SD": S.array("SD", "complex", shape=(nr, nc, nf), finite=True)}

    def requires(me, c, SD):
        return [("rows>=cols", sym.le(SD.shape[1], SD.shape[0]))]

    def spec(me, c, SD):
        """S_val[a, b, f] = sqrt(sigma_a(f)) if a == b else 0;  S_vec[a, :, f] = conj(U[:, a](f)) with (U, sigma, .) the SVD
        of the spectral matrix at line f: a faithful decomposition stored line by line"""
        t = svalsvec_tables(SD)
        return (N.moveaxis(t["S_val"], 0, 2), N.moveaxis(t["S_vec"], 0, 2))

    def check(me, c, pre, post, outcome):
        Contract.check(me, c, pre, post, outcome)
        # clause (d): stored values non-negative and non-increasing along the diagonal at every line (svd contract + sqrt)
        SD = pre["SD"]
        f = S.integer("lf", lo=0)
        a = S.integer("la", lo=0)

        def lem():
            s = line_svd(SD, f)[1]
            x, y = sym.sqrt_(s.get(a)), sym.sqrt_(s.get(sym.add(a, 1)))
            c.oblige("lemma", "stored values non-negative and non-increasing", And_(Not_(x.nan), Not_(y.nan), y.v >= 0, x.v >= y.v))
        c.subproof(And_(f < SD.shape[2], sym.lt(sym.add(a, 1), SD.shape[1])), lem)

    def _no_conj(me, c, SD):
        t = svalsvec_tables(SD)
        f = t["S_vec"].snapshot_fn()
        v = Arr(t["S_vec"].axes, lambda idx: sym.conj_(f(idx)), "complex")
        return (N.moveaxis(t["S_val"], 0, 2), N.moveaxis(v, 0, 2))

    def _not_sqrt(me, c, SD):
        t = svalsvec_tables(SD)
        nr, nc, nf = SD.shape
        v = Arr(t["S_val"].axes, lambda idx: sym.ite(sym.eq(idx[1][0], idx[2][0]), line_svd(SD, idx[0][0])[1].get(idx[1][0]), sym.toF(0.0)), "float")
        return (N.moveaxis(v, 0, 2), N.moveaxis(t["S_vec"], 0, 2))

    canaries = {"vectors not conjugated": spec_canary(_no_conj), "values not square-rooted": spec_canary(_not_sqrt)}


# ----------------------------------------------------------------------------------
# FDD_mpe
# ----------------------------------------------------------------------------------

def pick(Sval, Svec, freq, f_sel, DF):
    """the property's choice for one selected frequency: among the grid lines with f_sel - DF <= freq <= f_sel + DF the
    first one maximising sigma1/sigma2; shape = Svec[0, :, n*] divided by its largest-magnitude component"""
    c = cur()
    sv, ff = Sval.snapshot_fn(), freq.snapshot_fn()
    lo, hi = sym.sub(f_sel, DF), sym.add(f_sel, DF)
    c.numpy_mode += 1
    try:
        def ratio(idx):
            fr = sym.toF(ff(idx))
            inb = And_(sym.le(lo, fr), sym.le(fr, hi))
            return sym.ite(inb, sym.div(sv(((0,), (0,), idx[0])), sv(((1,), (1,), idx[0]))), NAN)
        rho = Arr((freq.axes[0],), ratio, "float")
        empty, n_star = N._argext(rho, lambda x, y: x.v > y.v, True, "nanargmax", total=True)
        vf = Svec.snapshot_fn()
        vec = Arr((Svec.axes[1],), lambda idx: vf(((0,), idx[0], (n_star,))), Svec.kind)
        piv = N.argmax(N.abs_(vec))
        pv = vec.get(piv)
        phi = Arr(vec.axes, lambda idx: sym.div(vec.cell(idx), pv), "complex" if Svec.kind == "complex" else "float")
        return empty, n_star, freq.get(n_star), phi, rho.get(n_star)
    finally:
        c.numpy_mode -= 1


def _mpe_loop(k, pre, it):
    a = (pre["Sval"], pre["Svec"], pre["freq"])
    DF = pre["DF"]
    return {"Freq": Seq(k, lambda j: pick(*a, it.elem(j), DF)[2]),
            "Fi": Seq(k, lambda j: pick(*a, it.elem(j), DF)[3]),
            "index": Seq(k, lambda j: pick(*a, it.elem(j), DF)[1]),
            "maxSy_diff": Seq(k, lambda j: pick(*a, it.elem(j), DF)[4])}


def _mpe_steps(frame, k, pre, it):
    """proof steps after one loop body: the line the code picked is the specified one, then the pivot component"""
    from pyvc import lemmas as L
    env = frame.env
    empty, n_star, fn, phi, _ = pick(pre["Sval"], pre["Svec"], pre["freq"], it.elem(k), pre["DF"])
    if "idxfin" in env and sym.is_int(env["idxfin"]):
        L.prove_then_assume("step: the code's line is the first in-band maximiser of sigma1/sigma2", sym.eq(env["idxfin"], n_star),
                            timeout_ms=40000, heavy=False, rewrite=(n_star, env["idxfin"]))


@register
class FDD_mpe(Contract):
    qualname = "pyoma2.functions.fdd.FDD_mpe"
    # C08's last clause ("every reported mode shape has its largest-magnitude component equal to 1") is carried, for FDD / EFDD / FSDD, by
    # this function: its result equals the specification (post obligations) and the specification's pivot component is 1 (lemma)
    props = ("C06", "C08")
    prop_clauses = {"C08": lambda oid: "largest-magnitude component equals 1" in oid or "/post.result[1]" in oid or "inv.loop0" in oid}
    generic_replay = False
    bounded_driver = {"driver": "c06_fdd", "inputs": {}}
    loops = {0: LoopSpec(_mpe_loop, after_body=_mpe_steps)}

    def witness(self, o):
        return dict(self.bounded_driver)

    def setup(self, c):
        nch = S.integer("Nch", lo=2)
        nref = S.integer("Nref", lo=2)
        nf = S.integer("Nf", lo=3)
        delta = S.real("delta", pos=True, py=False)
        Sval = S.array("Sval", "float", shape=(nch, nref, nf), finite=True)
        Svec = S.array("Svec", "complex", shape=(nch, nch, nf), finite=True)
        # uniform ascending grid freq[n] = n * delta; second singular value positive
        fq = Arr(((nf,),), lambda idx: F(False, z3.ToReal(zi(idx[0][0])) * delta.v), "float", label="freq")
        fq.meta["param"] = True
        fq.meta["finite"] = True
        N.add_qfact(nf, lambda m: sym.lt(0, Sval.get(1, 1, m)), "sigma2>0")
        ns = S.integer("n_sel", lo=1)
        selv = z3.Function(c.fresh_name("sel_freq"), z3.IntSort(), z3.RealSort())
        DF = S.real("DF", py=True)
        c.assume(DF.v >= delta.v)

        def sel(j):
            v = selv(zi(j))
            c.fact(z3.And(v >= 0, v <= z3.ToReal(zi(nf) - 1) * delta.v))       # inside the grid
            return F(False, v, py=True)
        return {"Sval": Sval, "Svec": Svec, "freq": fq, "sel_freq": Seq(ns, sel, label="sel_freq"), "DF": DF}

    def spec(me, c, Sval, Svec, freq, sel_freq, DF=0.1):
        """for every selected frequency: Fn = the grid line inside [f - DF, f + DF] at which sigma1/sigma2 is largest (first
        such line); Phi column = the first singular vector stored for that line, divided by its largest-magnitude component"""
        ns = sel_freq.length
        Fn = Arr(((ns,),), lambda idx: pick(Sval, Svec, freq, sel_freq.get(idx[0][0]), DF)[2], "float")
        Phi = Arr(((Svec.shape[1],), (ns,)), lambda idx: pick(Sval, Svec, freq, sel_freq.get(idx[1][0]), DF)[3].cell((idx[0],)), "complex")
        return (Fn, Phi)

    def check(me, c, pre, post, outcome):
        Contract.check(me, c, pre, post, outcome)
        # the band of every selected frequency is non-empty (precondition DF >= delta, f inside the grid): lemma
        j = S.integer("lj", lo=0)

        def lem():
            empty, n_star, fn, phi, _ = pick(pre["Sval"], pre["Svec"], pre["freq"], pre["sel_freq"].get(j), pre["DF"])
            fsel = sym.toF(pre["sel_freq"].get(j))
            # witness line: the nearest grid line at or below f (n0 = floor(f/delta)) lies in the band
            n0 = c.fresh_int("n0")
            delta = sym.toF(pre["freq"].get(1)).v
            c.fact(z3.And(z3.ToReal(n0) * delta <= fsel.v, fsel.v < (z3.ToReal(n0) + 1) * delta, n0 >= 0))
            N.ground(n0)
            c.oblige("lemma", "the band holds at least one grid line", Not_(empty))
            c.oblige("lemma", "picked line lies in the band", Implies_(Not_(empty), And_(sym.le(sym.sub(fsel, pre["DF"]), fn), sym.le(fn, sym.add(fsel, pre["DF"])))))
            piv = N.argmax(N.abs_(Arr((pre["Svec"].axes[1],), lambda idx: pre["Svec"].cell(((0,), idx[0], (n_star,))), "complex")))
            pv = sym.toC(pre["Svec"].get(0, piv, n_star))
            one = sym.toC(phi.get(piv))
            c.oblige("lemma", "largest-magnitude component equals 1", Implies_(Or_(pv.re != 0, pv.im != 0), And_(Not_(one.nan), one.re == 1, one.im == 0)))
        c.subproof(j < pre["sel_freq"].length, lem)

    def _phi_rows(me, c, Sval, Svec, freq, sel_freq, DF=0.1):
        """canary: one row per mode instead of one column per mode"""
        Fn, Phi = me.spec(c, Sval, Svec, freq, sel_freq, DF)
        return (Fn, N.transpose(Phi))

    canaries = {"Phi with one row per mode": spec_canary(_phi_rows)}


# ----------------------------------------------------------------------------------
# data flow: what FDD.run stores is what FDD.mpe hands to FDD_mpe
# ----------------------------------------------------------------------------------
from pyvc.sym import Obj   # noqa: E402


@register
class FDD_mpe_havoc(Contract):
    qualname = "pyoma2.functions.fdd.FDD_mpe"
    name = "havoc-args"
    verify_body = False

    def apply(self, interp, args, kwargs):
        c = cur()
        fi = interp.repo.function(self.qualname)
        env = interp.bind(fi, args, kwargs, None)
        c.memo["ghost:FDD_mpe"] = env
        return (sym.Opaque("Fn_out"), sym.Opaque("Phi_out"))


@register
class FDD_mpe_method(Contract):
    qualname = "pyoma2.algorithms.fdd.FDD.mpe"
    props = ("C06",)
    bounded_driver = {"driver": "flow_mpe", "inputs": {}}

    def witness(self, o):
        return dict(self.bounded_driver)
    generic_replay = False
    callable_modular = False
    compare_state = False
    use = {"pyoma2.functions.fdd.FDD_mpe": "havoc-args"}

    def setup(self, c):
        res = Obj("pyoma2.algorithms.data.result.FDDResult", {k: sym.Opaque(k) for k in ("S_val", "S_vec", "Sy")})
        # the grid is a real array (its length and values are readable), the algorithm carries what _set_data binds (data, fs, dt)
        res.fields["freq"] = S.array("freq", "float", shape=(S.integer("n_lines", lo=2),), finite=True)
        res.fields.update({"Fn": None, "Phi": None})
        rp = Obj("rp", {"sel_freq": None, "DF": None, "nxseg": S.integer("nxseg", lo=2), "method_SD": "per", "pov": S.real("pov", lo=0)})
        fs = S.real("fs", pos=True)
        return {"self": Obj("pyoma2.algorithms.fdd.FDD", {"result": res, "run_params": rp, "name": "a", "fs": fs, "dt": sym.div(1, fs),
                                                          "data": sym.Opaque("data")}),
                "sel_freq": sym.Opaque("sel_freq"), "DF": S.real("DF", pos=True)}

    def check(self, c, pre, post, outcome):
        if outcome[0] != "return":
            c.oblige("post", "no-exception", False, {"raised": outcome[1]})
            return
        g = c.memo.get("ghost:FDD_mpe")
        c.oblige("post", "extraction-called", g is not None)
        if g is None:
            return
        R0 = pre["self"].fields["result"].fields
        R1 = post["self"].fields["result"].fields
        c.oblige("post", "Sval = stored S_val", g["Sval"] is R1["S_val"])
        c.oblige("post", "Svec = stored S_vec", g["Svec"] is R1["S_vec"])
        c.oblige("post", "freq = stored grid", g["freq"] is R1["freq"])
        c.oblige("post", "sel_freq forwarded", g["sel_freq"] is post["sel_freq"])
        c.oblige("post", "DF forwarded", sym.same(g["DF"], pre["DF"]))
        c.oblige("post", "results stored", isinstance(R1["Fn"], sym.Opaque) and R1["Fn"].tag == "Fn_out" and R1["Phi"].tag == "Phi_out")


# ----------------------------------------------------------------------------------
# EFDD / FSDD first stage: EFDD_mpe hands the decomposition of ITS spectral matrix, the caller's grid, frequencies and the
# first-stage band DF1 to FDD_mpe (prefix contract: the path is cut at the call; the fit that follows is C07's subject)
# ----------------------------------------------------------------------------------
from pyvc.core import PathEnd   # noqa: E402


@register
class SD_svalsvec_flow(Contract):
    qualname = "pyoma2.functions.fdd.SD_svalsvec"
    name = "havoc-flow"
    verify_body = False

    def apply(self, interp, args, kwargs):
        c = cur()
        env = interp.bind(interp.repo.function(self.qualname), args, kwargs, None)
        nch, nf = S.integer("Nch", lo=1), S.integer("nf", lo=2)
        out = (S.array("Sval_of_Sy", "float", shape=(nch, nch, nf)), S.array("Svec_of_Sy", "complex", shape=(nch, nch, nf)))
        c.memo["ghost:svalsvec"] = (env, out)
        return out


@register
class FDD_mpe_first_stage(Contract):
    qualname = "pyoma2.functions.fdd.FDD_mpe"
    name = "first-stage-probe"
    verify_body = False

    def apply(self, interp, args, kwargs):
        c = cur()
        env = interp.bind(interp.repo.function(self.qualname), args, kwargs, None)
        g = c.memo["ghost:efdd"]
        sv = c.memo.get("ghost:svalsvec")
        c.oblige("post", "decomposition of the caller's spectral matrix", sv is not None and sv[0]["SD"] is g["Sy"])
        if sv is not None:
            c.oblige("post", "singular values and vectors of that decomposition", env["Sval"] is sv[1][0] and env["Svec"] is sv[1][1])
        c.oblige("post", "the caller's frequency grid", env["freq"] is g["freq"])
        c.oblige("post", "the caller's selected frequencies", env["sel_freq"] is g["sel_freq"])
        c.oblige("post", "first-stage band DF1", sym.same(env["DF"], g["DF1"]), {"DF": str(env["DF"])[:60]})
        c.memo["ghost:efdd_called"] = True
        raise PathEnd()


@register
class EFDD_mpe_first_stage(Contract):
    qualname = "pyoma2.functions.fdd.EFDD_mpe"
    props = ("C06",)
    name = "first stage"
    generic_replay = False
    callable_modular = False
    use = {"pyoma2.functions.fdd.SD_svalsvec": "havoc-flow", "pyoma2.functions.fdd.FDD_mpe": "first-stage-probe"}
    bounded_driver = {"driver": "c06_fdd", "inputs": {}}

    def witness(self, o):
        return dict(self.bounded_driver)

    def setup(self, c):
        g = {"Sy": sym.Opaque("Sy"), "freq": sym.Opaque("freq"), "sel_freq": Seq(S.integer("n_sel", lo=1), lambda k: sym.Opaque("f_sel")),
             "DF1": S.real("DF1", pos=True)}
        c.memo["ghost:efdd"] = g
        return {"Sy": g["Sy"], "freq": g["freq"], "dt": S.real("dt", pos=True), "sel_freq": g["sel_freq"], "methodSy": "per", "method": "FSDD",
                "DF1": g["DF1"], "DF2": S.real("DF2", pos=True), "cm": 1, "MAClim": sym.toF(0.85), "sppk": 3, "npmax": 20}

    def check(self, c, pre, post, outcome):
        # reached only if the first stage was never called (the probe cuts the path)
        c.oblige("post", "the first stage (FDD_mpe) is called", False)
