"""C17 (factor clause only): the covariance factor T that ssi.build_hank(method='cov_mm', calc_unc=True) hands to the
propagation step.  Property: column k = column-stacked vec(H_k - H) / sqrt(nb (nb - 1)), H_k the Hankel estimate of data
block k (on the scale of H, so that T T^T is the sample covariance of the mean)."""
import z3

from pyvc import npmodel as N
from pyvc import spec as S
from pyvc import sym
from pyvc.contract import Contract, register
from pyvc.core import cur
from pyvc.interp import LoopSpec, assert_same
from pyvc.sym import And_, Arr, F, Not_, zi

from .ssi_hank import dims, hank_cov_mm


def block_sum(Y, Yref, br, k, Nb, idx):
    """unweighted sum over data block k of the products that make up Hankel entry idx = ((i, a), (j, b))"""
    l, r, Ndat, p, q, Nn = dims(Y, Yref, br)
    fy, fr = Y.snapshot_fn(), Yref.snapshot_fn()
    (i, a), (j, b) = idx
    off = sym.mul(k, Nb)
    return N.make_sum((Nb,), lambda t: sym.mul(fy(((a,), (sym.add(sym.add(sym.add(sym.add(q, 1), i), off), t[0]),))),
                                               fr(((b,), (sym.add(sym.add(sym.sub(q, j), off), t[0]),)))))


def factor(c, Y, Yref, br, nb, colmajor, on_scale_of_H, upto=None):
    l, r, Ndat, p, q, Nn = dims(Y, Yref, br)
    Nb = sym.floordiv(Nn, nb)
    H = hank_cov_mm(Y, Yref, br)
    rows = (sym.add(p, 1), l)
    cols = (sym.add(p, 1), r)
    nrow, ncol = sym.prod(rows), sym.prod(cols)
    c.numpy_mode += 1
    try:
        scale = sym.sqrt_(sym.toF(sym.mul(nb, sym.sub(nb, 1))))
        wk = sym.div(1, sym.toF(Nb)) if on_scale_of_H else sym.div(1, sym.toF(sym.mul(Nn, Nb)))
    finally:
        c.numpy_mode -= 1

    def cell(idx):
        v, k = idx[0], idx[1][0]
        flat = sym.flat_index(v, Tax)
        if colmajor:
            cf, rf = sym.idiv(flat, nrow), sym.imod(flat, nrow)
        else:
            rf, cf = sym.idiv(flat, ncol), sym.imod(flat, ncol)
        hidx = (sym.split_index(rf, rows), sym.split_index(cf, cols))
        c.numpy_mode += 1
        try:
            val = sym.div(sym.sub(sym.mul(wk, block_sum(Y, Yref, br, k, Nb, hidx)), H.cell(hidx)), scale)
        finally:
            c.numpy_mode -= 1
        if upto is not None:
            return sym.ite(sym.lt(k, upto), val, sym.toF(0.0))
        return val
    Tax = (sym.mul(sym.mul(sym.mul(sym.add(p, 1), q), l), r),)
    return Arr((Tax, (nb,)), cell, "float")


class _Factor(Contract):
    qualname = "pyoma2.functions.ssi.build_hank"
    props = ("C17",)
    name = "covariance factor"
    generic_replay = False
    callable_modular = False
    bounded_driver = {"driver": "c17_factor", "inputs": {}}

    def witness(self, o):
        return dict(self.bounded_driver)

    def setup(self, c):
        l = S.integer("l", lo=1)
        r = S.integer("r", lo=1)
        Nd = S.integer("Ndat", lo=1)
        br = S.integer("br", lo=1)
        nb = S.integer("nb", lo=2)
        c.assume(Nd - 2 * br - 1 >= 2 * nb)
        return {"Y": S.array("Y", "float", shape=(l, Nd), finite=True), "Yref": S.array("Yref", "float", shape=(r, Nd), finite=True),
                "br": br, "method": "cov_mm", "calc_unc": True, "nb": nb}


def _loop(k, pre, it):
    c = cur()
    return {"T": factor(c, pre["Y"], pre["Yref"], pre["br"], pre["nb"], colmajor=False, on_scale_of_H=False, upto=k)}


@register
class factor_today(_Factor):
    """the factor exactly as computed today (row-major vec of H_k / N - H): every other change to the computation fails here"""
    name = "covariance factor, current form"
    loops = {0: LoopSpec(_loop)}

    def check(self, c, pre, post, outcome):
        if outcome[0] != "return" or not isinstance(outcome[1], tuple) or len(outcome[1]) != 2:
            c.oblige("post", "returns (Hank, T)", False)
            return
        H, T = outcome[1]
        want = factor(c, pre["Y"], pre["Yref"], pre["br"], pre["nb"], colmajor=False, on_scale_of_H=False)
        assert_same("T = rowmajor-vec(H_k/N - H)/sqrt(nb(nb-1)) [current, deviant form]", T, want, "post")
        # the property's factor
        prop = factor(c, pre["Y"], pre["Yref"], pre["br"], pre["nb"], colmajor=True, on_scale_of_H=True)
        assert_same("T = column-stacked vec(H_k - H)/sqrt(nb(nb-1)), H_k on the scale of H", T, prop, "post")
