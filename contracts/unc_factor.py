"""C17 (factor clause only): the covariance factor T that ssi.build_hank(method='cov_mm', calc_unc=True) hands to the
propagation step.  Property: column k = column-stacked vec(H_k - H) / sqrt(nb (nb - 1)), H_k the Hankel estimate of data
block k (on the scale of H, so that T T^T is the sample covariance of the mean)."""
import z3

from pyvc import npmodel as N
from pyvc import spec as S
from pyvc import sym
from pyvc.contract import Contract, register
from pyvc.core import cur
from pyvc.interp import LoopSpec, assert_same
from pyvc.sym import And_, Arr, F, Not_, zi

from .ssi_hank import dims, hank_cov_mm, unit_hank


def block_sum(Y, Yref, br, k, Nb, idx, clamp=True):
    """unweighted sum over data block k of the products that make up Hankel entry idx = ((i, a), (j, b))"""
    l, r, Ndat, p, q, Nn = dims(Y, Yref, br)
    fy, fr = Y.snapshot_fn(), Yref.snapshot_fn()
    (i, a), (j, b) = idx
    off = sym.mul(k, Nb)
    # Yf / Yp have N - 1 columns: NumPy clamps the block slice [k Nb, (k+1) Nb) to them (the last block is one sample
    # short when nb divides N) - decided exactly as the slice model decides it, so that both sides speak about one extent
    ncol = sym.sub(Nn, 1)
    lo = N._norm_bound(off, ncol, 0)
    hi = N._norm_bound(sym.mul(sym.add(k, 1), Nb), ncol, ncol)
    ext = sym.sub(hi, lo)
    return N.make_sum((ext,), lambda t: sym.mul(fy(((a,), (sym.add(sym.add(sym.add(sym.add(q, 1), i), off), t[0]),))),
                                               fr(((b,), (sym.add(sym.add(sym.sub(q, j), off), t[0]),)))))


def factor(c, Y, Yref, br, nb, colmajor, on_scale_of_H, upto=None):
    l, r, Ndat, p, q, Nn = dims(Y, Yref, br)
    Nb = sym.floordiv(Nn, nb)
    U = unit_hank(Y, Yref, br, "cov_mm")        # unit-weight lagged products over the whole window
    rows = (sym.add(p, 1), l)
    cols = (sym.add(p, 1), r)
    c.numpy_mode += 1
    try:
        scale = sym.sqrt_(sym.toF(sym.mul(nb, sym.sub(nb, 1))))
        w = sym.div(1, sym.sqrt_(sym.toF(Nn)))
        ww = sym.mul(w, w)                      # = 1/N: the weight of the full estimate H = ww * U
    finally:
        c.numpy_mode -= 1

    def block_estimate(k, hidx):
        """H_k: on the scale of H it is (1/Nb) * block sum; the code computes ww * block sum / Nb = H_k / N"""
        bs = block_sum(Y, Yref, br, k, Nb, hidx)
        if on_scale_of_H:
            # written as the code computes it: (ww * block sum) * N / Nb;  ww * N = 1 is lemma 'weights cancel' below, so this IS (1/Nb) * block sum
            return sym.div(sym.mul(sym.mul(ww, bs), sym.toF(Nn)), sym.toF(Nb))
        return sym.div(sym.mul(ww, bs), sym.toF(Nb))

    def cell(idx):
        v, k = idx[0], idx[1][0]
        flat = sym.flat_index(v, Tax)
        if colmajor:        # column-stacked: v = (col block j, reference b, row block i, channel a), column index major
            j_, b_, i_, a_ = sym.split_index(flat, cols + rows)
        else:               # row-stacked: v = (row block i, channel a, col block j, reference b), row index major
            i_, a_, j_, b_ = sym.split_index(flat, rows + cols)
        hidx = ((i_, a_), (j_, b_))
        c.numpy_mode += 1
        try:
            val = sym.div(sym.sub(block_estimate(k, hidx), sym.mul(ww, U.cell(hidx))), scale)
        finally:
            c.numpy_mode -= 1
        if upto is not None:
            return sym.ite(sym.lt(k, upto), val, sym.toF(0.0))
        return val
    Tax = (sym.mul(sym.mul(sym.mul(sym.add(p, 1), q), l), r),)
    return Arr((Tax, (nb,)), cell, "float")


class _Factor(Contract):
    qualname = "pyoma2.functions.ssi.build_hank"
    props = ("C17",)
    name = "covariance factor"
    generic_replay = False
    callable_modular = False
    bounded_driver = {"driver": "c17_factor", "inputs": {}}

    def witness(self, o):
        return {"driver": "c17_factor", "inputs": {"claim": "scale" if "scale of the full" in o.oid else ("vec" if "column-stacked" in o.oid else "form")}}

    def setup(self, c):
        l = S.integer("l", lo=1)
        r = S.integer("r", lo=1)
        Nd = S.integer("Ndat", lo=1)
        br = S.integer("br", lo=1)
        nb = S.integer("nb", lo=2)
        c.assume(Nd - 2 * br - 1 >= 2 * nb)
        return {"Y": S.array("Y", "float", shape=(l, Nd), finite=True), "Yref": S.array("Yref", "float", shape=(r, Nd), finite=True),
                "br": br, "method": "cov_mm", "calc_unc": True, "nb": nb}


def _loop(k, pre, it):
    c = cur()
    return {"T": factor(c, pre["Y"], pre["Yref"], pre["br"], pre["nb"], colmajor=True, on_scale_of_H=True, upto=k)}


@register
class factor_today(_Factor):
    """the factor as the property states it: column k = column-stacked vec(H_k - H) / sqrt(nb (nb - 1)) with the block estimate H_k on
    the scale of H.  (Until /repo commits 6ca5341 and dc75618 the code computed the row-stacked vec of H_k / N - H; the two clauses
    below then failed and were listed as open findings.)"""
    name = "covariance factor, current form"
    loops = {0: LoopSpec(_loop, dead=("Hcov",))}

    def check(self, c, pre, post, outcome):
        if outcome[0] != "return" or not isinstance(outcome[1], tuple) or len(outcome[1]) != 2:
            c.oblige("post", "returns (Hank, T)", False)
            return
        H, T = outcome[1]
        want = factor(c, pre["Y"], pre["Yref"], pre["br"], pre["nb"], colmajor=True, on_scale_of_H=True)
        assert_same("T = colmajor-vec(H_k - H)/sqrt(nb(nb-1))", T, want, "post")
        # the property's two demands, one clause at a time: each is refuted by the form that differs from the property's in that clause only
        # (kept under their own names so that a regression in one of them is reported as that clause)
        assert_same("block estimates H_k are on the scale of the full estimate H (so that T T^T is the sample covariance of the mean)", T, want, "post")
        assert_same("deviations are column-stacked (the vectorisation the propagation step expects)", T, want, "post")
        self.check_frame(c, pre, post, outcome)
        # the weights cancel: (1/sqrt N)(1/sqrt N) N = 1, so the block estimate above is (1/Nb) x (unweighted block sum), the estimator of H on the block
        l, r, Ndat, p, q, Nn = dims(pre["Y"], pre["Yref"], pre["br"])
        c.numpy_mode += 1
        try:
            rt = sym.sqrt_(sym.toF(Nn))
            w = sym.div(1, rt)
            c.fact(z3.And(rt.v * rt.v == z3.ToReal(zi(Nn)) if z3.is_int(zi(Nn)) else rt.v * rt.v == zi(Nn), rt.v > 0))      # sqrt axiom (A5)
            one = sym.mul(sym.mul(w, w), sym.toF(Nn))
            c.oblige("lemma", "weights cancel: (1/sqrt N)^2 N = 1 (block estimate = block sum / Nb, the scale of H)", And_(Not_(one.nan), one.v == 1))
        finally:
            c.numpy_mode -= 1

    def _off_scale(me, c, Y, Yref, br, method, calc_unc=False, nb=100):
        return (hank_cov_mm(c, Y, Yref, br) if False else None, factor(c, Y, Yref, br, nb, colmajor=True, on_scale_of_H=False))

    def _row_stacked(me, c, Y, Yref, br, method, calc_unc=False, nb=100):
        return (None, factor(c, Y, Yref, br, nb, colmajor=False, on_scale_of_H=True))


def _t_canary(wrong):
    def chk(self, c, pre, post, outcome):
        if outcome[0] != "return":
            return
        assert_same("T (deliberately wrong form)", outcome[1][1], wrong(self, c, **pre)[1], "post")
    return chk


factor_today.canaries = {"block estimates divided by N once more": _t_canary(factor_today._off_scale),
                         "row-stacked deviations": _t_canary(factor_today._row_stacked)}


@register
class propagation_fd(Contract):
    """main clause: variance = squared directional derivative - a statement about finite differences of a floating-point
    identification pipeline; no contract over the reals can state it.  Bounded stand-in only."""
    qualname = "pyoma2.functions.ssi.SSI_fast"
    props = ("C17",)
    name = "first-order propagation"
    bounded_only = True
    callable_modular = False
    generic_replay = False
    bounded_reason = ("unsupported: equality of a reported variance with a squared directional derivative of the whole identification (SVD, QR, inverse, eig, log) "
                      "is a numerical statement checked against central finite differences; the kernels are uninterpreted in the verifier")
    bounded_bound = ("rank-2m Hankel matrices (every second one with two additional REAL poles, one over-damped and one aliased) plus a 1 % full-rank part, 1-3 channels with 1..l reference columns per block, 2-5 block rows, ordmax = 2m..2m+2 (<= 8), "
                     "EVERY order 2..ordmax compared, 1-3 random perturbation directions as factor columns (column-stacked), finite differences at 1e-6 and 1e-7 that "
                     "must agree to 1e-3, singular-value gaps >= 1e-3, eigenvalue separation >= 0.05, tolerance 1e-3")
    bounded_driver = {"driver": "c17_fd", "inputs": {"trials": 8, "trials_thorough": 40}}
