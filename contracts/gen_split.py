"""C03 (split clause) / C14: gen.pre_multisetup - reference/roving partition of every dataset."""
import z3

from pyvc import npmodel as N
from pyvc import spec as S
from pyvc import sym
from pyvc.contract import Contract, register, spec_canary
from pyvc.core import cur
from pyvc.interp import LoopSpec
from pyvc.sym import And_, Arr, F, Implies_, Not_, Seq, zi

I = z3.IntSort()


class RefList:
    """a list of n_ref distinct reference-channel indices into range(n) (any order), with
    E(ii, .)  : the channel list after removing refs[0..ii) one by one (defined recursively, as the code does), and
    rov(.)    : the strictly increasing enumeration of the non-reference channels (= E(n_ref, .), list lemma A7)."""

    def __init__(self, name, nref, n):
        c = cur()
        self.nref, self.n = nref, n
        self.R = z3.Function(c.fresh_name(name + ".ref"), I, I)
        self.E = z3.Function(c.fresh_name(name + ".E"), I, I, I)
        self.P = z3.Function(c.fresh_name(name + ".P"), I, I)
        self.V = z3.Function(c.fresh_name(name + ".rov"), I, I)
        self.seq = Seq(nref, self.ref, label=name)
        self.seq.meta["rov"] = lambda n_: (sym.sub(n_, nref), self.rov)
        self.seq.meta["reflist"] = self

    def ref(self, a):
        c = cur()
        v = self.R(zi(a))
        c.fact(z3.And(v >= 0, v < zi(self.n)))
        return v

    def rov(self, b):
        c = cur()
        v = self.V(zi(b))
        # A7: enumeration of the complement: in range, never a reference (instance at the grounds), increasing
        c.fact(z3.And(v >= 0, v < zi(self.n), v == self.E(zi(self.nref), zi(b))))
        c.fact(z3.Implies(z3.And(zi(b) >= 0, zi(b) + 1 < zi(self.n) - zi(self.nref)), v < self.V(zi(b) + 1)))
        return v

    def enum(self, ii, b):
        """E(ii, b): definitional unfolding + the enumeration lemma instances needed by the proof"""
        c = cur()
        ii, b = zi(ii), zi(b)
        v = self.E(ii, b)
        # E(0, b) = b ;  E(ii+1, b) = E(ii, b) if b < P(ii) else E(ii, b+1)   (P(ii): position of refs[ii] in E(ii, .))
        c.fact(z3.Implies(z3.And(b >= 0, b < zi(self.n) - ii, ii >= 0, ii <= zi(self.nref)), z3.And(v >= 0, v < zi(self.n))))
        c.fact(z3.Implies(ii == 0, v == b))
        c.fact(z3.Implies(ii >= 1, v == z3.If(b < self.P(ii - 1), self.E(ii - 1, b), self.E(ii - 1, b + 1))))
        return v

    def position(self, ii):
        """P(ii) with the lemma instances: refs[ii] occurs in E(ii, .) exactly once (distinct references, A7)"""
        c = cur()
        ii = zi(ii)
        p = self.P(ii)
        inr = z3.And(ii >= 0, ii < zi(self.nref))
        c.fact(z3.Implies(inr, z3.And(p >= 0, p < zi(self.n) - ii, self.E(ii, p) == self.R(ii))))
        return p

    def injective(self, ii, k1, k2):
        c = cur()
        ii = zi(ii)
        c.fact(z3.Implies(z3.And(self.E(ii, zi(k1)) == self.E(ii, zi(k2)), zi(k1) >= 0, zi(k2) >= 0,
                                 zi(k1) < zi(self.n) - ii, zi(k2) < zi(self.n) - ii), zi(k1) == zi(k2)))


def _remove_loop(k, pre, it):
    """after k removals mov_id is E(k, .)"""
    rl = pre["ref_id"].meta["reflist"]
    c = cur()
    N.ground(rl.position(k))

    def elem(b):
        v = rl.enum(k, b)
        # lemma instances relating this entry to the position of the next reference
        rl.injective(k, b, rl.position(k))
        for g in list(c.grounds):
            if len(g) == 1:
                rl.injective(k, g[0], rl.position(k))
        return v
    return {"mov_id": Seq(sym.sub(pre["n_sens"], k), elem)}


class _Pre(Contract):
    qualname = "pyoma2.functions.gen.pre_multisetup"
    props = ("C03", "C14")
    NSETUP = 2
    loops = {1: LoopSpec(_remove_loop)}
    generic_replay = False
    bounded_driver = {"driver": "c03_split", "inputs": {}}

    def witness(self, o):
        return dict(self.bounded_driver)

    def setup(self, c):
        data, refs = [], []
        self_lists = []
        for s in range(self.NSETUP):
            n = S.integer(f"n_sens{s}", lo=2)
            nref = S.integer(f"n_ref{s}", lo=1)
            c.assume(nref < n)
            Nd = S.integer(f"Ndat{s}", lo=1)
            rl = RefList(f"refs{s}", nref, n)
            self_lists.append(rl)
            data.append(S.array(f"data{s}", "float", shape=(Nd, n), finite=True))
            refs.append(rl.seq)
        c.memo["ghost:reflists"] = self_lists
        return {"dataList": data, "reflist": refs}

    def requires(me, c, dataList, reflist):
        return [("reference-lists-with-enumeration", all(isinstance(r, Seq) and "reflist" in r.meta for r in reflist)),
                ("one-list-per-dataset", len(dataList) == len(reflist))]

    def spec(me, c, dataList, reflist):
        """every channel's samples intact: 'ref' rows = the listed reference channels in listed order, 'mov' rows = the
        remaining channels in ascending channel order; both transposed to (channels, samples)"""
        out = []
        for y, r in zip(dataList, reflist):
            rl = r.meta["reflist"]
            f = y.snapshot_fn()
            Nd = y.shape[0]
            ref = Arr(((rl.nref,), (Nd,)), lambda idx, f=f, rl=rl: f((idx[1], (rl.ref(idx[0][0]),))), y.kind)
            mov = Arr(((sym.sub(y.shape[1], rl.nref),), (Nd,)), lambda idx, f=f, rl=rl: f((idx[1], (rl.rov(idx[0][0]),))), y.kind)
            out.append({"ref": ref, "mov": mov})
        return out

    def _wrong_listed_order(me, c, dataList, reflist):
        """canary: roving channels in the order in which the list happens to be left (not the ascending enumeration)"""
        out = me.spec(c, dataList, reflist)
        for d, y, r in zip(out, dataList, reflist):
            rl = r.meta["reflist"]
            f = y.snapshot_fn()
            d["mov"] = Arr(d["mov"].axes, lambda idx, f=f, rl=rl: f((idx[1], (rl.rov(sym.sub(sym.sub(sym.sub(y.shape[1], rl.nref), 1), idx[0][0])),))), y.kind)
        return out

    def _wrong_transposed(me, c, dataList, reflist):
        out = me.spec(c, dataList, reflist)
        for d in out:
            d["ref"] = N.transpose(d["ref"])
        return out

    canaries = {"roving channels in reverse order": spec_canary(_wrong_listed_order), "ref block not transposed": spec_canary(_wrong_transposed)}


@register
class pre_multisetup2(_Pre):
    name = "2 datasets"
    NSETUP = 2
