"""Contracts for the hard-criteria helpers of pyoma2.functions.gen (property C09)."""
from pyvc import npmodel as N
from pyvc import spec as S
from pyvc import sym
from pyvc.contract import Contract, register, spec_canary
from pyvc.sym import F, NAN, And_, Not_, ite


@register
class HC_damp(Contract):
    qualname = "pyoma2.functions.gen.HC_damp"
    props = ("C09",)

    def setup(self, c):
        return {"damp": S.array("damp", "float", ndim=2), "max_damp": S.real("max_damp", py=True)}

    def spec(self, c, damp, max_damp):
        """C09: a pole passes iff 0 < xi < xi_max (false on NaN); failing cells are blanked."""
        keep = N.logical_and(N.less(damp, max_damp), N.greater(damp, 0))
        return (N.where(keep, damp, NAN), N.astype(keep, "int"))

    def _wrong_le(self, c, damp, max_damp):     # canary: zero damping accepted
        keep = N.logical_and(N.less(damp, max_damp), N.greater_equal(damp, 0))
        return (N.where(keep, damp, NAN), N.astype(keep, "int"))

    def _wrong_nomask(self, c, damp, max_damp):  # canary: table not blanked
        keep = N.logical_and(N.less(damp, max_damp), N.greater(damp, 0))
        return (damp, N.astype(keep, "int"))

    canaries = {"accepts xi == 0": spec_canary(_wrong_le), "table not blanked": spec_canary(_wrong_nomask)}


@register
class HC_cov(Contract):
    qualname = "pyoma2.functions.gen.HC_cov"
    props = ("C09",)

    def setup(self, c):
        return {"Fn_cov": S.array("Fn_cov", "float", ndim=2), "max_cov": S.real("max_cov", py=True)}

    def spec(self, c, Fn_cov, max_cov):
        """C09: frequency covariance < cov_max; one NaN pattern (mask 0 <=> blanked)."""
        keep = N.less(Fn_cov, max_cov)
        return (N.where(keep, Fn_cov, NAN), N.astype(keep, "int"))

    def _wrong_zero(self, c, Fn_cov, max_cov):   # canary: the old behaviour (cov == 0 blanked, mask 1)
        keep = N.less(Fn_cov, max_cov)
        return (N.where(N.logical_and(keep, N.not_equal(Fn_cov, 0)), Fn_cov, NAN), N.astype(keep, "int"))

    canaries = {"cov == 0 blanked but mask 1": spec_canary(_wrong_zero)}


# ----------------------------------------------------------------------------------
from pyvc.interp import LoopSpec
from pyvc.sym import Arr, CNAN
import z3


def conj_present(lambd, x):
    """x (a scalar) is not NaN, and both x and conj(x) occur somewhere in the table."""
    return And_(N.any_(N.equal(lambd, x)), N.any_(N.equal(lambd, sym.conj_(x))))


def _hc_conj_rows(k, pre, it):
    lam = pre["lambd"]
    f = lam.snapshot_fn()
    return {"mask": Arr(lam.axes, lambda idx: And_(sym.lt(idx[0][0], k), conj_present(lam, f(idx))), "bool")}


def _hc_conj_cols(k, pre, it):
    lam = pre["lambd"]
    f = lam.snapshot_fn()
    m0 = pre["mask"].snapshot_fn()
    i = pre["i"]
    return {"mask": Arr(lam.axes, lambda idx: ite(And_(sym.eq(idx[0][0], i), sym.lt(idx[1][0], k)),
                                                  conj_present(lam, f(idx)), m0(idx)), "bool")}


@register
class HC_conj(Contract):
    qualname = "pyoma2.functions.gen.HC_conj"
    props = ("C09",)
    loops = {0: LoopSpec(_hc_conj_rows), 1: LoopSpec(_hc_conj_cols)}

    def setup(self, c):
        return {"lambd": S.array("lambd", "complex", ndim=2)}

    def spec(self, c, lambd):
        """C09: a pole is kept iff its complex conjugate is present in the table."""
        f = lambd.snapshot_fn()
        mask = Arr(lambd.axes, lambda idx: conj_present(lambd, f(idx)), "bool")
        return (N.where(mask, lambd, CNAN), mask)


@register
class applymask(Contract):
    qualname = "pyoma2.functions.gen.applymask"
    props = ("C09",)
    NLIST = 3

    def setup(self, c):
        n0 = S.integer("n0", lo=0)
        n1 = S.integer("n1", lo=0)
        L = S.integer("len_phi", lo=1)
        mask = S.array("mask", "bool", shape=(n0, n1))
        lst = [S.array("a2", "float", shape=(n0, n1)), None,
               S.array("a3", "complex", shape=(n0, n1, L))]
        return {"list_arr": lst, "mask": mask, "len_phi": L}

    def requires(self, c, list_arr, mask, len_phi):
        out = []
        for j, a in enumerate(list_arr):
            out.append((f"rank[{j}]", a is None or (isinstance(a, Arr) and a.ndim in (2, 3))))
            if isinstance(a, Arr) and a.ndim == 3:
                out.append((f"len_phi[{j}]", sym.eq(a.shape[2], len_phi)))
        return out

    def spec(self, c, list_arr, mask, len_phi):
        """every table is blanked exactly where the mask is false (whole mode-shape vectors for
        rank-3 tables); None entries stay None; the list keeps its length and order."""
        out = []
        for a in list_arr:
            if a is None:
                out.append(None)
            elif a.ndim == 3:
                m3 = N.repeat(N.expand_dims(mask, -1), len_phi, axis=-1)
                out.append(N.where(m3, a, sym.NAN))
            else:
                out.append(N.where(mask, a, sym.NAN))
        return out


# ----------------------------------------------------------------------------------
# abstract indicator contracts (values decided under C18; here only "some function of the vector")
# ----------------------------------------------------------------------------------
from pyvc.core import PyRaise, Unsupported


def _indicator(name, phi):
    v = S.vec_of(phi)
    if v is None:
        raise Unsupported(f"{name} applied to an array that is not an abstract mode-shape vector")
    R = z3.RealSort()
    val = sym.ufun(name + "_val", sym.VecSort, R)
    nan = sym.ufun(name + "_nan", sym.VecSort, z3.BoolSort())
    return v, F(nan(v), val(v))


class _IndicatorAbs(Contract):
    """Used at call sites only (C09/C10): MPC/MPD are functions of the mode-shape vector; a
    non-finite vector makes numpy.linalg raise LinAlgError (svd / eigvals of a NaN matrix)."""
    indicator = ""

    def spec(self, c, phi):
        v, val = _indicator(self.indicator, phi)
        if c.branch(sym.vec_isnan(v)):
            raise PyRaise("LinAlgError", "SVD did not converge / array must not contain infs or NaNs")
        return val


@register
class MPD_abs(_IndicatorAbs):
    qualname = "pyoma2.functions.gen.MPD"
    name = "abstract"
    indicator = "MPD"
    verify_body = False


@register
class MPC_abs(_IndicatorAbs):
    qualname = "pyoma2.functions.gen.MPC"
    name = "abstract"
    indicator = "MPC"
    verify_body = False


def mpd_ok(vec, lim):
    """pole passes the MPD criterion: vector finite, MPD finite and <= lim"""
    nan = sym.ufun("MPD_nan", sym.VecSort, z3.BoolSort())
    val = sym.ufun("MPD_val", sym.VecSort, z3.RealSort())
    return And_(Not_(sym.vec_isnan(vec)), sym.le(F(nan(vec), val(vec)), lim))


def mpc_ok(vec, lim):
    nan = sym.ufun("MPC_nan", sym.VecSort, z3.BoolSort())
    val = sym.ufun("MPC_val", sym.VecSort, z3.RealSort())
    return And_(Not_(sym.vec_isnan(vec)), sym.le(lim, F(nan(vec), val(vec))))


def _phi_lists(n_rows_done, row_partial, pre, which):
    """closed form of the list built by the double loops of HC_phi_comp"""
    phi = pre["phi"]
    n1 = phi.shape[1]
    lim = pre["mpd_lim"] if which == "mask" else pre["mpc_lim"]
    ok = mpd_ok if which == "mask" else mpc_ok
    length = sym.add(sym.mul(n_rows_done, n1), row_partial)

    def elem(p):
        o, i = sym.split_index(p, (phi.shape[0], n1))
        return sym.b2i(ok(phi.vecfn(((o,), (i,))), lim))
    from pyvc.sym import Seq
    return Seq(length, elem)


def _mk_phi_loops():
    loops = {}
    for base, which in ((0, "mask"), (2, "mask2")):
        loops[base] = LoopSpec(lambda k, pre, it, which=which: {which: _phi_lists(k, 0, pre, which)})
        loops[base + 1] = LoopSpec(lambda k, pre, it, which=which: {which: _phi_lists(pre["o"], k, pre, which)})
    return loops


@register
class HC_phi_comp(Contract):
    qualname = "pyoma2.functions.gen.HC_phi_comp"
    props = ("C09",)
    loops = _mk_phi_loops()
    use = {"pyoma2.functions.gen.MPD": "abstract", "pyoma2.functions.gen.MPC": "abstract"}
    generic_replay = False      # the table holds abstract vectors (the indicators are uninterpreted here): replay through a real run
    bounded_driver = {"driver": "c09_run", "inputs": {"cls": "SSIdat", "seed": 0}}      # also the stand-in when the body leaves the subset

    def witness(self, o):
        """replay: a real SSIdat run on seeded data with the counter-model's two limits and every other criterion switched off"""
        hc = {}
        try:
            from pyvc import concretise as CZ
            from pyvc.core import Ctx, Engine
            ctx = Ctx(Engine(), [ch == "T" for ch in o.path])
            with ctx:
                env = self.setup(ctx)
                hc = {k: CZ.ev_scalar(o.model, env[k]) for k in ("mpc_lim", "mpd_lim")}
        except Exception:      # noqa: BLE001
            hc = {}
        hc.update(conj=False, xi_max=1.0, cov_max=10.0)
        return {"driver": "c09_run", "inputs": {"cls": "SSIdat", "hc": hc, "seed": 0}}

    def setup(self, c):
        n0 = S.integer("n0", lo=1)
        n1 = S.integer("n1", lo=1)
        L = S.integer("L", lo=1)
        return {"phi": S.vec_table("phi", (n0, n1, L)), "mpc_lim": S.real("mpc_lim"), "mpd_lim": S.real("mpd_lim")}

    def requires(self, c, phi, mpc_lim, mpd_lim):
        return [("vectors", isinstance(phi, Arr) and phi.ndim == 3 and phi.vecfn is not None)]

    def spec(self, c, phi, mpc_lim, mpd_lim):
        """returns (MPD mask, MPC mask): 1 iff the vector is finite and the indicator passes"""
        ax = phi.axes[:2]
        m_mpd = Arr(ax, lambda idx: sym.b2i(mpd_ok(phi.vecfn(idx), mpd_lim)), "int")
        m_mpc = Arr(ax, lambda idx: sym.b2i(mpc_ok(phi.vecfn(idx), mpc_lim)), "int")
        return (m_mpd, m_mpc)
