"""Contracts for the hard-criteria helpers of pyoma2.functions.gen (property C09)."""
from pyvc import npmodel as N
from pyvc import spec as S
from pyvc import sym
from pyvc.contract import Contract, register
from pyvc.sym import F, NAN, And_, Not_, ite


@register
class HC_damp(Contract):
    qualname = "pyoma2.functions.gen.HC_damp"
    props = ("C09",)

    def setup(self, c):
        return {"damp": S.array("damp", "float", ndim=2), "max_damp": S.real("max_damp", py=True)}

    def spec(self, c, damp, max_damp):
        """C09: a pole passes iff 0 < xi < xi_max (false on NaN); failing cells are blanked."""
        keep = N.logical_and(N.less(damp, max_damp), N.greater(damp, 0))
        return (N.where(keep, damp, NAN), N.astype(keep, "int"))


@register
class HC_cov(Contract):
    qualname = "pyoma2.functions.gen.HC_cov"
    props = ("C09",)

    def setup(self, c):
        return {"Fn_cov": S.array("Fn_cov", "float", ndim=2), "max_cov": S.real("max_cov", py=True)}

    def spec(self, c, Fn_cov, max_cov):
        """C09: frequency covariance < cov_max; one NaN pattern (mask 0 <=> blanked)."""
        keep = N.less(Fn_cov, max_cov)
        return (N.where(keep, Fn_cov, NAN), N.astype(keep, "int"))
