"""C16: the click handlers of support.sel_from_plot.SelFromPlot, on selection lists of symbolic length."""
import ast

import z3

from pyvc import npmodel as N
from pyvc import spec as S
from pyvc import sym
from pyvc.contract import Contract, register, spec_canary
from pyvc.core import PyRaise, cur
from pyvc.sym import And_, Arr, F, Implies_, Not_, Obj, Or_, Seq, zi

CLS = "pyoma2.support.sel_from_plot.SelFromPlot"


def float_seq(name, n):
    c = cur()
    f = z3.Function(c.fresh_name(name), z3.IntSort(), z3.RealSort())
    return Seq(n, lambda k: F(False, f(zi(k))), label=name)


def int_seq(name, n):
    c = cur()
    f = z3.Function(c.fresh_name(name), z3.IntSort(), z3.IntSort())
    return Seq(n, lambda k: f(zi(k)), label=name)


def sfp(c, plot, button=None):
    """a dialog in an arbitrary state: any number of selected entries, any pole table / frequency grid"""
    M = S.integer("n_selected", lo=0)
    fields = {"plot": plot, "shift_is_held": S.boolean("shift"), "sel_freq": float_seq("sel_freq", M),
              "fs": S.real("fs", pos=True), "freqlim": (sym.toF(0.0), S.real("fmax", pos=True)),
              "MARKER": sym.Opaque("marker"), "fig": sym.Opaque("fig"), "ax2": sym.Opaque("ax2"),
              "hide_poles": 1, "show_legend": 0}
    n0 = S.integer("n_rows", lo=1)
    n1 = S.integer("n_cols", lo=1)
    nf = S.integer("n_lines", lo=1)
    res = Obj("pyoma2.algorithms.data.result.SSIResult" if plot != "FDD" else "pyoma2.algorithms.data.result.FDDResult", {
        "Fn_poles": S.array("Fn_poles", "float", shape=(n0, n1)), "Lab": S.array("Lab", "int", shape=(n0, n1)),
        "freq": S.array("freq", "float", shape=(nf,), finite=True), "S_val": sym.Opaque("S_val")})
    rp = Obj("runparams", {"ordmin": 0, "ordmax": S.integer("ordmax", lo=1), "step": 1})
    fields["algo"] = Obj("pyoma2.algorithms.ssi.SSIcov" if plot != "FDD" else "pyoma2.algorithms.fdd.FDD",
                         {"result": res, "run_params": rp, "fs": fields["fs"]})
    if plot == "FDD":
        # representation invariant of the FDD dialog: sel_freq[k] is the grid line freq[freq_ind[k]]
        fi = int_seq("freq_ind", M)
        raw = fi._fn
        fq = res.fields["freq"]

        def line(k, raw=raw):
            v = raw(k)
            c.fact(z3.And(v >= 0, v < nf))
            return v
        fields["freq_ind"] = Seq(M, line, label="freq_ind")
        fields["sel_freq"] = Seq(M, lambda k: fq.get(line(k)), label="sel_freq")
    else:
        fields["pole_ind"] = int_seq("pole_ind", M)
    return Obj(CLS, fields)


def event(c):
    return Obj("matplotlib.MouseEvent", {"button": S.integer("button", lo=1, hi=3), "xdata": S.real("xdata", py=False),
                                         "ydata": S.real("ydata", py=False), "key": "shift"})


def index_attr(self):
    return "freq_ind" if self.fields["plot"] == "FDD" else "pole_ind"


def sort_both(self):
    """specification of sort_selected_poles: ONE stable permutation sorts the frequencies and is applied to the
    list of orders as well, so that every frequency stays paired with the order at which it was picked"""
    f = self.fields["sel_freq"]
    perm = N.argsort(N.asarray(f))
    M = f.length
    ff = f._fn
    self.fields["sel_freq"] = Seq(M, lambda k: ff(perm.get(k)))
    ia_name = index_attr(self)
    ia = self.fields[ia_name]
    fi = ia._fn
    self.fields[ia_name] = Seq(ia.length, lambda k: fi(perm.get(k)))


# ----------------------------------------------------------------------------------
# frame contracts of the drawing methods
# ----------------------------------------------------------------------------------

def stores_to_self(fn_node, names):
    """syntactic frame check: no assignment to / mutation of self.<name>"""
    bad = []
    for n in ast.walk(fn_node):
        tg = []
        if isinstance(n, ast.Assign):
            tg = n.targets
        elif isinstance(n, (ast.AugAssign, ast.AnnAssign)):
            tg = [n.target]
        for t in tg:
            b = t
            while isinstance(b, ast.Subscript):
                b = b.value
            if isinstance(b, ast.Attribute) and isinstance(b.value, ast.Name) and b.value.id == "self" and b.attr in names:
                bad.append(f"line {n.lineno}: store to self.{b.attr}")
        if isinstance(n, ast.Call) and isinstance(n.func, ast.Attribute) and n.func.attr in (
                "append", "pop", "remove", "extend", "insert", "sort", "clear", "reverse"):
            b = n.func.value
            if isinstance(b, ast.Attribute) and isinstance(b.value, ast.Name) and b.value.id == "self" and b.attr in names:
                bad.append(f"line {n.lineno}: self.{b.attr}.{n.func.attr}()")
    return bad


def fdd_invariant(c, post_self, label="inv.sel_freq-is-line-of-freq_ind"):
    """FDD dialog: after the operation sel_freq[k] == freq[freq_ind[k]] for every k (and equal lengths)"""
    f, fi = post_self.fields["sel_freq"], post_self.fields["freq_ind"]
    fq = post_self.fields["algo"].fields["result"].fields["freq"]
    c.oblige("post", label + ".len", sym.eq(f.length, fi.length))
    k = c.fresh_int("ik")

    def sub():
        j = fi.get(k)
        c.oblige("post", label, And_(sym.le(0, j), sym.lt(j, fq.shape[0]), sym.same(f.get(k), fq.get(j))))
    c.subproof(z3.And(k >= 0, k < zi(f.length), k < zi(fi.length)), sub)


class _FDDInv:
    """mixin: FDD-dialog operations preserve the representation invariant"""

    def check(self, c, pre, post, outcome):
        Contract.check(self, c, pre, post, outcome)
        if outcome[0] == "return" and post["self"].fields.get("plot") == "FDD":
            fdd_invariant(c, post["self"])


class _Draw(Contract):
    """plot_stab / plot_svPSD redraw the chart; they must not touch the selection state (syntactic frame check on the
    real method body); their drawing itself is abstracted"""
    verify_body = False
    props = ("C16",)
    PROTECTED = ("sel_freq", "pole_ind", "freq_ind", "shift_is_held", "x_data_pole", "y_data_pole")

    def spec(me, c, **kw):
        return None

    def apply(self, interp, args, kwargs):
        return None

    def static_checks(self, repo):
        fi = repo.function(self.qualname)
        bad = stores_to_self(fi.node, self.PROTECTED)
        return [("frame.selection-state-untouched", not bad, "; ".join(bad))], fi


@register
class plot_stab(_Draw):
    qualname = CLS + ".plot_stab"


@register
class plot_svPSD(_Draw):
    qualname = CLS + ".plot_svPSD"


# ----------------------------------------------------------------------------------
# sorting, picking
# ----------------------------------------------------------------------------------

class _Sort(Contract):
    qualname = CLS + ".sort_selected_poles"
    props = ("C16",)
    generic_replay = False
    plot = "SSI"

    def setup(self, c):
        s = sfp(c, self.plot)
        c.assume(s.fields[index_attr(s)].length == s.fields["sel_freq"].length)
        return {"self": s}

    def spec(me, c, self):
        sort_both(self)
        return None

    def witness(self, o):
        return {"driver": "c16_dialog", "inputs": {"plot": self.plot}}

    @property
    def bounded_driver(self):
        return {"driver": "c16_dialog", "inputs": {"plot": self.plot}}


@register
class sort_SSI(_Sort):
    name = "SSI"
    plot = "SSI"


@register
class sort_FDD(_FDDInv, _Sort):
    name = "FDD"
    plot = "FDD"


def pick_pole(self):
    """a pick selects, at the model order (column) nearest to the click, the retained pole nearest in frequency"""
    Fn = self.fields["algo"].fields["result"].fields["Fn_poles"]
    y = self.fields["y_data_pole"][0]
    x = self.fields["x_data_pole"]
    cols = N.arange(Fn.shape[1])
    y_ind = N.argmin(N.abs_(N.subtract(cols, y)))
    ff = Fn.snapshot_fn()
    col = Arr((Fn.axes[0],), lambda idx: ff((idx[0], (y_ind,))), "float")
    sel = N.nanargmin(N.abs_(N.subtract(col, x)))        # ValueError when the column holds no retained pole
    self.fields["pole_ind"].append(y_ind)
    self.fields["sel_freq"].append(Fn.get(sel, y_ind))
    sort_both(self)


@register
class get_closest_pole(Contract):
    qualname = CLS + ".get_closest_pole"
    props = ("C16",)
    generic_replay = False

    def setup(self, c):
        s = sfp(c, "SSI")
        s.fields["x_data_pole"] = S.real("xdata", py=False)
        s.fields["y_data_pole"] = [S.real("ydata", py=False)]
        return {"self": s, "plot": "SSI"}

    def spec(me, c, self, plot):
        pick_pole(self)
        return None

    def witness(self, o):
        return {"driver": "c16_dialog", "inputs": {"plot": "SSI"}}

    bounded_driver = {"driver": "c16_dialog", "inputs": {"plot": "SSI"}}


def pick_freq(self):
    freq = self.fields["algo"].fields["result"].fields["freq"]
    x = self.fields["x_data_pole"]
    sel = N.argmin(N.abs_(N.subtract(freq, x)))
    self.fields["freq_ind"].append(sel)
    self.fields["sel_freq"].append(freq.get(sel))
    sort_both(self)


@register
class get_closest_freq(_FDDInv, Contract):
    qualname = CLS + ".get_closest_freq"
    props = ("C16",)
    generic_replay = False

    def setup(self, c):
        s = sfp(c, "FDD")
        s.fields["x_data_pole"] = S.real("xdata", py=False)
        s.fields["y_data_pole"] = [S.real("ydata", py=False)]
        return {"self": s}

    def spec(me, c, self):
        pick_freq(self)
        return None

    def witness(self, o):
        return {"driver": "c16_dialog", "inputs": {"plot": "FDD"}}

    bounded_driver = {"driver": "c16_dialog", "inputs": {"plot": "FDD"}}


# ----------------------------------------------------------------------------------
# click handlers
# ----------------------------------------------------------------------------------

def click_spec(c, self, event, pick):
    """modifier key gates every action; button 1 picks; button 3 removes the most recent position (the last entry of
    both lists); button 2 removes the entry whose frequency is nearest to the click, from both lists"""
    E = event.fields
    ia = index_attr(self)
    if not c.branch(self.fields["shift_is_held"]):
        return None
    b = E["button"]
    f, ind = self.fields["sel_freq"], self.fields[ia]
    if c.branch(sym.eq(b, 1)):
        self.fields["y_data_pole"] = [E["ydata"]]
        self.fields["x_data_pole"] = E["xdata"]
        pick(self)
        return None
    nonempty = And_(sym.lt(0, f.length), sym.lt(0, ind.length))
    if c.branch(sym.eq(b, 3)):
        if c.branch(nonempty):
            M = f.length
            ff, fi = f._fn, ind._fn
            self.fields["sel_freq"] = Seq(sym.sub(M, 1), ff)
            self.fields[ia] = Seq(sym.sub(ind.length, 1), fi)
        return None
    if c.branch(sym.eq(b, 2)):
        if c.branch(nonempty):
            i = N.argmin(N.abs_(N.subtract(N.asarray(f), E["xdata"])))
            ff, fi = f._fn, ind._fn
            drop = lambda g: (lambda k: sym.Lazy.choose(sym.lt(k, i), lambda: g(k), lambda: g(sym.add(k, 1))))   # noqa: E731
            self.fields["sel_freq"] = Seq(sym.sub(f.length, 1), drop(ff))
            self.fields[ia] = Seq(sym.sub(ind.length, 1), drop(fi))
        return None
    return None


class _Click(Contract):
    props = ("C16",)
    generic_replay = False
    plot = "SSI"

    def witness(self, o):
        return {"driver": "c16_dialog", "inputs": {"plot": self.plot}}

    @property
    def bounded_driver(self):
        return {"driver": "c16_dialog", "inputs": {"plot": self.plot}}


@register
class on_click_SSI(_Click):
    qualname = CLS + ".on_click_SSI"
    plot = "SSI"

    def setup(self, c):
        s = sfp(c, "SSI")
        c.assume(s.fields["pole_ind"].length == s.fields["sel_freq"].length)
        return {"self": s, "event": event(c), "plot": "SSI"}

    def spec(me, c, self, event, plot):
        return click_spec(c, self, event, pick_pole)


@register
class on_click_FDD(_FDDInv, _Click):
    qualname = CLS + ".on_click_FDD"
    plot = "FDD"

    def setup(self, c):
        s = sfp(c, "FDD")
        c.assume(s.fields["freq_ind"].length == s.fields["sel_freq"].length)
        return {"self": s, "event": event(c)}

    def spec(me, c, self, event):
        return click_spec(c, self, event, pick_freq)


@register
class on_key(Contract):
    qualname = CLS + ".on_key_press"
    props = ("C16",)
    generic_replay = False
    bounded_driver = {"driver": "c16_dialog", "inputs": {}}

    def witness(self, o):
        return dict(self.bounded_driver)

    def setup(self, c):
        ev = Obj("matplotlib.KeyEvent", {"key": "shift" if c.branch(S.boolean("is_shift")) else "control"})
        return {"self": sfp(c, "SSI"), "event": ev}

    def spec(me, c, self, event):
        if event.fields["key"] == "shift":
            self.fields["shift_is_held"] = True
        return None


@register
class on_key_release(Contract):
    qualname = CLS + ".on_key_release"
    props = ("C16",)
    generic_replay = False
    bounded_driver = {"driver": "c16_dialog", "inputs": {}}

    def witness(self, o):
        return dict(self.bounded_driver)

    def setup(self, c):
        ev = Obj("matplotlib.KeyEvent", {"key": "shift" if c.branch(S.boolean("is_shift")) else "control"})
        return {"self": sfp(c, "SSI"), "event": ev}

    def spec(me, c, self, event):
        if event.fields["key"] == "shift":
            self.fields["shift_is_held"] = False
        return None


# ----------------------------------------------------------------------------------
# hand-over: __init__ builds `result` from the lists as they are when the window closes; mpe_from_plot passes
# exactly those lists to the extraction routine (order list => the per-mode branch of *_mpe, C11)
# ----------------------------------------------------------------------------------

@register
class init_gui(Contract):
    qualname = CLS + "._initialize_gui"
    verify_body = False
    name = "abstract"
    props = ("C16",)

    def apply(self, interp, args, kwargs):
        args[0].fields["root"] = sym.Opaque("tk")
        args[0].fields["fig"] = sym.Opaque("fig")
        args[0].fields["ax2"] = sym.Opaque("ax2")
        return None


def _mainloop(fr, obj, args, kwargs):
    """the Tk main loop: arbitrary user interaction - the selection lists are whatever the handlers left"""
    c = cur()
    g = c.memo["ghost:dialog"]
    slf = g["self"]
    M = S.integer("n_final", lo=0)
    slf.fields["sel_freq"] = float_seq("final_freq", M)
    if "pole_ind" in slf.fields:
        slf.fields["pole_ind"] = int_seq("final_orders", M)
    else:
        slf.fields["freq_ind"] = int_seq("final_lines", M)
    g["final"] = (slf.fields["sel_freq"], slf.fields.get("pole_ind"))
    return None


class _Init(Contract):
    qualname = CLS + ".__init__"
    props = ("C16",)
    bounded_driver = {"driver": "c16_dialog", "inputs": {}}

    def witness(self, o):
        return dict(self.bounded_driver)
    generic_replay = False
    callable_modular = False
    compare_state = False
    use = {CLS + "._initialize_gui": "abstract"}
    models = {"opaque:tk.mainloop": _mainloop}
    plot = "SSI"

    def setup(self, c):
        algo = Obj("pyoma2.algorithms.ssi.SSIcov", {"fs": S.real("fs", pos=True), "result": sym.Opaque("result")})
        slf = Obj(CLS, {})
        c.memo["ghost:dialog"] = {"self": slf}
        return {"self": slf, "algo": algo, "freqlim": None, "plot": self.plot}

    def check(self, c, pre, post, outcome):
        if outcome[0] != "return":
            c.oblige("post", "no-exception", False, {"raised": outcome[1]})
            return
        slf = post["self"]
        g = c.memo["ghost:dialog"]
        res = slf.fields.get("result")
        ok = isinstance(res, tuple) and len(res) == 2 and res[0] is g["final"][0] and \
            (res[1] is g["final"][1] if self.plot != "FDD" else res[1] is None)
        c.oblige("post", "result-is-final-selection", ok, {"what": "result = (sel_freq, pole_ind) as left by the handlers"})


@register
class init_SSI(_Init):
    name = "SSI"
    plot = "SSI"


@register
class init_FDD(_Init):
    name = "FDD"
    plot = "FDD"


def _sfp_instance(interp, args, kwargs):
    c = cur()
    M = S.integer("n_handed_over", lo=0)
    f = float_seq("picked_freq", M)
    o = int_seq("picked_orders", M) if kwargs.get("plot") != "FDD" else None
    c.memo["ghost:handover"] = {"freq": f, "orders": o, "kwargs": kwargs}
    return Obj(CLS, {"result": (f, o)})


class _MpeHavoc(Contract):
    verify_body = False
    name = "havoc"

    def apply(self, interp, args, kwargs):
        c = cur()
        fi = interp.repo.function(self.qualname)
        env = interp.bind(fi, args, kwargs, None)
        c.memo["ghost:mpe_call"] = env
        outs = tuple(sym.Opaque(f"mpe_out{j}") for j in range(self.NOUT))
        c.memo["ghost:mpe_out"] = outs
        return outs


@register
class SSI_mpe_havoc(_MpeHavoc):
    qualname = "pyoma2.functions.ssi.SSI_mpe"
    NOUT = 7


@register
class pLSCF_mpe_havoc(_MpeHavoc):
    qualname = "pyoma2.functions.plscf.pLSCF_mpe"
    NOUT = 4


@register
class FDD_mpe_havoc(_MpeHavoc):
    qualname = "pyoma2.functions.fdd.FDD_mpe"
    NOUT = 2


class _Handover(Contract):
    props = ("C16",)
    bounded_driver = {"driver": "c16_handover", "inputs": {}}

    def witness(self, o):
        return dict(self.bounded_driver)
    generic_replay = False
    callable_modular = False
    compare_state = False
    models = {"class:" + CLS: _sfp_instance}
    mpe = "pyoma2.functions.ssi.SSI_mpe"
    fields = ("Fn_poles", "Xi_poles", "Phi_poles")
    outmap = {"Fn": 0, "Xi": 1, "Phi": 2, "order_out": 3}
    cls = "pyoma2.algorithms.ssi.SSIdat"

    @property
    def use(self):
        return {self.mpe: "havoc"}

    def setup(self, c):
        res = Obj("result", {k: sym.Opaque(k) for k in ("Fn_poles", "Xi_poles", "Phi_poles", "Lab", "Fn_poles_cov", "Xi_poles_cov",
                                                        "Phi_poles_cov", "S_val", "S_vec", "freq", "Sy")})
        rp = Obj("rp", {"rtol": None, "DF": None, "method_SD": "per"})
        return {"self": Obj(self.cls, {"result": res, "run_params": rp, "name": "a", "fs": S.real("fs", pos=True),
                                       "dt": S.real("dt", pos=True)})}

    def check(self, c, pre, post, outcome):
        if outcome[0] != "return":
            c.oblige("post", "no-exception", False, {"raised": outcome[1]})
            return
        h = c.memo.get("ghost:handover")
        call = c.memo.get("ghost:mpe_call")
        c.oblige("post", "dialog-opened-and-extraction-called", h is not None and call is not None)
        if h is None or call is None:
            return
        freq_arg = call.get("freq_ref", call.get("sel_freq"))
        c.oblige("post", "frequencies-handed-over", freq_arg is h["freq"])
        if h["orders"] is not None:
            c.oblige("post", "orders-handed-over", call.get("order") is h["orders"],
                     {"what": "the picked order list reaches the extraction routine (per-mode branch)"})
        res = post["self"].fields["result"].fields
        for f_ in self.fields:
            arg = [k for k, v in call.items() if v is pre["self"].fields["result"].fields[f_] or v is res.get(f_)]
            c.oblige("post", f"tables.{f_}", len(arg) >= 1)
        outs = c.memo["ghost:mpe_out"]
        for name, j in self.outmap.items():
            c.oblige("post", f"stored.{name}", res.get(name) is outs[j])


@register
class handover_SSI(_Handover):
    qualname = "pyoma2.algorithms.ssi.SSIdat.mpe_from_plot"


@register
class handover_pLSCF(_Handover):
    qualname = "pyoma2.algorithms.plscf.pLSCF.mpe_from_plot"
    mpe = "pyoma2.functions.plscf.pLSCF_mpe"
    cls = "pyoma2.algorithms.plscf.pLSCF"


@register
class handover_FDD(_Handover):
    qualname = "pyoma2.algorithms.fdd.FDD.mpe_from_plot"
    mpe = "pyoma2.functions.fdd.FDD_mpe"
    cls = "pyoma2.algorithms.fdd.FDD"
    fields = ("S_val", "S_vec", "freq")
    outmap = {"Fn": 0, "Phi": 1}


# ----------------------------------------------------------------------------------
# the pLSCF variant of the dialog shares the SSI handlers; its own proofs (the literal "pLSCF" decides branches)
# ----------------------------------------------------------------------------------

@register
class sort_pLSCF(_Sort):
    name = "pLSCF"
    plot = "pLSCF"


@register
class get_closest_pole_pLSCF(get_closest_pole.__class__ if False else Contract):
    qualname = CLS + ".get_closest_pole"
    name = "pLSCF"
    props = ("C16",)
    generic_replay = False
    bounded_driver = {"driver": "c16_dialog", "inputs": {"plot": "pLSCF"}}

    def witness(self, o):
        return dict(self.bounded_driver)

    def setup(self, c):
        s = sfp(c, "pLSCF")
        s.fields["x_data_pole"] = S.real("xdata", py=False)
        s.fields["y_data_pole"] = [S.real("ydata", py=False)]
        c.assume(s.fields["pole_ind"].length == s.fields["sel_freq"].length)
        return {"self": s, "plot": "pLSCF"}

    def spec(me, c, self, plot):
        pick_pole(self)
        return None


@register
class on_click_pLSCF(_Click):
    qualname = CLS + ".on_click_SSI"
    name = "pLSCF"
    plot = "pLSCF"

    def setup(self, c):
        s = sfp(c, "pLSCF")
        c.assume(s.fields["pole_ind"].length == s.fields["sel_freq"].length)
        return {"self": s, "event": event(c), "plot": "pLSCF"}

    def spec(me, c, self, event, plot):
        return click_spec(c, self, event, pick_pole)


@register
class init_pLSCF(_Init):
    name = "pLSCF"
    plot = "pLSCF"
