"""C15: gating of run / mpe, isolation of runs inside a setup, PoSER input validation.

States are symbolic where the property quantifies over them (data / fs / run parameters present or not, result
present or not, modal parameters extracted or not, class identities as integer tags, number of names); the number of
algorithms per setup and the number of setups are enumerated (the property's own quantifier: 0..4 setups)."""
import ast
import itertools

import z3

from pyvc import spec as S
from pyvc import sym
from pyvc.contract import Contract, register
from pyvc.core import PyRaise, cur
from pyvc.sym import And_, Maybe, Not_, Obj, Opaque, Or_, Seq

FDD = "pyoma2.algorithms.fdd.FDD"
SSICOV = "pyoma2.algorithms.ssi.SSIcov"
SINGLE = "pyoma2.setup.single.SingleSetup"


def _witness(self, o):
    return dict(self.bounded_driver)


def _alg(c, cls, name, gate=True):
    """an algorithm as a setup sees it; with gate=True data / fs / run parameters may each be missing (None)"""
    b = {k: (z3.Bool(c.fresh_name(f"{name}.has_{k}")) if gate else True) for k in ("fs", "data", "run_params")}
    rp = Obj("rp", {"sel_freq": None, "DF": None}, label=f"{name}.rp")
    o = Obj(cls, {"name": name, "fs": Maybe(b["fs"], S.real(f"{name}.fs", pos=True)), "data": Maybe(b["data"], Opaque(f"{name}.data")),
                  "run_params": Maybe(b["run_params"], rp), "result": Opaque(f"{name}.old_result"), "dt": Opaque(f"{name}.dt")})
    return o, And_(b["fs"], b["data"], b["run_params"])


def _same_fields(c, label, pre, post, skip=()):
    """frame: every field of the object is the same value (identity for records and opaque values)"""
    for k in sorted(set(pre.fields) | set(post.fields)):
        if k in skip:
            continue
        a, b = pre.fields.get(k, "<absent>"), post.fields.get(k, "<absent>")
        if isinstance(a, Obj) and isinstance(b, Obj):
            _same_fields(c, f"{label}.{k}", a, b)
            continue
        if isinstance(a, dict) and isinstance(b, dict):
            c.oblige("frame", f"{label}.{k} keys", list(a) == list(b))
            for kk in a:
                if kk in b and isinstance(a[kk], Obj):
                    _same_fields(c, f"{label}.{k}[{kk}]", a[kk], b[kk])
            continue
        ok = a is b or (sym.is_scalar(a) and sym.is_scalar(b) and not isinstance(a, str) and sym.same(a, b)) or (isinstance(a, str) and a == b)
        c.oblige("frame", f"{label}.{k} unchanged", ok)


# ----------------------------------------------------------------------------------------------------------------------
# BaseAlgorithm._pre_run
# ----------------------------------------------------------------------------------------------------------------------

@register
class pre_run(Contract):
    witness = _witness
    qualname = "pyoma2.algorithms.base.BaseAlgorithm._pre_run"
    props = ("C15",)
    generic_replay = False
    bounded_driver = {"driver": "c15_gating", "inputs": {}}
    compare_state = False
    callable_modular = False      # inlined at its call sites

    def setup(self, c):
        o, gate = _alg(c, FDD, "a")
        c.memo["ghost:gate"] = gate
        return {"self": o}

    def check(self, c, pre, post, outcome):
        gate = c.memo["ghost:gate"]
        if outcome[0] == "raise":
            c.oblige("post", "raises only when data, fs or run parameters are missing", Not_(gate))
            c.oblige("post", "raises ValueError", outcome[1] == "ValueError", {"raised": outcome[1]})
        else:
            c.oblige("post", "accepts only with data, fs and run parameters", gate)
        _same_fields(c, "self", pre["self"], post["self"])


@register
class pre_run_never_added(Contract):
    bounded_driver = {"driver": "c15_gating", "inputs": {}}
    witness = _witness
    """an algorithm that was never added to a setup has no data / fs attribute at all: still an exception"""
    qualname = "pyoma2.algorithms.base.BaseAlgorithm._pre_run"
    name = "never added to a setup"
    props = ("C15",)
    generic_replay = False
    callable_modular = False
    compare_state = False

    def setup(self, c):
        return {"self": Obj(FDD, {"name": "a", "run_params": Obj("rp", {})})}

    def check(self, c, pre, post, outcome):
        c.oblige("post", "an exception is raised", outcome[0] == "raise")
        _same_fields(c, "self", pre["self"], post["self"])


# ----------------------------------------------------------------------------------------------------------------------
# BaseAlgorithm.set_run_params: binds exactly the object it is given, returns the algorithm, touches nothing else (what a run
# may depend on is what was bound here and by _set_data)
# ----------------------------------------------------------------------------------------------------------------------

@register
class set_run_params(Contract):
    witness = _witness
    qualname = "pyoma2.algorithms.base.BaseAlgorithm.set_run_params"
    props = ("C15",)
    generic_replay = False
    bounded_driver = {"driver": "c15_gating", "inputs": {}}
    compare_state = False
    callable_modular = False

    def setup(self, c):
        o, _ = _alg(c, FDD, "a")
        new = Obj("rp", {"sel_freq": None, "DF": None}, label="new.rp")
        c.memo["ghost:new_rp"] = new
        return {"self": o, "run_params": new}

    def check(self, c, pre, post, outcome):
        c.oblige("post", "returns the algorithm itself", outcome[0] == "return" and outcome[1] is post["self"], {"outcome": str(outcome)[:80]})
        c.oblige("post", "binds the object it was given (no copy, no other object)", post["self"].fields.get("run_params") is c.memo["ghost:new_rp"])
        _same_fields(c, "self", pre["self"], post["self"], skip=("run_params",))
        _same_fields(c, "run_params", pre["run_params"], c.memo["ghost:new_rp"])


# ----------------------------------------------------------------------------------------------------------------------
# BaseSetup.run_by_name / run_all / mpe: run() and the algorithms' mpe are havoc'ed (may raise, return a fresh value)
# ----------------------------------------------------------------------------------------------------------------------

class _RunHavoc(Contract):
    name = "havoc-run"
    verify_body = False

    def apply(self, interp, args, kwargs):
        c = cur()
        me = args[0]
        calls = c.memo.setdefault("ghost:run_calls", [])
        # what the run could see: the algorithm's own parameters and the data bound to it
        calls.append((me, {k: v for k, v in me.fields.items()}))
        if c.branch(z3.Bool(c.fresh_name("run_raises"))):
            raise PyRaise("RuntimeError", "run() failed")
        return Opaque(f"result of run #{len(calls)} of {me.fields['name']}")


@register
class FDD_run_havoc(_RunHavoc):
    qualname = "pyoma2.algorithms.fdd.FDD.run"


@register
class SSI_run_havoc(_RunHavoc):
    qualname = "pyoma2.algorithms.ssi.SSIdat.run"


class _MpeHavoc(Contract):
    name = "havoc-mpe"
    verify_body = False

    def apply(self, interp, args, kwargs):
        c = cur()
        c.memo.setdefault("ghost:mpe_calls", []).append((args[0], tuple(args[1:]), dict(kwargs)))
        return None


@register
class FDD_mpe_havoc(_MpeHavoc):
    qualname = "pyoma2.algorithms.fdd.FDD.mpe"


@register
class SSI_mpe_havoc(_MpeHavoc):
    qualname = "pyoma2.algorithms.ssi.SSIdat.mpe"


class _MpeFromPlotHavoc(Contract):
    name = "havoc-mpe_from_plot"
    verify_body = False

    def apply(self, interp, args, kwargs):
        c = cur()
        c.memo.setdefault("ghost:mpe_from_plot_calls", []).append((args[0], tuple(args[1:]), dict(kwargs)))
        return None


@register
class FDD_mpe_from_plot_havoc(_MpeFromPlotHavoc):
    qualname = "pyoma2.algorithms.fdd.FDD.mpe_from_plot"


@register
class SSI_mpe_from_plot_havoc(_MpeFromPlotHavoc):
    qualname = "pyoma2.algorithms.ssi.SSIdat.mpe_from_plot"


USE = {"pyoma2.algorithms.fdd.FDD.run": "havoc-run", "pyoma2.algorithms.ssi.SSIdat.run": "havoc-run",
       "pyoma2.algorithms.fdd.FDD.mpe": "havoc-mpe", "pyoma2.algorithms.ssi.SSIdat.mpe": "havoc-mpe",
       "pyoma2.algorithms.fdd.FDD.mpe_from_plot": "havoc-mpe_from_plot",
       "pyoma2.algorithms.ssi.SSIdat.mpe_from_plot": "havoc-mpe_from_plot",
       }


def _setup_obj(c, n_alg=2):
    algs, gates = {}, {}
    for nm, cls in list(zip(("a", "b", "c"), (FDD, SSICOV, FDD)))[:n_alg]:
        algs[nm], gates[nm] = _alg(c, cls, nm)
    st = Obj(SINGLE, {"algorithms": algs, "data": Opaque("setup.data"), "fs": S.real("setup.fs", pos=True)})
    c.memo["ghost:gates"] = gates
    return st


class _RunByName(Contract):
    witness = _witness
    qualname = "pyoma2.setup.base.BaseSetup.run_by_name"
    props = ("C15",)
    generic_replay = False
    callable_modular = False
    compare_state = False
    use = USE
    target = "a"
    bounded_driver = {"driver": "c15_gating", "inputs": {}}

    def setup(self, c):
        return {"self": _setup_obj(c), "name": self.target}

    def check(self, c, pre, post, outcome):
        P, Q = pre["self"], post["self"]
        calls = c.memo.get("ghost:run_calls", [])
        algsP, algsQ = P.fields["algorithms"], Q.fields["algorithms"]
        if self.target not in algsP:
            c.oblige("post", "unknown name raises KeyError", outcome == ("raise", "KeyError"), {"outcome": str(outcome)})
            c.oblige("post", "nothing was run", len(calls) == 0)
            _same_fields(c, "setup", P, Q)
            return
        gate = c.memo["ghost:gates"][self.target]
        tgtQ = algsQ[self.target]
        if outcome[0] == "raise":
            if len(calls) == 0:
                c.oblige("post", "refused only when data, fs or run parameters are missing", Not_(gate))
                c.oblige("post", "refusal is a ValueError", outcome[1] == "ValueError", {"raised": outcome[1]})
            else:
                c.oblige("post", "run() was reached only through the gate", gate)
                c.oblige("post", "run()'s exception propagates", outcome[1] == "RuntimeError" and len(calls) == 1)
            # nothing is stored
            _same_fields(c, "setup", P, Q)
            return
        c.oblige("post", "ran only with data, fs and run parameters", gate)
        c.oblige("post", "run() called exactly once, on the named algorithm", len(calls) == 1 and calls[0][0] is tgtQ)
        if len(calls) == 1:
            seen = calls[0][1]
            for k in ("data", "fs", "run_params", "name"):
                c.oblige("post", f"run() saw the algorithm's own {k}", seen.get(k) is algsP[self.target].fields.get(k))
            c.oblige("post", "the result stored is run()'s return value",
                     isinstance(tgtQ.fields.get("result"), Opaque) and tgtQ.fields["result"].tag.startswith("result of run #1 of " + self.target))
        _same_fields(c, "setup", P, Q, skip=("algorithms",))
        c.oblige("frame", "algorithms: same names in the same order", list(algsP) == list(algsQ))
        for nm in algsP:
            _same_fields(c, f"algorithms[{nm}]", algsP[nm], algsQ[nm], skip=("result",) if nm == self.target else ())


@register
class run_by_name_a(_RunByName):
    name = "first algorithm"
    target = "a"


@register
class run_by_name_b(_RunByName):
    name = "second algorithm"
    target = "b"


@register
class run_by_name_missing(_RunByName):
    name = "unknown name"
    target = "zz"


@register
class run_all(Contract):
    witness = _witness
    """run_all = run_by_name for every registered name, in registration order; each run sees only its own algorithm"""
    qualname = "pyoma2.setup.base.BaseSetup.run_all"
    props = ("C15",)
    generic_replay = False
    callable_modular = False
    compare_state = False
    use = USE
    bounded_driver = {"driver": "c15_gating", "inputs": {}}
    N_ALG = 3

    def setup(self, c):
        return {"self": _setup_obj(c, self.N_ALG)}

    def check(self, c, pre, post, outcome):
        P, Q = pre["self"], post["self"]
        calls = c.memo.get("ghost:run_calls", [])
        algsP, algsQ = P.fields["algorithms"], Q.fields["algorithms"]
        names = list(algsP)
        gates = c.memo["ghost:gates"]
        c.oblige("frame", "algorithms: same names in the same order", names == list(algsQ))
        _same_fields(c, "setup", P, Q, skip=("algorithms",))
        # the runs happen in registration order, each on its own algorithm, each behind its gate
        c.oblige("post", "runs in registration order", [cl[0] for cl in calls] == [algsQ[n] for n in names[:len(calls)]] or
                 all(cl[0] is algsQ[n] for cl, n in zip(calls, names)) and len(calls) <= len(names))
        for i, (me, seen) in enumerate(calls):
            nm = names[i]
            c.oblige("post", f"run #{i + 1} passed its gate", gates[nm])
            for k in ("data", "fs", "run_params"):
                c.oblige("post", f"run #{i + 1} saw its own {k}", seen.get(k) is algsP[nm].fields.get(k))
            # isolation: what an earlier run stored is not visible as data/parameters of a later one
        if outcome[0] == "return":
            c.oblige("post", "every algorithm was run", len(calls) == len(names))
        done = len(calls) if outcome[0] == "return" else len(calls) - (1 if outcome[1] == "RuntimeError" else 0)
        for i, nm in enumerate(names):
            ran = i < done
            _same_fields(c, f"algorithms[{nm}]", algsP[nm], algsQ[nm], skip=("result",) if ran else ())
            if ran:
                r = algsQ[nm].fields.get("result")
                c.oblige("post", f"{nm}.result is the value of its own run", isinstance(r, Opaque) and r.tag == f"result of run #{i + 1} of {nm}")
        if outcome[0] == "raise":
            if outcome[1] == "ValueError":
                c.oblige("post", "stopped at a closed gate", len(calls) < len(names) and Not_(gates[names[len(calls)]]))
            else:
                c.oblige("post", "stopped by a failing run", outcome[1] == "RuntimeError" and len(calls) >= 1)


class _SetupMpe(Contract):
    bounded_driver = {"driver": "c15_gating", "inputs": {}}
    witness = _witness
    qualname = "pyoma2.setup.base.BaseSetup.mpe"
    props = ("C15",)
    generic_replay = False
    callable_modular = False
    compare_state = False
    use = USE
    target = "b"

    def setup(self, c):
        return {"self": _setup_obj(c), "name": self.target, "args": (Opaque("arg0"),), "kwargs": {"rtol": Opaque("kw_rtol")}}

    def check(self, c, pre, post, outcome):
        P, Q = pre["self"], post["self"]
        calls = c.memo.get("ghost:mpe_calls", [])
        _same_fields(c, "setup", P, Q)
        if self.target not in P.fields["algorithms"]:
            c.oblige("post", "unknown name raises KeyError", outcome == ("raise", "KeyError"), {"outcome": str(outcome)})
            c.oblige("post", "no extraction called", len(calls) == 0)
            return
        c.oblige("post", "returns", outcome[0] == "return")
        c.oblige("post", "the named algorithm's mpe is called once with the caller's arguments",
                 len(calls) == 1 and calls[0][0] is Q.fields["algorithms"][self.target] and len(calls[0][1]) == 1
                 and calls[0][1][0] is pre["args"][0] and list(calls[0][2]) == ["rtol"] and calls[0][2]["rtol"] is pre["kwargs"]["rtol"])


@register
class setup_mpe(_SetupMpe):
    name = "registered name"


class _SetupMpeFromPlot(_SetupMpe):
    """BaseSetup.mpe_from_plot: the named algorithm's interactive extraction is started exactly once with the caller's
    arguments; the plain mpe of no algorithm is called; nothing of the setup or of any algorithm is changed by the
    forwarding layer itself; an unknown name raises KeyError before anything is called"""
    qualname = "pyoma2.setup.base.BaseSetup.mpe_from_plot"
    props = ("C15", "C16")

    def check(self, c, pre, post, outcome):
        P, Q = pre["self"], post["self"]
        calls = c.memo.get("ghost:mpe_from_plot_calls", [])
        c.oblige("post", "plain mpe is not called", len(c.memo.get("ghost:mpe_calls", [])) == 0)
        c.oblige("post", "no run is started", len(c.memo.get("ghost:run_calls", [])) == 0)
        _same_fields(c, "setup", P, Q)
        if self.target not in P.fields["algorithms"]:
            c.oblige("post", "unknown name raises KeyError", outcome == ("raise", "KeyError"), {"outcome": str(outcome)})
            c.oblige("post", "no extraction called", len(calls) == 0)
            return
        c.oblige("post", "returns", outcome[0] == "return")
        c.oblige("post", "the named algorithm's mpe_from_plot is called once with the caller's arguments",
                 len(calls) == 1 and calls[0][0] is Q.fields["algorithms"][self.target] and len(calls[0][1]) == 1
                 and calls[0][1][0] is pre["args"][0] and list(calls[0][2]) == ["rtol"] and calls[0][2]["rtol"] is pre["kwargs"]["rtol"])


@register
class setup_mpe_from_plot_a(_SetupMpeFromPlot):
    name = "first algorithm"
    target = "a"


@register
class setup_mpe_from_plot_b(_SetupMpeFromPlot):
    name = "second algorithm"


@register
class setup_mpe_from_plot_missing(_SetupMpeFromPlot):
    name = "unknown name"
    target = "zz"


@register
class setup_mpe_missing(_SetupMpe):
    name = "unknown name"
    target = "zz"


# ----------------------------------------------------------------------------------------------------------------------
# mpe / mpe_from_plot of every algorithm family without a prior run: an exception, and nothing is stored
# ----------------------------------------------------------------------------------------------------------------------

def _never_run(cls, rp_fields):
    rp = Obj("rp", {k: Opaque(f"rp.{k}") for k in rp_fields})
    return Obj(cls, {"name": "a", "run_params": rp, "data": Opaque("data"), "fs": Opaque("fs"), "dt": Opaque("dt"), "method": "x"})


class _Gate(Contract):
    witness = _witness
    props = ("C15",)
    generic_replay = False
    callable_modular = False
    compare_state = False
    name = "no prior run"
    cls = FDD
    rp_fields = ("sel_freq", "DF")
    call = {}
    bounded_driver = {"driver": "c15_gating", "inputs": {}}

    def setup(self, c):
        a = {"self": _never_run(self.cls, self.rp_fields)}
        a.update({k: Opaque(k) for k in self.call})
        return a

    def check(self, c, pre, post, outcome):
        c.oblige("post", "extraction without a prior run raises", outcome[0] == "raise", {"outcome": str(outcome)[:80]})
        _same_fields(c, "self", pre["self"], post["self"])


def _gate(qual, cls, rp_fields, call):
    return register(type("gate_" + qual.replace(".", "_"), (_Gate,), {"qualname": qual, "cls": cls, "rp_fields": rp_fields, "call": call}))


_gate("pyoma2.algorithms.fdd.FDD.mpe", FDD, ("sel_freq", "DF"), ("sel_freq", "DF"))
_gate("pyoma2.algorithms.fdd.FDD.mpe_from_plot", FDD, ("sel_freq", "DF"), ("freqlim", "DF"))
_gate("pyoma2.algorithms.fdd.EFDD.mpe", "pyoma2.algorithms.fdd.EFDD", ("sel_freq", "DF1", "DF2", "cm", "MAClim", "sppk", "npmax", "method_SD"),
      ("sel_freq", "DF1", "DF2", "cm", "MAClim", "sppk", "npmax"))
_gate("pyoma2.algorithms.fdd.EFDD.mpe_from_plot", "pyoma2.algorithms.fdd.EFDD", ("sel_freq", "DF1", "DF2", "cm", "MAClim", "sppk", "npmax", "method_SD"),
      ("DF1", "DF2", "cm", "MAClim", "sppk", "npmax", "freqlim"))
_gate("pyoma2.algorithms.ssi.SSIdat.mpe", SSICOV, ("sel_freq", "order_in", "rtol"), ("sel_freq", "order", "rtol"))
_gate("pyoma2.algorithms.ssi.SSIdat.mpe_from_plot", SSICOV, ("sel_freq", "order_in", "rtol"), ("freqlim", "rtol"))
_gate("pyoma2.algorithms.plscf.pLSCF.mpe", "pyoma2.algorithms.plscf.pLSCF", ("sel_freq", "order_in", "rtol"), ("sel_freq", "order", "rtol"))
_gate("pyoma2.algorithms.plscf.pLSCF.mpe_from_plot", "pyoma2.algorithms.plscf.pLSCF", ("sel_freq", "order_in", "rtol"), ("freqlim", "rtol"))


# ----------------------------------------------------------------------------------------------------------------------
# MultiSetup_PoSER.__init__: accepted iff >= 2 setups, every setup has algorithms, identical class lists, one name per
# algorithm, every algorithm run and with modes extracted; ValueError otherwise; no other exception
# ----------------------------------------------------------------------------------------------------------------------

def _poser_setups(c, counts):
    setups, facts = [], {"present": [], "tags": []}
    for s, na in enumerate(counts):
        algs, pres, tags = {}, [], []
        for a in range(na):
            has_res = z3.Bool(c.fresh_name(f"s{s}a{a}.run"))
            has_fn = z3.Bool(c.fresh_name(f"s{s}a{a}.mpe"))
            tag = z3.Int(c.fresh_name(f"s{s}a{a}.class"))
            res = Obj("pyoma2.algorithms.data.result.SSIResult", {"Fn": Maybe(has_fn, Opaque(f"Fn{s}{a}"))})
            algs[f"alg{a}@{s}"] = Obj(SSICOV, {"name": f"alg{a}@{s}", "result": Maybe(has_res, res), "__type_tag__": tag})
            pres.append(And_(has_res, has_fn))
            tags.append(tag)
        setups.append(Obj(SINGLE, {"algorithms": algs}))
        facts["present"].append(pres)
        facts["tags"].append(tags)
    return setups, facts


class _Poser(Contract):
    witness = _witness
    qualname = "pyoma2.setup.multi.MultiSetup_PoSER.__init__"
    props = ("C15",)
    generic_replay = False
    callable_modular = False
    compare_state = False
    counts = ()
    none_list = False
    bounded_driver = {"driver": "c15_poser", "inputs": {}}

    def setup(self, c):
        setups, facts = _poser_setups(c, self.counts)
        nn = S.integer("n_names", lo=0)
        names = Seq(nn, lambda k: Opaque("name"), label="names")
        c.memo["ghost:poser15"] = (facts, nn)
        return {"self": Obj("pyoma2.setup.multi.MultiSetup_PoSER", {}), "ref_ind": Opaque("ref_ind"),
                "single_setups": None if self.none_list else setups, "names": names}

    def check(self, c, pre, post, outcome):
        facts, nn = c.memo["ghost:poser15"]
        counts = self.counts
        valid = len(counts) >= 2 and all(k >= 1 for k in counts) and all(k == counts[0] for k in counts)
        if valid:
            same_types = And_(*[facts["tags"][s][a] == facts["tags"][0][a] for s in range(1, len(counts)) for a in range(counts[0])])
            all_done = And_(*[p for ps in facts["present"] for p in ps])
            valid = And_(same_types, nn == counts[0], all_done)
        if outcome[0] == "raise":
            c.oblige("post", "rejected only when the inputs are invalid", Not_(valid))
            c.oblige("post", "rejection is a ValueError", outcome[1] == "ValueError", {"raised": outcome[1]})
            return
        c.oblige("post", "accepted only when the inputs are valid", valid)
        Q = post["self"].fields
        given = pre["single_setups"]
        c.oblige("post", "the setups are kept, in order", isinstance(Q.get("_setups"), list) and given is not None and len(Q["_setups"]) == len(given)
                 and all(x is y for x, y in zip(Q["_setups"], post["single_setups"])))
        c.oblige("post", "names kept", Q.get("names") is post["names"])
        c.oblige("post", "reference indices kept", Q.get("ref_ind") is post["ref_ind"])


def _register_poser():
    out = []
    combos = [()] + [t for n in (1, 2, 3) for t in itertools.product((0, 1, 2), repeat=n)]
    combos += [(1, 1, 1, 1), (2, 2, 2, 2), (2, 2, 1, 2), (1, 0, 1, 1), (2, 2, 2, 1)]
    for t in combos:
        nm = "setups with " + ("no setups" if not t else "/".join(str(k) for k in t) + " algorithms")
        out.append(register(type("poser_" + "_".join(map(str, t)), (_Poser,), {"counts": t, "name": nm})))
    out.append(register(type("poser_none", (_Poser,), {"counts": (), "none_list": True, "name": "single_setups=None"})))
    # thorough tier: every 4-setup layout over 0 / 1 / 2 algorithms per setup
    done = set(combos)
    for t in itertools.product((0, 1, 2), repeat=4):
        if t in done:
            continue
        nm = "setups with " + "/".join(str(k) for k in t) + " algorithms"
        out.append(register(type("poser_" + "_".join(map(str, t)), (_Poser,), {"counts": t, "name": nm, "thorough_only": True})))
    return out


_register_poser()


# ----------------------------------------------------------------------------------------------------------------------
# isolation / determinism: run() of every algorithm class neither stores into the algorithm, the shared data or module
# state nor reads anything but its own attributes - a syntactic frame check of the real bodies
# ----------------------------------------------------------------------------------------------------------------------

RUNS = ["pyoma2.algorithms.fdd.FDD.run", "pyoma2.algorithms.fdd.FDD_MS.run", "pyoma2.algorithms.fdd.EFDD_MS.run",
        "pyoma2.algorithms.ssi.SSIdat.run", "pyoma2.algorithms.ssi.SSIdat_MS.run",
        "pyoma2.algorithms.plscf.pLSCF.run", "pyoma2.algorithms.plscf.pLSCF_MS.run"]
MAY_READ = {"run_params", "data", "fs", "dt", "name", "method", "ResultCls", "RunParamCls", "__class__"}


def _run_frame(repo, qual):
    fi = repo.function(qual)
    out = []
    stores, reads, aliases, globs = [], set(), set(), []
    def root(e):
        while isinstance(e, (ast.Attribute, ast.Subscript)):
            e = e.value
        return e
    # names bound to something reachable from self (rp = self.run_params; res = self.result ...)
    self_alias = set()
    for n in ast.walk(fi.node):
        if isinstance(n, ast.Assign) and isinstance(root(n.value), ast.Name) and root(n.value).id == "self" and isinstance(n.value, (ast.Attribute, ast.Subscript)):
            for t in n.targets:
                if isinstance(t, ast.Name):
                    self_alias.add(t.id)
    for n in ast.walk(fi.node):
        if isinstance(n, ast.Attribute) and isinstance(n.value, ast.Name) and n.value.id == "self" and not isinstance(n.ctx, (ast.Store, ast.Del)):
            reads.add(n.attr)
        # any store / deletion / augmented assignment whose target is reached THROUGH self (self.x = .., self.run_params.method = ..,
        # self.result.Fn[0] = .., rp.method = .. with rp bound to self.run_params)
        tgts = []
        if isinstance(n, ast.Assign):
            tgts = n.targets
        elif isinstance(n, (ast.AugAssign, ast.AnnAssign)):
            tgts = [n.target]
        elif isinstance(n, ast.Delete):
            tgts = n.targets
        for t in tgts:
            for tt in (t.elts if isinstance(t, (ast.Tuple, ast.List)) else [t]):
                if isinstance(tt, (ast.Attribute, ast.Subscript)):
                    r = root(tt)
                    if isinstance(r, ast.Name) and (r.id == "self" or r.id in self_alias):
                        stores.append(f"{ast.unparse(tt)} (line {n.lineno})")
        if isinstance(n, (ast.Global, ast.Nonlocal)):
            globs.append(f"line {n.lineno}")
    # names bound to (views of) the shared data
    def from_data(e):
        return any(isinstance(x, ast.Attribute) and isinstance(x.value, ast.Name) and x.value.id == "self" and x.attr == "data" for x in ast.walk(e))
    for n in ast.walk(fi.node):
        if isinstance(n, ast.Assign) and from_data(n.value) and not isinstance(n.value, ast.Call):
            for t in n.targets:
                if isinstance(t, ast.Name):
                    aliases.add(t.id)
    writes = []
    for n in ast.walk(fi.node):
        tgt = None
        if isinstance(n, ast.AugAssign):
            tgt = n.target
        elif isinstance(n, ast.Assign):
            for t in n.targets:
                if isinstance(t, (ast.Subscript, ast.Attribute)):
                    tgt = t
        if tgt is not None:
            base = tgt
            while isinstance(base, (ast.Subscript, ast.Attribute)):
                base = base.value
            root_is_data = (isinstance(base, ast.Name) and (base.id in aliases)) or from_data(tgt)
            if root_is_data or (isinstance(n, ast.AugAssign) and isinstance(tgt, ast.Name) and tgt.id in aliases):
                writes.append(f"line {n.lineno}")
    out.append((f"{qual}: stores into no attribute of the algorithm", not stores, "; ".join(stores) or "no store to self.*"))
    out.append((f"{qual}: writes into no view of the shared data", not writes, "; ".join(writes) or "no in-place write through self.data or a name bound to it"))
    out.append((f"{qual}: reads only its own parameters and data", reads <= MAY_READ, "reads self." + ", self.".join(sorted(reads))))
    out.append((f"{qual}: touches no module-level state", not globs, "; ".join(globs) or "no global / nonlocal"))
    return out, fi


def _mk_static(qual):
    class _K(Contract):
        qualname = qual
        props = ("C15",)
        name = "frame"
        verify_body = False

        def static_checks(self, repo):
            return _run_frame(repo, qual)
    _K.__name__ = "frame_" + qual.replace(".", "_")
    return register(_K)


for _q in RUNS:
    _mk_static(_q)


# ----------------------------------------------------------------------------------------------------------------------
# MultiSetup_PoSER.result (property): ValueError before merge_results, afterwards exactly the stored dictionary; reading changes nothing
# ----------------------------------------------------------------------------------------------------------------------

class _PoserResult(Contract):
    witness = _witness
    qualname = "pyoma2.setup.multi.MultiSetup_PoSER.result"
    props = ("C15", "C02")
    generic_replay = False
    callable_modular = False
    compare_state = False
    bounded_driver = {"driver": "c02_results", "inputs": {}}
    merged = False
    # the refusal before merge_results is the documented behaviour, not a clause of C02 / C15: a violation only with a failing input
    replay_gated = ("ValueError before merge_results",)

    def setup(self, c):
        stored = Opaque("merged results") if self.merged else None
        c.memo["ghost:poser_result"] = stored
        return {"self": Obj("pyoma2.setup.multi.MultiSetup_PoSER", {"_MultiSetup_PoSER__result": stored, "_setups": Opaque("setups"),
                                                                   "_names": Opaque("names"), "_ref_ind": Opaque("ref_ind")})}

    def check(self, c, pre, post, outcome):
        stored = c.memo["ghost:poser_result"]
        if self.merged:
            c.oblige("post", "returns exactly the stored merged results", outcome[0] == "return" and outcome[1] is stored, {"outcome": str(outcome)[:80]})
        else:
            c.oblige("post", "ValueError before merge_results", outcome == ("raise", "ValueError"), {"outcome": str(outcome)[:80]})
        _same_fields(c, "self", pre["self"], post["self"])


@register
class poser_result_before(_PoserResult):
    name = "before merge_results"


@register
class poser_result_after(_PoserResult):
    name = "after merge_results"
    merged = True


# ----------------------------------------------------------------------------------------------------------------------
# persistence (pickle round trip) and end-to-end determinism on real runs: no contract can speak about pickle or about
# bit-identical floating-point reruns; a bounded search on the real classes stands in (labelled bounded)
# ----------------------------------------------------------------------------------------------------------------------

@register
class persistence(Contract):
    qualname = "pyoma2.functions.gen.save_to_file"
    props = ("C15",)
    name = "save/load round trip, reruns"
    bounded_only = True
    callable_modular = False
    generic_replay = False
    bounded_reason = "unsupported: pickle is foreign code; equality of NumPy/pydantic objects after a round trip and bit-identical reruns have no contract here"
    bounded_bound = "random sequences of 2-5 operations (add / run_by_name / run_all / mpe / ungated calls) over FDD, SSIcov, pLSCF on a 3-channel record, then save_to_file/load_from_file"
    bounded_driver = {"driver": "c15_gating", "inputs": {"trials": 10, "trials_thorough": 60}}
