"""C20: what the diagram functions hand to matplotlib (Axes are effect recorders)."""
import z3

from pyvc import npmodel as N
from pyvc import spec as S
from pyvc import sym
from pyvc.contract import Contract, register
from pyvc.core import PyRaise, cur
from pyvc.interp import LoopSpec, assert_same
from pyvc.sym import And_, Arr, F, Implies_, NAN, Not_, Obj, Seq, zi


def calls_named(ax, name, n_max=12):
    """the recorded calls of a given method (the trace has a concrete length in these functions)"""
    calls = ax.fields["calls"]
    n = calls.length
    if not sym.is_pyint(n):
        return None
    return [calls.get(k) for k in range(n) if calls.get(k)[0] == name]


def expected_xy(Fn, Lab, label, yfn):
    """F-order sequences: p = c*n_rows + r  ->  x = Fn[r, c] if Lab[r, c] == label else NaN,  y = yfn(r, c)"""
    n0, n1 = Fn.shape
    ff, lf = Fn.snapshot_fn(), Lab.snapshot_fn()
    x = Arr(((n1, n0),), lambda idx: sym.ite(sym.eq(lf(((idx[0][1],), (idx[0][0],))), label), ff(((idx[0][1],), (idx[0][0],))), NAN), "float")
    y = Arr(((n1, n0),), lambda idx: yfn(idx[0][1], idx[0][0]), "float")
    return x, y


class _Plot(Contract):
    props = ("C20",)
    generic_replay = False
    callable_modular = False
    bounded_driver = {"driver": "c20_plots", "inputs": {}}

    def witness(self, o):
        return dict(self.bounded_driver)

    def tables(self, c, with_xi=False):
        n0 = S.integer("n_rows", lo=1)
        n1 = S.integer("n_cols", lo=1)
        d = {"Fn": S.array("Fn", "float", shape=(n0, n1)), "Lab": S.array("Lab", "int", shape=(n0, n1))}
        if with_xi:
            d["Xi"] = S.array("Xi", "float", shape=(n0, n1))
        return d

    supplied = False     # the caller hands in (fig, ax): the diagram goes on THOSE axes, whatever pyplot's current axes are

    def figure_args(self, c):
        if not self.supplied:
            return {"fig": None, "ax": None}
        from pyvc.models import new_axes
        ax = new_axes()
        c.memo["ghost:supplied_ax"] = ax
        return {"fig": sym.Opaque("figure", "supplied"), "ax": ax}

    def the_axes(self, c):
        axs = c.memo.get("ghost:axes", [])
        c.oblige("post", "one-axes-created" if not self.supplied else "no-other-axes-created", len(axs) == 1)
        if self.supplied:
            stray = c.memo.get("ghost:pyplot_stray")
            c.oblige("post", "nothing drawn through pyplot's current axes (the supplied axes need not be current)",
                     stray is None or not any(stray.fields["calls"].get(k)[0] in ("plot", "scatter", "errorbar", "semilogy", "step", "fill_between")
                                              for k in range(stray.fields["calls"].length)))
        if len(axs) == 1:
            c.oblige("post", "the diagram's axes start empty (not the axes of a figure that an earlier call may have left open)",
                     not axs[0].fields.get("prior_artists", False))
        return axs[0] if len(axs) == 1 else None

    def markers(self, c, ax, Fn, Lab, hide, yfn, what):
        plots = calls_named(ax, "plot")
        scat = calls_named(ax, "scatter")
        c.oblige("post", "one-stable-marker-sequence", plots is not None and len(plots) == 1 and len(plots[0][1]) >= 3 and plots[0][1][2] == "go")
        if plots and len(plots) == 1:
            wx, wy = expected_xy(Fn, Lab, 1, yfn)
            assert_same(f"stable markers: x = Fn where labelled stable", N.asarray(plots[0][1][0]), wx, "post")
            assert_same(f"stable markers: y = {what}", N.asarray(plots[0][1][1]), wy, "post")
        if hide:
            c.oblige("post", "no-unstable-markers-when-hidden", scat == [])
        else:
            c.oblige("post", "one-unstable-marker-sequence", scat is not None and len(scat) == 1)
            if scat and len(scat) == 1:
                wx, wy = expected_xy(Fn, Lab, 0, yfn)
                assert_same("unstable markers: x = Fn where labelled 0 (NaN poles stay NaN)", N.asarray(scat[0][1][0]), wx, "post")
                assert_same(f"unstable markers: y = {what}", N.asarray(scat[0][1][1]), wy, "post")


class _Stab(_Plot):
    qualname = "pyoma2.functions.plot.stab_plot"
    hide = True
    cov = False

    def setup(self, c):
        t = self.tables(c)
        a = {"Fn": t["Fn"], "Lab": t["Lab"], "step": 1, "ordmax": S.integer("ordmax", lo=1), "ordmin": S.integer("ordmin", lo=0),
             "freqlim": None, "hide_poles": self.hide, **self.figure_args(c),
             "Fn_cov": S.array("Fn_cov", "float", shape=t["Fn"].shape) if self.cov else None}
        if c.branch(S.boolean("with_freqlim")):
            a["freqlim"] = (S.real("f_lo", py=False), S.real("f_hi", py=False))
        return a

    def check(self, c, pre, post, outcome):
        if outcome[0] != "return":
            c.oblige("post", "no-exception", False, {"raised": outcome[1]})
            return
        ax = self.the_axes(c)
        if ax is None:
            return
        c.oblige("post", "returns-the-axes", isinstance(outcome[1], tuple) and len(outcome[1]) == 2 and outcome[1][1] is ax)
        # model order of column c as accepted by mpe: the column index (step == 1)
        self.markers(c, ax, pre["Fn"], pre["Lab"], self.hide, lambda r, cc: sym.toF(cc), "model order (= column index)")
        if self.cov:
            errs = calls_named(ax, "errorbar")
            c.oblige("post", "error-bars-drawn", errs is not None and len(errs) == (2 if self.hide else 4))
            if errs:
                px = calls_named(ax, "plot")[0][1]
                for e in errs[:2]:
                    c.oblige("post", "error-bars-at-the-stable-markers", e[1][0] is px[0] and e[1][1] is px[1])
                # widths are F-ordered like the markers
                Fn, Fc = pre["Fn"], pre["Fn_cov"]
                n0, n1 = Fn.shape
                ff, cf = Fn.snapshot_fn(), Fc.snapshot_fn()

                def wfn(idx):
                    i2 = ((idx[0][1],), (idx[0][0],))
                    v = sym.abs_(sym.mul(cf(i2), ff(i2)))
                    return sym.ite(sym.le(v, sym.toF(0.5)), v, NAN)
                assert_same("error-bar widths paired with their poles", N.asarray(errs[0][2]["xerr"]),
                            Arr(((n1, n0),), wfn, "float"), "post")


@register
class stab_hidden(_Stab):
    name = "hide_poles"
    hide = True


@register
class stab_shown(_Stab):
    name = "all poles"
    hide = False


@register
class stab_shown_supplied(_Stab):
    name = "all poles, on supplied axes"
    hide = False
    supplied = True


@register
class stab_shown_cov_supplied(_Stab):
    name = "all poles, covariance, on supplied axes"
    hide = False
    cov = True
    supplied = True


@register
class stab_hidden_cov(_Stab):
    name = "hide_poles, covariance"
    hide = True
    cov = True


@register
class stab_shown_cov(_Stab):
    name = "all poles, covariance"
    hide = False
    cov = True


class _Cluster(_Plot):
    qualname = "pyoma2.functions.plot.cluster_plot"
    hide = True

    def setup(self, c):
        t = self.tables(c, with_xi=True)
        return {"Fn": t["Fn"], "Xi": t["Xi"], "Lab": t["Lab"], "ordmin": S.integer("ordmin", lo=0), "freqlim": None,
                "hide_poles": self.hide}        # (cluster_plot takes no fig / ax)

    def check(self, c, pre, post, outcome):
        if outcome[0] != "return":
            c.oblige("post", "no-exception", False, {"raised": outcome[1]})
            return
        ax = self.the_axes(c)
        if ax is None:
            return
        Xi, Lab = pre["Xi"], pre["Lab"]
        xf, lf = Xi.snapshot_fn(), Lab.snapshot_fn()
        plots = calls_named(ax, "plot")
        scat = calls_named(ax, "scatter")
        c.oblige("post", "one-stable-marker-sequence", plots is not None and len(plots) == 1)
        if plots and len(plots) == 1:
            wx, _ = expected_xy(pre["Fn"], Lab, 1, lambda r, cc: 0)
            wy, _ = expected_xy(Xi, Lab, 1, lambda r, cc: 0)
            assert_same("stable markers: x = Fn where labelled stable", N.asarray(plots[0][1][0]), wx, "post")
            assert_same("stable markers: y = Xi of the same pole", N.asarray(plots[0][1][1]), wy, "post")
        if self.hide:
            c.oblige("post", "no-unstable-markers-when-hidden", scat == [])
        else:
            c.oblige("post", "one-unstable-marker-sequence", scat is not None and len(scat) == 1)
            if scat and len(scat) == 1:
                wx, _ = expected_xy(pre["Fn"], Lab, 0, lambda r, cc: 0)
                wy, _ = expected_xy(Xi, Lab, 0, lambda r, cc: 0)
                assert_same("unstable markers: x = Fn where labelled 0", N.asarray(scat[0][1][0]), wx, "post")
                assert_same("unstable markers: y = Xi of the same pole", N.asarray(scat[0][1][1]), wy, "post")


@register
class cluster_hidden(_Cluster):
    name = "hide_poles"
    hide = True


@register
class cluster_shown(_Cluster):
    name = "all poles"
    hide = False


# ----------------------------------------------------------------------------------
# CMIF_plot
# ----------------------------------------------------------------------------------

def cmif_curve(S_val, k):
    """10 log10( S_val[k, k, :] / max_f S_val[0, 0, f] )  over the whole grid"""
    c = cur()
    f = S_val.snapshot_fn()
    first = Arr((S_val.axes[2],), lambda idx: f(((0,), (0,), idx[0])), "float")
    c.numpy_mode += 1
    try:
        m = N.argmax(first)
        top = first.get(m)
        return Arr((S_val.axes[2],), lambda idx: sym.mul(10, sym.log10_(sym.div(f(((k,), (k,), idx[0])), top))), "float")
    finally:
        c.numpy_mode -= 1


def _cmif_loop(k, pre, it):
    ax0 = pre["ax"]
    S_val, freq = pre["S_val"], pre["freq"]
    base = ax0.fields["calls"]
    n0 = base.length
    bf = base._fn

    def elem(j):
        jj = sym.sub(j, n0)
        if sym.is_pyint(j) and sym.is_pyint(n0) and j < n0:
            return bf(j)
        curve = cmif_curve(S_val, jj)
        return sym.Lazy.choose(sym.lt(j, n0), lambda: bf(j),
                               lambda: sym.Lazy.choose(sym.eq(jj, 0), lambda: ("plot", (freq, curve, "k"), {"linewidth": 2}),
                                                       lambda: ("plot", (freq, curve, "grey"), {})))
    return {"ax": Obj("mpl.Axes", {"__recorder__": True, "calls": Seq(sym.add(n0, k), elem)})}


class _CMIF(_Plot):
    qualname = "pyoma2.functions.plot.CMIF_plot"
    loops = {0: LoopSpec(_cmif_loop)}
    all_curves = True
    with_freqlim = False

    def setup(self, c):
        nr = S.integer("nr", lo=1)
        nc = S.integer("nc", lo=1)
        nf = S.integer("nf", lo=1)
        a = {"S_val": S.array("S_val", "float", shape=(nr, nc, nf), finite=True), "freq": S.array("freq", "float", shape=(nf,), finite=True),
             "freqlim": None, "nSv": "all", **self.figure_args(c)}
        c.assume(nc <= nr)
        if not self.all_curves:
            a["nSv"] = S.integer("nSv", lo=0)
        if self.with_freqlim:
            # a frequency window only sets the visible range: the 0 dB reference stays the maximum over the WHOLE grid
            a["freqlim"] = (S.real("f_lo", py=False), S.real("f_hi", py=False))
        return a

    def check(self, c, pre, post, outcome):
        S_val = pre["S_val"]
        if not self.all_curves:
            ok = sym.lt(pre["nSv"], S_val.shape[1])
            if outcome[0] == "raise":
                c.oblige("post", "ValueError iff more curves than singular values are requested", And_(outcome[1] == "ValueError", Not_(ok)))
                return
            c.oblige("post", "admissible-number-of-curves", ok)
        elif outcome[0] != "return":
            c.oblige("post", "no-exception", False, {"raised": outcome[1]})
            return
        ax = outcome[1][1]
        if self.supplied:
            # (the loop rule re-creates the recorder object, so identity with the supplied one is not observable here: what is checked is
            # that no second axes is created and nothing is drawn through pyplot's current axes)
            self.the_axes(c)
        calls = ax.fields["calls"]
        n = S_val.shape[1] if self.all_curves else pre["nSv"]
        # the curves are the first n recorded calls; decorations follow
        k = c.fresh_int("curve")

        def sub():
            got = calls.get(k)
            curve = cmif_curve(S_val, k)
            assert_same("curve k: (freq over the whole grid, 10 log10(S_val[k,k,:] / max S_val[0,0,:]))",
                        (got[0], got[1][0], got[1][1]), ("plot", pre["freq"], curve), "post")
        c.subproof(z3.And(k >= 0, k < zi(n)), sub)
        # no further curve is drawn: every later call is a decoration
        extra = sym.simp(sym.sub(calls.length, n))
        ok = sym.is_pyint(extra) and 0 <= extra <= 8 and all(calls.get(sym.add(n, j))[0] not in ("plot", "scatter", "errorbar")
                                                              for j in range(extra if sym.is_pyint(extra) else 0))
        c.oblige("post", "exactly-n-curves", ok, {"what": "after the n curves only decorations (titles, labels, limits, grid) follow"})


@register
class cmif_all(_CMIF):
    name = "all"
    all_curves = True


@register
class cmif_n(_CMIF):
    name = "nSv"
    all_curves = False


@register
class cmif_all_supplied(_CMIF):
    name = "all, on supplied axes"
    all_curves = True
    supplied = True


@register
class cmif_all_window(_CMIF):
    name = "all, frequency window"
    all_curves = True
    with_freqlim = True


# ----------------------------------------------------------------------------------
# the algorithm classes' plot methods: which tables and parameters reach the functions
# ----------------------------------------------------------------------------------

class _PlotFnHavoc(Contract):
    verify_body = False
    name = "havoc"

    def apply(self, interp, args, kwargs):
        c = cur()
        fi = interp.repo.function(self.qualname)
        env = interp.bind(fi, args, kwargs, None)          # TypeError for unknown / missing arguments
        c.memo["ghost:plotcall"] = (self.qualname.split(".")[-1], env)
        return (sym.Opaque("figure"), sym.Opaque("axes"))


@register
class stab_plot_havoc(_PlotFnHavoc):
    qualname = "pyoma2.functions.plot.stab_plot"


@register
class cluster_plot_havoc(_PlotFnHavoc):
    qualname = "pyoma2.functions.plot.cluster_plot"


@register
class CMIF_plot_havoc(_PlotFnHavoc):
    qualname = "pyoma2.functions.plot.CMIF_plot"


class _ClassPlot(Contract):
    props = ("C20",)
    generic_replay = False
    callable_modular = False
    compare_state = False
    bounded_driver = {"driver": "c20_plots", "inputs": {}}
    fn = "stab_plot"
    expect = {}
    cls = ""

    @property
    def use(self):
        return {"pyoma2.functions.plot." + self.fn: "havoc"}

    def witness(self, o):
        return dict(self.bounded_driver)

    def setup(self, c):
        res = Obj("result", {k: sym.Opaque(k) for k in ("Fn_poles", "Xi_poles", "Phi_poles", "Lab", "Fn_poles_cov", "S_val", "freq")})
        rp = Obj("rp", {"step": S.integer("step", lo=1), "ordmax": S.integer("ordmax", lo=1), "ordmin": S.integer("ordmin", lo=0)})
        a = {"self": Obj(self.cls, {"result": res, "run_params": rp, "name": "a"}),
             "freqlim": (S.real("lo", py=False), S.real("hi", py=False))}
        if self.fn != "CMIF_plot":
            a["hide_poles"] = S.boolean("hide_poles")
        else:
            a["nSv"] = S.integer("nSv", lo=0)
        return a

    def check(self, c, pre, post, outcome):
        if outcome[0] != "return":
            c.oblige("post", "plots-without-exception", False, {"raised": outcome[1]})
            return
        call = c.memo.get("ghost:plotcall")
        c.oblige("post", "plot-function-called", call is not None and call[0] == self.fn)
        if call is None:
            return
        env = call[1]
        res, rp = pre["self"].fields["result"].fields, pre["self"].fields["run_params"].fields
        for par, src in self.expect.items():
            if src.startswith("result."):
                c.oblige("post", f"{par} = {src}", env.get(par) is res[src[7:]])
            elif src.startswith("run_params."):
                c.oblige("post", f"{par} = {src}", sym.eq(env.get(par), rp[src[11:]]))
            elif src == "arg":
                v, w = env.get(par), pre[par]
                c.oblige("post", f"{par} forwarded", v is w or (isinstance(v, tuple) and isinstance(w, tuple) and all(x is y for x, y in zip(v, w)))
                         or (sym.is_bool(v) and sym.is_bool(w) and sym.Iff_(v, w)) or (sym.is_int(v) and sym.is_int(w) and sym.eq(v, w)))
            else:
                c.oblige("post", f"{par} = {src}", sym.eq(env.get(par), int(src)))


@register
class SSI_plot_stab(_ClassPlot):
    qualname = "pyoma2.algorithms.ssi.SSIdat.plot_stab"
    cls = "pyoma2.algorithms.ssi.SSIdat"
    fn = "stab_plot"
    expect = {"Fn": "result.Fn_poles", "Lab": "result.Lab", "step": "run_params.step", "ordmax": "run_params.ordmax",
              "ordmin": "run_params.ordmin", "freqlim": "arg", "hide_poles": "arg", "Fn_cov": "result.Fn_poles_cov"}


@register
class SSI_plot_cluster(_ClassPlot):
    qualname = "pyoma2.algorithms.ssi.SSIdat.plot_cluster"
    cls = "pyoma2.algorithms.ssi.SSIdat"
    fn = "cluster_plot"
    expect = {"Fn": "result.Fn_poles", "Xi": "result.Xi_poles", "Lab": "result.Lab", "ordmin": "run_params.ordmin",
              "freqlim": "arg", "hide_poles": "arg"}


@register
class pLSCF_plot_stab(_ClassPlot):
    qualname = "pyoma2.algorithms.plscf.pLSCF.plot_stab"
    cls = "pyoma2.algorithms.plscf.pLSCF"
    fn = "stab_plot"
    expect = {"Fn": "result.Fn_poles", "Lab": "result.Lab", "step": "1", "ordmax": "run_params.ordmax",
              "ordmin": "run_params.ordmin", "freqlim": "arg", "hide_poles": "arg"}


@register
class pLSCF_plot_cluster(_ClassPlot):
    qualname = "pyoma2.algorithms.plscf.pLSCF.plot_cluster"
    cls = "pyoma2.algorithms.plscf.pLSCF"
    fn = "cluster_plot"
    expect = {"Fn": "result.Fn_poles", "Xi": "result.Xi_poles", "Lab": "result.Lab", "ordmin": "run_params.ordmin",
              "freqlim": "arg", "hide_poles": "arg"}


@register
class FDD_plot_CMIF(_ClassPlot):
    qualname = "pyoma2.algorithms.fdd.FDD.plot_CMIF"
    cls = "pyoma2.algorithms.fdd.FDD"
    fn = "CMIF_plot"
    expect = {"S_val": "result.S_val", "freq": "result.freq", "freqlim": "arg", "nSv": "arg"}
