"""C12 (and the factor clause of C17): layout of the SSI block Hankel/Toeplitz matrix, ssi.build_hank."""
import z3

from pyvc import matmodel as M
from pyvc import npmodel as N
from pyvc import spec as S
from pyvc import sym
from pyvc.contract import Contract, register, spec_canary
from pyvc.core import PyRaise, cur
from pyvc.interp import LoopSpec
from pyvc.sym import And_, Arr, F, Implies_, Not_, zi


def dims(Y, Yref, br):
    l, Ndat = Y.shape
    r = Yref.shape[0]
    p = br
    q = sym.add(p, 1)
    Nn = sym.sub(sym.sub(Ndat, p), q)
    return l, r, Ndat, p, q, Nn


def future_past(Y, Yref, br):
    """Yf: (p+1 blocks x l channels) x (N-1);  Yp: (q blocks x r refs) x (N-1), each scaled by 1/sqrt(N):
    Yf[(i,a), t] = Y[a, q+1+i+t] / sqrt(N),   Yp[(j,b), t] = Yref[b, q-j+t] / sqrt(N)"""
    l, r, Ndat, p, q, Nn = dims(Y, Yref, br)
    w = sym.div(1, sym.sqrt_(sym.toF(Nn)))
    fy, fr = Y.snapshot_fn(), Yref.snapshot_fn()
    Yf = Arr(((sym.add(p, 1), l), (sym.sub(Nn, 1),)),
             lambda idx: sym.mul(w, fy(((idx[0][1],), (sym.add(sym.add(sym.add(q, 1), idx[0][0]), idx[1][0]),)))), "float")
    Yp = Arr(((q, r), (sym.sub(Nn, 1),)),
             lambda idx: sym.mul(w, fr(((idx[0][1],), (sym.add(sym.sub(q, idx[0][0]), idx[1][0]),)))), "float")
    return Yf, Yp


def hank_cov_mm(Y, Yref, br):
    """entry (block i, channel a; block j, reference b) = (1/N) * sum_{t < N-1} Y[a, q+1+i+t] * Yref[b, q-j+t]
    : one single lag (q+1+i) - (q-j) = i + j + 1, uniform weight 1/N."""
    l, r, Ndat, p, q, Nn = dims(Y, Yref, br)
    fy, fr = Y.snapshot_fn(), Yref.snapshot_fn()
    w = sym.div(1, sym.toF(Nn))

    def cellfn(idx):
        (i, a), (j, b) = idx[0], idx[1]
        return N.make_sum((sym.sub(Nn, 1),),
                          lambda t: sym.mul(w, sym.mul(fy(((a,), (sym.add(sym.add(sym.add(q, 1), i), t[0]),))),
                                                        fr(((b,), (sym.add(sym.sub(q, j), t[0]),))))))
    return Arr(((sym.add(p, 1), l), (sym.add(p, 1), r)), cellfn, "float")


def hank_cov_R(Y, Yref, br):
    """entry (i,a; j,b) = 1/(Ndat-k) * sum_{t < Ndat-k} Y[a, t] * Yref[b, k+t]  with the single lag k = br + i - j
    (the reference leads by k in every block)."""
    l, r, Ndat, p, q, Nn = dims(Y, Yref, br)
    fy, fr = Y.snapshot_fn(), Yref.snapshot_fn()

    def cellfn(idx):
        (i, a), (j, b) = idx[0], idx[1]
        k = sym.sub(sym.add(p, i), j)
        w = sym.div(1, sym.toF(sym.sub(Ndat, k)))
        return N.make_sum((sym.sub(Ndat, k),),
                          lambda t: sym.mul(w, sym.mul(fy(((a,), (t[0],))), fr(((b,), (sym.add(k, t[0]),))))))
    return Arr(((q, l), (sym.add(p, 1), r)), cellfn, "float")


def hank_dat(Y, Yref, br):
    """H = L[r*q :, : r*q] with L = R^T, R the triangular factor of qr([Yp; Yf]^T): past references stacked
    first, split exactly between the past (r*q rows) and the future block."""
    l, r, Ndat, p, q, Nn = dims(Y, Yref, br)
    Yf, Yp = future_past(Y, Yref, br)
    Ys = N.vstack((Yp, Yf))
    R21 = N.transpose(M.qr(N.transpose(Ys), mode="r"))
    k = sym.mul(r, sym.add(p, 1))
    return N.getitem(R21, (slice(k, None), slice(None, k)))


def free_symbols(e):
    out = set()
    st = [e]
    seen = set()
    while st:
        x = st.pop()
        if x.get_id() in seen:
            continue
        seen.add(x.get_id())
        if z3.is_app(x) and x.decl().kind() == z3.Z3_OP_UNINTERPRETED:
            out.add(x.decl().name())
        st.extend(x.children())
    return out


def unit_hank(Y, Yref, br, method):
    """the matrix of unit-weight lagged products  U[(i,a),(j,b)] = sum_t Y[a, s+lag+t] * Yref[b, s+t]
    (cov_mm: lag i+j+1, window s = q-j, N-1 terms;  cov_R: lag -(br+i-j) i.e. the reference leads, Ndat-k terms)"""
    l, r, Ndat, p, q, Nn = dims(Y, Yref, br)
    fy, fr = Y.snapshot_fn(), Yref.snapshot_fn()
    if method == "cov_mm":
        def cellfn(idx):
            (i, a), (j, b) = idx[0], idx[1]
            return N.make_sum((sym.sub(Nn, 1),),
                              lambda t: sym.mul(fy(((a,), (sym.add(sym.add(sym.add(q, 1), i), t[0]),))),
                                                fr(((b,), (sym.add(sym.sub(q, j), t[0]),)))))
        return Arr(((sym.add(p, 1), l), (sym.add(p, 1), r)), cellfn, "float")

    def cellfn(idx):
        (i, a), (j, b) = idx[0], idx[1]
        k = sym.sub(sym.add(p, i), j)
        return N.make_sum((sym.sub(Ndat, k),), lambda t: sym.mul(fy(((a,), (t[0],))), fr(((b,), (sym.add(k, t[0]),)))))
    return Arr(((q, l), (sym.add(p, 1), r)), cellfn, "float")


def check_weighted(c, H, U, label="H"):
    """property-level comparison for the covariance methods: every entry of H is kappa * U with a non-zero
    weight kappa that does not depend on the data, the channel or the summation index (uniform weights)."""
    from pyvc.interp import assert_same
    sh = And_(*[sym.eq(x, y) for x, y in zip(H.shape, U.shape)])
    c.oblige("post", label + ".shape", sh)
    if H.ndim != 2:
        c.oblige("post", label + ".rank", False)
        return
    if getattr(c, "tol", None) is not None:
        return check_weighted_concrete(c, H, U, label)
    idx, rng = U.skolem("h", assume=False)

    def sub():
        hi = tuple(t if sym.same_axes(ua, ha) else sym.split_index(sym.flat_index(t, ua), ha)
                   for t, ua, ha in zip(idx, U.axes, H.axes))
        g = sym.toF(H.cell(hi))
        u = sym.toF(U.cell(idx))
        c.oblige("post", label + ".finite", Not_(g.nan))
        from pyvc.lemmas import close_sums
        from pyvc import lemmas
        close_sums(g, u)
        uc = z3.simplify(u.v)
        g = F(g.nan, lemmas.rewrite_equal_sums(g.v, uc))
        if not (z3.is_const(uc) or (z3.is_app(uc) and uc.decl().kind() == z3.Z3_OP_UNINTERPRETED)):
            c.oblige("post", label + ".unit-sum-form", False)
            return
        kappa = z3.simplify(z3.substitute(z3.simplify(g.v), (uc, z3.RealVal(1))))
        c.oblige("post", label + ".single-lag-bilinear", g.v == kappa * uc,
                 {"what": "entry = weight * sum of products at one single lag"})
        c.oblige("post", label + ".weight-nonzero", kappa != 0)
        deps = free_symbols(kappa)
        allowed = lambda n: not (n.startswith("Y") or n.startswith("SUM"))   # noqa: E731
        a_idx = {str(idx[0][1]), str(idx[1][1])}
        bad = [n for n in deps if not allowed(n) and not n.startswith("sqrt")] + [n for n in deps if n in a_idx]
        c.oblige("post", label + ".weight-uniform", not bad, {"weight depends on": ",".join(sorted(bad))})
    c.subproof(And_(sh, rng), sub)


def check_weighted_concrete(c, H, U, label):
    """replay (concrete) mode of check_weighted: per block (i, j) one weight must explain every entry"""
    import itertools
    from pyvc.sym import _numeral
    if not all(sym.is_pyint(x) for ax in U.axes for x in ax) or not all(sym.is_pyint(x) for ax in H.axes for x in ax):
        c.oblige("post", label + ".concrete-shape", False)
        return
    (nbi, l), (nbj, r) = U.axes
    bad = None
    for i, j in itertools.product(range(nbi), range(nbj)):
        kappa = None
        for a, b in itertools.product(range(l), range(r)):
            flat = (i * l + a, j * r + b)
            g = sym.toF(H.cell(tuple(sym.split_index(x, ax) for x, ax in zip(flat, H.axes))))
            u = sym.toF(U.cell(((i, a), (j, b))))
            gv, uv = _numeral(g.v), _numeral(u.v)
            if gv is None or uv is None or g.nan is not False:
                bad = f"entry (block {i}, ch {a}; block {j}, ref {b}) is not a finite number"
                break
            if kappa is None:
                if abs(uv) > 1e-9:
                    kappa = gv / uv
                    if abs(kappa) < 1e-300:
                        bad = f"zero weight in block ({i},{j})"
                        break
                continue
            if abs(gv - kappa * uv) > 1e-7 * (1 + abs(gv) + abs(kappa * uv)):
                bad = (f"entry (block {i}, ch {a}; block {j}, ref {b}) = {gv:.6g} is not weight*sum of the single-lag products "
                       f"({kappa:.6g} * {uv:.6g})")
                break
        if bad:
            break
    c.oblige("post", label + ".single-lag-bilinear", bad is None, {"what": bad or ""})


class _BuildHank(Contract):
    qualname = "pyoma2.functions.ssi.build_hank"
    # C01 and C03 rest on this function too (single-setup and multi-setup SSI build their Hankel matrices with it): its contract - including
    # the frame clause that the data handed in are left as they were - is part of what those properties depend on
    props = ("C12", "C01", "C03")
    method = "cov_mm"

    def setup(self, c):
        l = S.integer("l", lo=1)
        r = S.integer("r", lo=1)
        Nd = S.integer("Ndat", lo=1)
        br = S.integer("br", lo=1)
        c.assume(Nd - 2 * br - 1 >= 2)      # N = Ndat - p - q >= 2
        self.extra_pre(c, l, r, Nd, br)
        return {"Y": S.array("Y", "float", shape=(l, Nd), finite=True),
                "Yref": S.array("Yref", "float", shape=(r, Nd), finite=True),
                "br": br, "method": self.method, "calc_unc": False, "nb": 100}

    def extra_pre(self, c, l, r, Nd, br):
        pass

    def requires(self, c, Y, Yref, br, method, calc_unc=False, nb=100):
        return [("N>=2", sym.le(2, sym.sub(sym.sub(Y.shape[1], br), sym.add(br, 1)))), ("br>=1", sym.le(1, br)),
                ("same-length", sym.eq(Y.shape[1], Yref.shape[1]))]


@register
class build_hank_cov_mm(_BuildHank):
    name = "cov_mm"
    method = "cov_mm"

    def spec(self, c, Y, Yref, br, method, calc_unc=False, nb=100):
        return (hank_cov_mm(Y, Yref, br), None)

    def check(self, c, pre, post, outcome):
        if outcome[0] != "return" or not isinstance(outcome[1], tuple) or len(outcome[1]) != 2:
            return self.compare_outcome(c, outcome, ("return", (None, None)))
        H, T = outcome[1]
        c.oblige("post", "T-is-None", T is None)
        check_weighted(c, H, unit_hank(pre["Y"], pre["Yref"], pre["br"], "cov_mm"))

    def _wrong_lag(self, c, Y, Yref, br, method, calc_unc=False, nb=100):
        """canary: lag i + j instead of i + j + 1"""
        l, r, Ndat, p, q, Nn = dims(Y, Yref, br)
        fy, fr = Y.snapshot_fn(), Yref.snapshot_fn()
        w = sym.div(1, sym.toF(Nn))

        def cellfn(idx):
            (i, a), (j, b) = idx[0], idx[1]
            return N.make_sum((sym.sub(Nn, 1),),
                              lambda t: sym.mul(w, sym.mul(fy(((a,), (sym.add(sym.add(q, i), t[0]),))),
                                                            fr(((b,), (sym.add(sym.sub(q, j), t[0]),))))))
        return (Arr(((sym.add(p, 1), l), (sym.add(p, 1), r)), cellfn, "float"), None)

    def _wrong_transposed(self, c, Y, Yref, br, method, calc_unc=False, nb=100):
        """canary: channel-major instead of block-major rows"""
        H = hank_cov_mm(Y, Yref, br)
        f = H.snapshot_fn()
        l, r, Ndat, p, q, Nn = dims(Y, Yref, br)
        return (Arr(((l, sym.add(p, 1)), (sym.add(p, 1), r)), lambda idx: f(((idx[0][1], idx[0][0]), idx[1])), "float"), None)

    canaries = {"lag i+j": spec_canary(_wrong_lag), "channel-major rows": spec_canary(_wrong_transposed)}


@register
class build_hank_cov_R(_BuildHank):
    name = "cov_R"
    method = "cov_R"

    def spec(self, c, Y, Yref, br, method, calc_unc=False, nb=100):
        return (hank_cov_R(Y, Yref, br), None)

    def check(self, c, pre, post, outcome):
        if outcome[0] != "return" or not isinstance(outcome[1], tuple) or len(outcome[1]) != 2:
            return self.compare_outcome(c, outcome, ("return", (None, None)))
        H, T = outcome[1]
        c.oblige("post", "T-is-None", T is None)
        check_weighted(c, H, unit_hank(pre["Y"], pre["Yref"], pre["br"], "cov_R"))

    def _wrong_sign(self, c, Y, Yref, br, method, calc_unc=False, nb=100):
        """canary: ascending lags along the block row (lag br - i + j)"""
        l, r, Ndat, p, q, Nn = dims(Y, Yref, br)
        H = hank_cov_R(Y, Yref, br)
        f = H.snapshot_fn()
        return (Arr(H.axes, lambda idx: f(((idx[0][0], idx[0][1]), (sym.sub(p, idx[1][0]), idx[1][1]))), "float"), None)

    canaries = {"lags ascending along a block row": spec_canary(_wrong_sign)}


@register
class build_hank_dat(_BuildHank):
    term_level = True      # cells / terms over opaque kernels (qr, solve): see runner

    name = "dat"
    method = "dat"

    def extra_pre(self, c, l, r, Nd, br):
        # enough samples for the thin QR factor to be (r*q + l*(p+1)) square: N - 1 >= r*q + l*(p+1)
        c.assume(Nd - 2 * br - 2 >= (r + l) * (br + 1))

    def spec(self, c, Y, Yref, br, method, calc_unc=False, nb=100):
        return (hank_dat(Y, Yref, br), None)

    def _wrong_split(self, c, Y, Yref, br, method, calc_unc=False, nb=100):
        """canary: split point one reference block too early"""
        l, r, Ndat, p, q, Nn = dims(Y, Yref, br)
        Yf, Yp = future_past(Y, Yref, br)
        R21 = N.transpose(M.qr(N.transpose(N.vstack((Yp, Yf))), mode="r"))
        k = sym.mul(r, p)
        return (N.getitem(R21, (slice(k, None), slice(None, k))), None)

    canaries = {"split one block early": spec_canary(_wrong_split)}


@register
class build_hank_errors(Contract):
    """raising paths: uncertainty only with cov_mm; unknown method"""
    qualname = "pyoma2.functions.ssi.build_hank"
    name = "errors"
    props = ("C12",)
    callable_modular = False

    def setup(self, c):
        l = S.integer("l", lo=1)
        r = S.integer("r", lo=1)
        Nd = S.integer("Ndat", lo=4)
        br = S.integer("br", lo=1)
        c.assume(Nd - 2 * br - 1 >= 2)
        which = S.integer("which", lo=0, hi=2)
        if c.branch(which == 0):
            method, cu = "cov_R", True
        elif c.branch(which == 1):
            method, cu = "dat", True
        else:
            method, cu = "YfYp", False
        return {"Y": S.array("Y", "float", shape=(l, Nd), finite=True), "Yref": S.array("Yref", "float", shape=(r, Nd), finite=True),
                "br": br, "method": method, "calc_unc": cu, "nb": 100}

    def spec(self, c, Y, Yref, br, method, calc_unc, nb):
        raise PyRaise("AttributeError", "")


# ----------------------------------------------------------------------------------------------------------------------
# complex-valued records: the contracts above speak about real arrays (the verifier's "float" kind).  Bilinearity over the complex
# numbers reduces the complex case to the real one; that reduction is searched natively on every run (labelled bounded)
# ----------------------------------------------------------------------------------------------------------------------

@register
class build_hank_complex(Contract):
    qualname = "pyoma2.functions.ssi.build_hank"
    props = ("C12",)
    name = "complex records (covariance methods)"
    bounded_only = True
    callable_modular = False
    generic_replay = False
    bounded_reason = ("unsupported: the covariance-method contracts are stated and proved for real-valued records; for complex records the statement "
                      "'bilinear in (data, reference data)' is reduced to the real case by expansion over real and imaginary parts")
    bounded_bound = ("1-4 channels, reference subsets in any order, 1-5 block rows, record lengths up to 90, methods cov_mm and cov_R: "
                     "H(Y1 + iY2, R1 + iR2) = H(Y1,R1) - H(Y2,R2) + i (H(Y1,R2) + H(Y2,R1)) to 1e-9")
    bounded_driver = {"driver": "c12_complex", "inputs": {"trials": 24, "trials_thorough": 200}}

