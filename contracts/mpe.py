"""C11: modal parameter extraction at an explicit order (one order / one order per mode) - ssi.SSI_mpe and
plscf.pLSCF_mpe.  The loops append conditionally to several lists in lockstep; their closed form uses the enumeration
of the kept requests (list lemma A7: cnt/req)."""
import z3

from pyvc import npmodel as N
from pyvc import spec as S
from pyvc import sym
from pyvc.contract import Contract, register, spec_canary
from pyvc.core import PyRaise, cur
from pyvc.interp import LoopSpec, assert_same
from pyvc.sym import And_, Arr, F, Implies_, NAN, Not_, Or_, Seq, zi

I = z3.IntSort()
ATOL = 1e-8


class Kept:
    """enumeration of the requests j < k that are kept (A7): cnt(k) = #{j < k : keep(j)}, req(p) = the p-th kept j"""

    def __init__(self, keep):
        c = cur()
        self.keep = keep
        self.cnt = z3.Function(c.fresh_name("cnt"), I, I)
        self.req = z3.Function(c.fresh_name("req"), I, I)
        c.fact(self.cnt(0) == 0)

    def count(self, k):
        """cnt(k) with its unfolding cnt(k) = cnt(k-1) + [keep(k-1)]"""
        c = cur()
        k = zi(k)
        v = self.cnt(k)
        c.fact(v >= 0)
        if z3.is_int_value(k) and k.as_long() <= 0:
            return v
        km = z3.simplify(k - 1)
        c.fact(z3.Implies(k >= 1, v == self.cnt(km) + z3.If(sym.zb(self.keep(km)), 1, 0)))
        c.fact(self.cnt(km) >= 0)
        return v

    def request(self, p, k):
        """req(p) for p < cnt(k): a kept request before k, the p-th one; plus the injectivity instances (A7)"""
        c = cur()
        p, k = zi(p), zi(k)
        j = self.req(p)
        inr = z3.And(p >= 0, p < self.cnt(k))
        c.fact(z3.Implies(inr, z3.And(j >= 0, j < k, self.cnt(j) == p)))
        c.fact(z3.Implies(inr, sym.zb(self.keep(j))))
        # two kept requests with the same rank coincide (instances against k-1 and k)
        for other in (z3.simplify(k - 1), k):
            c.fact(z3.Implies(z3.And(inr, other >= 0, sym.zb(self.keep(other)), self.cnt(other) == p), j == other))
        return j


def extraction(Fn, Xi, Phi, freq_ref, order_of, rtol, covs, nearest_to_request=True):
    """the property's reading: request j is served from column order_of(j); sel = the retained pole of that column nearest
    to f_j; it is returned only if |pole - f_j| <= atol + rtol |f_j| (tolerance relative to THAT requested frequency);
    frequency, damping, shape and covariances all come from that one pole"""
    c = cur()
    ff = Fn.snapshot_fn()

    def near(j):
        if not isinstance(j, int):
            N.ground(zi(j), dom="request")
        col = order_of(j)
        colarr = Arr((Fn.axes[0],), lambda idx: ff((idx[0], (col,))), "float")
        c.numpy_mode += 1
        try:
            # total form: no raise and no fork inside the specification; the precondition (every addressed column
            # holds a retained pole) makes the all-NaN case unreachable for requests in range
            return N.nanargmin_total(N.abs_(N.subtract(colarr, freq_ref.get(j))))[1]
        finally:
            c.numpy_mode -= 1

    def keep(j):
        c.numpy_mode += 1
        try:
            f = Fn.get(near(j), order_of(j))
            fj = sym.toF(freq_ref.get(j))
            return sym.le(sym.abs_(sym.sub(f, fj)), sym.add(sym.toF(ATOL), sym.mul(rtol, sym.abs_(fj))))
        finally:
            c.numpy_mode -= 1
    K = c.memo.get("ghost:kept")
    if K is None:
        K = Kept(keep)
        c.memo["ghost:kept"] = K
    else:
        K.keep = keep

    def lists(k):
        m = K.count(k)
        src = lambda p: K.request(p, k)      # noqa: E731
        out = {"sel_freq": Seq(m, lambda p: Fn.get(near(src(p)), order_of(src(p)))),
               "sel_xi": Seq(m, lambda p: Xi.get(near(src(p)), order_of(src(p)))),
               "sel_phi": Seq(m, lambda p: N.getitem(Phi, (near(src(p)), order_of(src(p)), slice(None))))}
        if covs is not None:
            Fc, Xc, Pc = covs
            out["sel_freq_cov"] = Seq(m, lambda p: Fc.get(near(src(p)), order_of(src(p))))
            out["sel_xi_cov"] = Seq(m, lambda p: Xc.get(near(src(p)), order_of(src(p))))
            out["sel_phi_cov"] = Seq(m, lambda p: N.getitem(Pc, (near(src(p)), order_of(src(p)), slice(None))))
        return out
    return lists, K


def results(lists_n, with_cov):
    Fn = N.reshape(N.asarray(lists_n["sel_freq"]), -1)
    Phi = N.transpose(N.asarray(lists_n["sel_phi"]))
    Xi = N.asarray(lists_n["sel_xi"])
    if with_cov:
        return Fn, Xi, Phi, N.reshape(N.asarray(lists_n["sel_freq_cov"]), -1), N.asarray(lists_n["sel_xi_cov"]), \
            N.transpose(N.asarray(lists_n["sel_phi_cov"]))
    return Fn, Xi, Phi, None, None, None


class _Mpe(Contract):
    props = ("C11",)
    generic_replay = False
    bounded_driver = {"driver": "c11_mpe", "inputs": {}}
    variant = "int"       # "int" | "list"
    with_cov = False
    fname = "freq_ref"

    def witness(self, o):
        return dict(self.bounded_driver)

    def tables(self, c):
        n0 = S.integer("n_rows", lo=1)
        n1 = S.integer("n_cols", lo=1)
        L = S.integer("Nch", lo=1)
        nreq = S.integer("n_req", lo=1)
        Fn = S.array("Fn_pol", "float", shape=(n0, n1))
        Xi = S.array("Xi_pol", "float", shape=(n0, n1))
        Phi = S.array("Phi_pol", "complex", shape=(n0, n1, L))
        fr = z3.Function(c.fresh_name("freq_ref"), I, z3.RealSort())
        freq_ref = Seq(nreq, lambda j: F(False, fr(zi(j)), py=True), label="freq_ref")
        rtol = S.real("rtol", pos=True)
        if self.variant == "int":
            order = S.integer("order", lo=0)
            c.assume(order < n1)
            order_of = lambda j: order      # noqa: E731
        else:
            of = z3.Function(c.fresh_name("order"), I, I)

            def order_of(j):
                v = of(zi(j))
                c.fact(z3.And(v >= 0, v < n1))
                return v
            order = Seq(nreq, order_of, label="order")
        # precondition of the quantifier: the addressed column holds at least one retained pole
        N.add_qfact(nreq, lambda j: Not_(N.all_(N.isnan(Arr((Fn.axes[0],), lambda idx, j=j: Fn.cell((idx[0], (order_of(j),))), "float")))),
                    "column holds a retained pole", dom="request")
        covs = None
        if self.with_cov:
            covs = (S.array("Fn_cov", "float", shape=(n0, n1)), S.array("Xi_cov", "float", shape=(n0, n1)),
                    S.array("Phi_cov", "float", shape=(n0, n1, L)))
        # the specification speaks about the ARGUMENTS: locals of the same name may be rebound by the code
        c.memo["ghost:mpe"] = {"order_of": order_of, "Fn_pol": Fn, "Xi_pol": Xi, "Phi_pol": Phi, "freq_ref": freq_ref, "rtol": rtol,
                               "order": order, "covs": covs}
        return Fn, Xi, Phi, freq_ref, order, rtol, covs

    def order_fn(self, c, order):
        return c.memo["ghost:mpe"]["order_of"]


def _ssi_loop(variant, with_cov):
    def state(k, pre, it):
        c = cur()
        g = c.memo["ghost:mpe"]
        order_of = g["order_of"]
        covs = g["covs"] if with_cov else None
        lists, K = extraction(g["Fn_pol"], g["Xi_pol"], g["Phi_pol"], g["freq_ref"], order_of, g["rtol"], covs)
        if not isinstance(k, int):
            N.ground(zi(k), dom="request")
        st = lists(k)
        if variant == "int":
            st["order_out"] = g["order"]
        else:
            st["order_out"] = N.asarray(g["order"])
        return st
    return LoopSpec(state)


def _xi_is_fn(me, c, **pre):
    r = me.spec(c, **pre)
    return (r[0], r[0]) + tuple(r[2:])


class _SSI_mpe(_Mpe):
    qualname = "pyoma2.functions.ssi.SSI_mpe"
    props = ("C11", "C01")      # C01's last step ("mpe at order 2m returns f_k, xi_k, shapes") is this extraction
    canaries = {"damping taken from the frequency table": spec_canary(_xi_is_fn)}

    def setup(self, c):
        Fn, Xi, Phi, freq_ref, order, rtol, covs = self.tables(c)
        a = {"freq_ref": freq_ref, "Fn_pol": Fn, "Xi_pol": Xi, "Phi_pol": Phi, "order": order, "Lab": None, "rtol": rtol,
             "Fn_cov": None, "Xi_cov": None, "Phi_cov": None}
        if covs is not None:
            a["Fn_cov"], a["Xi_cov"], a["Phi_cov"] = covs
        return a

    def spec(me, c, freq_ref, Fn_pol, Xi_pol, Phi_pol, order, Lab=None, rtol=5e-2, Fn_cov=None, Xi_cov=None, Phi_cov=None):
        order_of = c.memo["ghost:mpe"]["order_of"]
        covs = (Fn_cov, Xi_cov, Phi_cov) if Fn_cov is not None else None
        lists, K = extraction(Fn_pol, Xi_pol, Phi_pol, freq_ref, order_of, rtol, covs)
        Fn, Xi, Phi, Fc, Xc, Pc = results(lists(freq_ref.length), covs is not None)
        order_out = order if me.variant == "int" else N.asarray(order)
        return (Fn, Xi, Phi, order_out, Fc, Xc, Pc)


@register
class SSI_mpe_int(_SSI_mpe):
    name = "one order"
    variant = "int"
    loops = {3: _ssi_loop("int", False)}


@register
class SSI_mpe_list(_SSI_mpe):
    name = "order per mode"
    variant = "list"
    loops = {4: _ssi_loop("list", False)}


@register
class SSI_mpe_int_cov(_SSI_mpe):
    name = "one order, covariances"
    variant = "int"
    with_cov = True
    canaries = {}       # the same canary runs on the variant without covariances
    loops = {3: _ssi_loop("int", True)}


@register
class SSI_mpe_list_cov(_SSI_mpe):
    """one order per mode WITH covariance tables: a request that is skipped (no pole within tolerance at its order) contributes nothing to
    any list - the covariance lists stay paired with the frequency list"""
    name = "order per mode, covariances"
    props = ("C11",)
    variant = "list"
    with_cov = True
    canaries = {}
    loops = {4: _ssi_loop("list", True)}


# ---------------------------------------------------------------------------------------------------------------------
# plscf.pLSCF_mpe: one loop over the requests with the order kind tested inside; order_out starts as np.empty(n_req)
# ---------------------------------------------------------------------------------------------------------------------

def _plscf_loop(variant):
    def state(k, pre, it):
        c = cur()
        g = c.memo["ghost:mpe"]
        order_of = g["order_of"]
        if not isinstance(k, int):
            N.ground(zi(k), dom="request")
        lists, K = extraction(g["Fn_pol"], g["Xi_pol"], g["Phi_pol"], g["freq_ref"], order_of, g["rtol"], None)
        ls = lists(k)
        st = {"sel_freq1": ls["sel_freq"], "sel_xi": ls["sel_xi"], "sel_phi": ls["sel_phi"]}
        if variant == "int":
            # rebound to the order at every request (n_req >= 1); the allocation survives only before the first one
            st["order_out"] = Lazy_order_out(k, pre["order_out"], g["order"])
        else:
            e0 = pre["order_out"].snapshot_fn()
            od = g["order"]
            st["order_out"] = Arr(pre["order_out"].axes, lambda idx: sym.ite(zi(idx[0][0]) < zi(k), sym.cast(od.get(idx[0][0]), "float"), e0(idx)), "float")
        return st
    return LoopSpec(state)


def Lazy_order_out(k, empty, order):
    if isinstance(k, int):
        return empty if k == 0 else order
    c = cur()
    return order if c.branch(zi(k) >= 1) else empty


class _pLSCF_mpe(_Mpe):
    qualname = "pyoma2.functions.plscf.pLSCF_mpe"
    canaries = {"damping taken from the frequency table": spec_canary(_xi_is_fn)}

    def setup(self, c):
        Fn, Xi, Phi, freq_ref, order, rtol, covs = self.tables(c)
        return {"sel_freq": freq_ref, "Fn_pol": Fn, "Xi_pol": Xi, "Phi_pol": Phi, "order": order, "Lab": None,
                "deltaf": S.real("deltaf", pos=True), "rtol": rtol}

    def spec(me, c, sel_freq, Fn_pol, Xi_pol, Phi_pol, order, Lab=None, deltaf=0.05, rtol=1e-2):
        order_of = c.memo["ghost:mpe"]["order_of"]
        lists, K = extraction(Fn_pol, Xi_pol, Phi_pol, sel_freq, order_of, rtol, None)
        ls = lists(sel_freq.length)
        Fn = N.asarray(ls["sel_freq"])
        Phi = N.transpose(N.asarray(ls["sel_phi"]))
        Xi = N.asarray(ls["sel_xi"])
        order_out = order if me.variant == "int" else N.astype(N.asarray(order), "float")
        return (Fn, Xi, Phi, order_out)


@register
class pLSCF_mpe_int(_pLSCF_mpe):
    name = "one order"
    variant = "int"
    loops = {0: _plscf_loop("int")}


@register
class pLSCF_mpe_list(_pLSCF_mpe):
    name = "order per mode"
    variant = "list"
    loops = {0: _plscf_loop("list")}


# ---------------------------------------------------------------------------------------------------------------------
# data flow through the algorithm classes: mpe hands the stored pole tables to the extraction routine and stores
# every returned parameter in the result record under its own name
# ---------------------------------------------------------------------------------------------------------------------
from pyvc.sym import Obj, Opaque   # noqa: E402


class _MpeHavoc(Contract):
    name = "havoc-args"
    verify_body = False
    outs = ()

    def apply(self, interp, args, kwargs):
        c = cur()
        fi = interp.repo.function(self.qualname)
        c.memo["ghost:mpe_call"] = interp.bind(fi, args, kwargs, None)
        return tuple(Opaque(o) for o in self.outs)


@register
class SSI_mpe_havoc(_MpeHavoc):
    qualname = "pyoma2.functions.ssi.SSI_mpe"
    outs = ("Fn_out", "Xi_out", "Phi_out", "order_out", "Fn_cov_out", "Xi_cov_out", "Phi_cov_out")


@register
class pLSCF_mpe_havoc(_MpeHavoc):
    qualname = "pyoma2.functions.plscf.pLSCF_mpe"
    outs = ("Fn_out", "Xi_out", "Phi_out", "order_out")


class _MpeMethod(Contract):
    props = ("C11",)
    bounded_driver = {"driver": "flow_mpe", "inputs": {}}

    def witness(self, o):
        return dict(self.bounded_driver)
    generic_replay = False
    callable_modular = False
    compare_state = False
    result_cls = ""
    tables_in = {}        # extraction argument -> result field
    stored = {}           # result field -> returned value tag
    freq_arg = "freq_ref"

    def setup(self, c):
        fields = {k: Opaque(k) for k in ("Fn_poles", "Xi_poles", "Phi_poles", "Lab", "Fn_poles_cov", "Xi_poles_cov", "Phi_poles_cov", "Lambds")}
        fields.update({k: None for k in self.stored})
        res = Obj(self.result_cls, fields)
        rp = Obj("rp", {"sel_freq": None, "order_in": None, "rtol": None})
        return {"self": Obj(self.qualname.rsplit(".", 1)[0], {"result": res, "run_params": rp, "name": "a"}),
                "sel_freq": Opaque("sel_freq"), "order": Opaque("order"), "rtol": S.real("rtol", pos=True)}

    def check(self, c, pre, post, outcome):
        if outcome[0] != "return":
            c.oblige("post", "no-exception", False, {"raised": outcome[1]})
            return
        g = c.memo.get("ghost:mpe_call")
        c.oblige("post", "extraction-called", g is not None)
        if g is None:
            return
        R0 = pre["self"].fields["result"].fields
        R1 = post["self"].fields["result"].fields
        for arg, fld in self.tables_in.items():
            c.oblige("post", f"{arg} = stored {fld}", g.get(arg) is R0[fld])
        c.oblige("post", "requested frequencies forwarded", g[self.freq_arg] is pre["sel_freq"])
        c.oblige("post", "order forwarded", g["order"] is pre["order"])
        c.oblige("post", "rtol forwarded", sym.same(g["rtol"], pre["rtol"]))
        for fld, tag in self.stored.items():
            v = R1.get(fld)
            c.oblige("post", f"result.{fld} = returned {tag}", isinstance(v, Opaque) and v.tag == tag)
        for fld in R0:
            if fld not in self.stored:
                c.oblige("frame", f"result.{fld} unchanged", R1.get(fld) is R0[fld])
        rp = post["self"].fields["run_params"].fields
        c.oblige("post", "run_params.sel_freq", rp["sel_freq"] is pre["sel_freq"])
        c.oblige("post", "run_params.order_in", rp["order_in"] is pre["order"])
        c.oblige("post", "run_params.rtol", sym.same(rp["rtol"], pre["rtol"]))


@register
class SSI_mpe_method(_MpeMethod):
    qualname = "pyoma2.algorithms.ssi.SSIdat.mpe"
    result_cls = "pyoma2.algorithms.data.result.SSIResult"
    use = {"pyoma2.functions.ssi.SSI_mpe": "havoc-args"}
    tables_in = {"Fn_pol": "Fn_poles", "Xi_pol": "Xi_poles", "Phi_pol": "Phi_poles", "Lab": "Lab",
                 "Fn_cov": "Fn_poles_cov", "Xi_cov": "Xi_poles_cov", "Phi_cov": "Phi_poles_cov"}
    stored = {"Fn": "Fn_out", "Xi": "Xi_out", "Phi": "Phi_out", "order_out": "order_out",
              "Fn_cov": "Fn_cov_out", "Xi_cov": "Xi_cov_out", "Phi_cov": "Phi_cov_out"}


@register
class pLSCF_mpe_method(_MpeMethod):
    qualname = "pyoma2.algorithms.plscf.pLSCF.mpe"
    result_cls = "pyoma2.algorithms.data.result.pLSCFResult"
    use = {"pyoma2.functions.plscf.pLSCF_mpe": "havoc-args"}
    freq_arg = "sel_freq"
    tables_in = {"Fn_pol": "Fn_poles", "Xi_pol": "Xi_poles", "Phi_pol": "Phi_poles", "Lab": "Lab"}
    stored = {"Fn": "Fn_out", "Xi": "Xi_out", "Phi": "Phi_out", "order_out": "order_out"}


# ---------------------------------------------------------------------------------------------------------------------
# order='find_min' (automatic order selection): outside the verifier's reach - np.unique of a data-dependent selection,
# an accumulating band filter and an early-exit search over the orders.  A bounded search on the real functions stands
# in; it is labelled bounded and never counted as proved.
# ---------------------------------------------------------------------------------------------------------------------

class _FindMin(Contract):
    props = ("C11",)
    name = "find_min"
    bounded_only = True
    callable_modular = False
    generic_replay = False
    bounded_reason = ("unsupported: np.unique over a data-dependent selection, accumulation over the tolerance bands and an early-exit "
                      "search over the orders are outside the modelled subset")
    bounded_bound = ("1-4 requested frequencies with non-overlapping bands, 3-8 orders, 2-9 rows, modes jittered inside/outside the band or "
                     "missing, spurious and unstable poles, rtol in {0.01, 0.05, 0.1}")


@register
class SSI_mpe_findmin(_FindMin):
    qualname = "pyoma2.functions.ssi.SSI_mpe"
    bounded_driver = {"driver": "c11_mpe", "inputs": {"which": "ssi_findmin", "trials": 600, "trials_thorough": 6000}}


@register
class pLSCF_mpe_findmin(_FindMin):
    qualname = "pyoma2.functions.plscf.pLSCF_mpe"
    bounded_driver = {"driver": "c11_plscf_findmin", "inputs": {"trials": 300, "trials_thorough": 3000}}
