"""Hand-over contracts of the algorithm classes' run() methods (C01, C12, C03, C05): the kernels are havoc'ed recorders (their own
contracts are proved elsewhere); what is proved here is WHAT run() hands them - data orientation, the reference rows in the listed
order, block rows, method, orders, dt - and that what they return is stored under its own name.  These are helper contracts between
the properties (stated over the kernels' arguments) and the code that calls the kernels; the sign convention of pLSCF's basis
function per spectral estimator is taken from the source."""
import z3

from pyvc import npmodel as N
from pyvc import spec as S
from pyvc import sym
from pyvc.contract import Contract, register
from pyvc.interp import assert_same
from pyvc.sym import And_, Arr, Obj, zi

from .algos_run import _RunC09, plscf_algo, ssi_algo


class _RunSSIArgs(Contract):
    callable_modular = False
    generic_replay = False
    props = ("C01", "C12", "C17")
    prop_clauses = {"C17": lambda oid: "/post.unc: " in oid or "factor T" in oid or "/post.calc_unc" in oid or "/post.nb" in oid or "-called" in oid
                    or "no-exception" in oid}
    use = dict(_RunC09.use)
    cls = "SSIdat"
    n_refs = 0          # 0: ref_ind is None
    method = None       # None: the class's own method
    bounded_driver = {"driver": "flow_ssi", "inputs": {}}

    def witness(self, o):
        return dict(self.bounded_driver)

    def setup(self, c):
        a = ssi_algo(c, self.cls)
        rp = a.fields["run_params"].fields
        rp["method"] = self.method
        rp["step"] = 1          # scope: every model order (no property speaks about other steps)
        if self.n_refs:
            nch = a.fields["data"].shape[1]
            refs = [S.integer(f"ref{b}", lo=0) for b in range(self.n_refs)]
            for r_ in refs:
                c.assume(r_ < nch)
            rp["ref_ind"] = refs
        return {"self": a}

    def check(self, c, pre, post, outcome):
        if outcome[0] != "return":
            c.oblige("post", "no-exception", False, {"raised": outcome[1]})
            return
        slf = pre["self"].fields
        rp = slf["run_params"].fields
        data = slf["data"]
        g = c.memo.get("ghost:build_hank")
        c.oblige("post", "build_hank-called", g is not None)
        if g is None:
            return
        Yw = N.transpose(data)
        assert_same("Y = data.T (channels x samples)", g["Y"], Yw, "post")
        if self.n_refs:
            refs = rp["ref_ind"]
            df = data.snapshot_fn()
            want = Arr(((len(refs),), Yw.axes[1]), lambda idx: sym.Lazy.select_list([df((idx[1], (r_,))) for r_ in refs], idx[0][0])
                       if hasattr(sym.Lazy, "select_list") else _sel(refs, df, idx), "float")
            assert_same("Yref = the listed reference channels, in the listed order", g["Yref"], want, "post")
        else:
            assert_same("Yref = all channels", g["Yref"], Yw, "post")
        c.oblige("post", "br", sym.eq(g["br"], rp["br"]))
        if self.method is not None:
            c.oblige("post", "method = the user's Hankel method", g["method"] == self.method)
        else:
            c.oblige("post", "method = the class's own Hankel method", g["method"] == ("dat" if self.cls == "SSIdat" else "cov_mm"))
        c.oblige("post", "calc_unc", g["calc_unc"] is rp["calc_unc"] or sym.same(g["calc_unc"], rp["calc_unc"]))
        c.oblige("post", "nb", sym.eq(g["nb"], rp["nb"]))
        f = c.memo.get("ghost:SSI_fast")
        c.oblige("post", "SSI_fast-called", f is not None)
        if f is None:
            return
        c.oblige("post", "SSI_fast receives build_hank's H", f["H"] is g["H_out"])
        c.oblige("post", "SSI_fast: br / ordmax", And_(sym.eq(f["br"], rp["br"]), sym.eq(f["ordmax"], rp["ordmax"])))
        c.oblige("post", "SSI_fast receives build_hank's factor T", f["T"] is g["T_out"])
        # uncertainty chain (C17): the factor, the switch and the block count reach SSI_fast; its four sensitivity matrices and the switch
        # reach SSI_poles; what SSI_poles reports as variances is what the run stores (the hard criteria only blank entries: C09)
        c.oblige("post", "unc: SSI_fast receives the run's calc_unc", f["calc_unc"] is rp["calc_unc"] or sym.same(f["calc_unc"], rp["calc_unc"]))
        c.oblige("post", "unc: SSI_fast receives the run's nb", sym.eq(f["nb"], rp["nb"]))
        p_ = c.memo.get("ghost:SSI_poles")
        c.oblige("post", "SSI_poles-called", p_ is not None)
        if p_ is None:
            return
        c.oblige("post", "SSI_poles receives SSI_fast's Obs, A, C", all(isinstance(p_[k], sym.Opaque) and p_[k].tag == t for k, t in (("Obs", "Obs"), ("AA", "A"), ("CC", "C"))))
        c.oblige("post", "SSI_poles: dt = the algorithm's dt", sym.same(p_["dt"], slf["dt"]))
        c.oblige("post", "SSI_poles: ordmax", sym.eq(p_["ordmax"], rp["ordmax"]))
        c.oblige("post", "unc: SSI_poles receives the run's calc_unc", p_["calc_unc"] is rp["calc_unc"] or sym.same(p_["calc_unc"], rp["calc_unc"]))
        c.oblige("post", "unc: SSI_poles receives SSI_fast's Q1, Q2, Q3, Q4 in this order",
                 all(isinstance(q, sym.Opaque) and q.tag == t for q, t in zip(p_["Q"], ("Q1", "Q2", "Q3", "Q4"))), {"Q": str(p_["Q"])[:120]})
        R = outcome[1].fields
        c.oblige("post", "result.H / Obs / A / C are the kernels' outputs", R.get("H") is g["H_out"] and all(
            isinstance(R.get(k), sym.Opaque) and R[k].tag == k for k in ("Obs", "A", "C")))


def _sel(refs, df, idx):
    b = idx[0][0]
    v = df((idx[1], (refs[-1],)))
    for k in range(len(refs) - 2, -1, -1):
        v = sym.ite(sym.eq(b, k), df((idx[1], (refs[k],))), v)
    return v


def _variant(cls, n_refs, method, tag):
    @register
    class V(_RunSSIArgs):
        qualname = "pyoma2.algorithms.ssi.SSIdat.run"          # (SSIcov inherits run(); the receiver's class decides `self.method`)
        name = f"hankel-args, {cls}, {tag}"
    V.cls, V.n_refs, V.method = cls, n_refs, method
    V.__name__ = f"{cls}_run_args_{n_refs}_{method}"
    return V


_variant("SSIdat", 0, None, "all channels as references")
_variant("SSIdat", 2, None, "two listed references")
_variant("SSIdat", 3, "cov_R", "three listed references, method cov_R")
_variant("SSIcov", 2, "cov_mm", "two listed references, method cov_mm")
_variant("SSIcov", 0, None, "all channels as references")


class _RunSSIMSArgs(Contract):
    callable_modular = False
    generic_replay = False
    props = ("C03",)
    use = dict(_RunC09.use)
    cls = "SSIdat_MS"
    method = None
    bounded_driver = {"driver": "flow_ssi", "inputs": {}}

    def witness(self, o):
        return dict(self.bounded_driver)

    def setup(self, c):
        a = ssi_algo(c, self.cls, multi=True)
        a.fields["run_params"].fields["method"] = self.method
        a.fields["run_params"].fields["step"] = 1
        return {"self": a}

    def check(self, c, pre, post, outcome):
        if outcome[0] != "return":
            c.oblige("post", "no-exception", False, {"raised": outcome[1]})
            return
        slf = pre["self"].fields
        rp = slf["run_params"].fields
        g = c.memo.get("ghost:SSI_multi_setup")
        c.oblige("post", "SSI_multi_setup-called", g is not None)
        if g is None:
            return
        c.oblige("post", "Y = the split datasets bound to the algorithm", g["Y"] is post["self"].fields["data"])
        c.oblige("post", "fs", sym.same(g["fs"], slf["fs"]))
        c.oblige("post", "br / ordmax", And_(sym.eq(g["br"], rp["br"]), sym.eq(g["ordmax"], rp["ordmax"])))
        if self.method is not None:
            c.oblige("post", "method = the user's Hankel method", g["method_hank"] == self.method)
        else:
            c.oblige("post", "method = the class's own Hankel method", g["method_hank"] == ("dat" if self.cls == "SSIdat_MS" else "cov_mm"))
        p_ = c.memo.get("ghost:SSI_poles")
        c.oblige("post", "SSI_poles-called", p_ is not None)
        if p_ is None:
            return
        c.oblige("post", "SSI_poles receives SSI_multi_setup's Obs, A, C", all(isinstance(p_[k], sym.Opaque) and p_[k].tag == t for k, t in (("Obs", "Obs"), ("AA", "A"), ("CC", "C"))))
        c.oblige("post", "SSI_poles: dt = the algorithm's dt", sym.same(p_["dt"], slf["dt"]))
        c.oblige("post", "SSI_poles: ordmax", sym.eq(p_["ordmax"], rp["ordmax"]))


def _ms(cls, method, tag):
    @register
    class V(_RunSSIMSArgs):
        qualname = "pyoma2.algorithms.ssi.SSIdat_MS.run"
        name = f"multi-setup args, {cls}, {tag}"
    V.cls, V.method = cls, method
    V.__name__ = f"{cls}_run_args_{method}"
    return V


_ms("SSIdat_MS", None, "own method")
_ms("SSIcov_MS", None, "own method")
_ms("SSIcov_MS", "cov_R", "method cov_R")


class _RunPLSCFArgs(Contract):
    callable_modular = False
    generic_replay = False
    props = ("C05",)
    use = dict(_RunC09.use)
    cls = "pLSCF"
    multi = False
    bounded_driver = {"driver": "flow_plscf", "inputs": {}}

    def witness(self, o):
        return dict(self.bounded_driver)

    def setup(self, c):
        return {"self": plscf_algo(c, self.cls, multi=self.multi)}

    def check(self, c, pre, post, outcome):
        if outcome[0] != "return":
            c.oblige("post", "no-exception", False, {"raised": outcome[1]})
            return
        slf = pre["self"].fields
        rp = slf["run_params"].fields
        g = c.memo.get("ghost:pLSCF")
        c.oblige("post", "pLSCF-called", g is not None)
        if g is None:
            return
        c.oblige("post", "Sy = the estimator's spectral matrix", isinstance(g["Sy"], sym.Opaque) and g["Sy"].tag == "Sy")
        c.oblige("post", "dt = the algorithm's dt", sym.same(g["dt"], slf["dt"]))
        c.oblige("post", "ordmax", sym.eq(g["ordmax"], rp["ordmax"]))
        # the library's convention (source): periodogram spectra are fitted with exp(-i w dt), correlogram (half) spectra with exp(+i w dt)
        want = -1 if rp["method_SD"] == "per" else 1
        sg = g["sgn_basf"]
        c.oblige("post", "basis-function sign belongs to the spectral estimator (per: -1, cor: +1)",
                 (sg == want) if isinstance(sg, (int, float)) else sym.eq(sg, want))
        p_ = c.memo.get("ghost:pLSCF_poles")
        c.oblige("post", "pLSCF_poles-called", p_ is not None)
        if p_ is None:
            return
        c.oblige("post", "pLSCF_poles receives pLSCF's Ad, Bn", all(isinstance(p_[k], sym.Opaque) and p_[k].tag == k for k in ("Ad", "Bn")))
        c.oblige("post", "pLSCF_poles: dt = the algorithm's dt", sym.same(p_["dt"], slf["dt"]))
        c.oblige("post", "pLSCF_poles: estimator and segment length", And_(p_["methodSy"] == rp["method_SD"], sym.eq(p_["nxseg"], rp["nxseg"])))
        R = outcome[1].fields
        c.oblige("post", "result.Ad / Bn are the fitted model", all(isinstance(R.get(k), sym.Opaque) and R[k].tag == k for k in ("Ad", "Bn")))


@register
class pLSCF_run_hand(_RunPLSCFArgs):
    qualname = "pyoma2.algorithms.plscf.pLSCF.run"
    name = "estimator-args"


@register
class pLSCF_MS_run_hand(_RunPLSCFArgs):
    qualname = "pyoma2.algorithms.plscf.pLSCF_MS.run"
    name = "estimator-args"
    cls = "pLSCF_MS"
    multi = True
