"""C18: mode-shape indicators gen.MAC, gen.MCF, gen.MPC, gen.MPD (gen.MSF: contracts/gen_merge.py).
Functional contracts over lazy sums, proved from the real source, plus the property's clauses as lemma obligations over
the specification functions (ranges, symmetry, invariance under a non-zero complex factor, collinear shapes)."""
import z3

from pyvc import matmodel as MM
from pyvc import models as MD
from pyvc import npmodel as N
from pyvc import spec as S
from pyvc import sym
from pyvc.contract import Contract, register, spec_canary
from pyvc.core import cur
from pyvc.interp import LoopSpec, assert_same
from pyvc.sym import And_, Arr, C, F, Implies_, Not_, Or_, Seq, zi


def col(a, i):
    if a.ndim == 1:
        return a
    f = a.snapshot_fn()
    return Arr((a.axes[0],), lambda idx: f((idx[0], (i,))), a.kind)


def ip(x, y):
    """sesquilinear form sum_n conj(x[n]) * y[n] (lazy sum, expanded into real monomial sums)"""
    fx, fy = x.snapshot_fn(), y.snapshot_fn()
    return sym.toC(N.make_sum(x.axes[0], lambda t: sym.mul(sym.conj_(fx((tuple(t),))), fy((tuple(t),)))))


def scaled(x, a, b):
    """(a + i b) * x"""
    f = x.snapshot_fn()
    fac = C(False, a, b)
    return Arr(x.axes, lambda idx: sym.mul(fac, f(idx)), "complex")


def real_vec(name, n):
    return S.array(name, "float", shape=(n,), finite=True)


def cauchy_schwarz(c, x, y, label="A5.viii Cauchy-Schwarz"):
    """trusted lemma instance: |<x, y>|^2 <= <x, x> <y, y>, <x, x> >= 0 (with equality to 0 only for x = 0)"""
    xy, xx, yy = ip(x, y), ip(x, x), ip(y, y)
    c.fact(z3.And(xy.re * xy.re + xy.im * xy.im <= xx.re * yy.re, xx.re >= 0, yy.re >= 0, xx.im == 0, yy.im == 0), heavy=True)
    c.fact(z3.And(xx.re >= 0, yy.re >= 0, xx.im == 0, yy.im == 0))


def mac_value(x, y):
    c = cur()
    c.numpy_mode += 1
    try:
        xy = ip(x, y)
        num = sym.add(sym.mul(xy.re, xy.re) if False else F(xy.nan, xy.re * xy.re + xy.im * xy.im), 0)
        den = sym.mul(ip(x, x), ip(y, y))
        return sym.real_(sym.div(sym.toC(num), den))
    finally:
        c.numpy_mode -= 1


# ----------------------------------------------------------------------------------
# MAC
# ----------------------------------------------------------------------------------

def _mac_state(k_rows, row, k_cols, pre):
    X, A = pre["phi_X"], pre["phi_A"]
    M0 = pre["MAC"].snapshot_fn() if False else None
    base = N.power(N.abs_(N.matmul(N.transpose(N.conj(X)), A)), 2)
    bf = base.snapshot_fn()

    def cell(idx):
        i, j = idx[0][0], idx[1][0]
        done = sym.Or_(sym.lt(i, k_rows), And_(sym.eq(i, row), sym.lt(j, k_cols)) if row is not None else False)
        c = cur()
        c.numpy_mode += 1
        try:
            raw = sym.toC(bf(idx))
            # the normalising product exactly as the code writes it (a @ b * c @ d = ((a @ b) * c) @ d)
            xi_, aj = col(X, i), col(A, j)
            den = N.matmul(N.multiply(N.matmul(N.conj(xi_), xi_), N.conj(aj)), aj)
            return sym.ite(done, sym.div(raw, den), raw)
        finally:
            c.numpy_mode -= 1
    return {"MAC": Arr(base.axes, cell, "complex")}


class _MAC(Contract):
    qualname = "pyoma2.functions.gen.MAC"
    props = ("C18",)
    generic_replay = False
    bounded_driver = {"driver": "c18_indicators", "inputs": {}}
    loops = {0: LoopSpec(lambda k, pre, it: _mac_state(k, None, 0, pre)),
             1: LoopSpec(lambda k, pre, it: _mac_state(pre["i"], pre["i"], k, pre))}

    def witness(self, o):
        return dict(self.bounded_driver)


@register
class MAC_matrix(_MAC):
    name = "matrices"

    def setup(self, c):
        n = S.integer("n_loc", lo=1)
        nx = S.integer("nX", lo=2)
        na = S.integer("nA", lo=1)
        return {"phi_X": S.array("phi_X", "complex", shape=(n, nx), finite=True),
                "phi_A": S.array("phi_A", "complex", shape=(n, na), finite=True)}

    def spec(me, c, phi_X, phi_A):
        """MAC[i, j] = |<x_i, a_j>|^2 / (<x_i, x_i> <a_j, a_j>): one row per shape of the first set, one column per
        shape of the second"""
        nx, na = phi_X.shape[1], phi_A.shape[1]
        return Arr(((nx,), (na,)), lambda idx: mac_value(col(phi_X, idx[0][0]), col(phi_A, idx[1][0])), "float")

    def check(me, c, pre, post, outcome):
        Contract.check(me, c, pre, post, outcome)
        # ---- the property's clauses as lemmas over the specification --------------------------------
        X, A = pre["phi_X"], pre["phi_A"]
        i = S.integer("li", lo=0)
        j = S.integer("lj", lo=0)

        def lemmas():
            x, a = col(X, i), col(A, j)
            cauchy_schwarz(c, x, a)
            xx, aa = ip(x, x), ip(a, a)
            m = mac_value(x, a)
            nz = And_(xx.re > 0, aa.re > 0)
            c.oblige("lemma", "MAC in [0,1] for non-zero shapes", Implies_(nz, And_(Not_(m.nan), m.v >= 0, m.v <= 1)))
            c.oblige("lemma", "MAC(A,X) = MAC(X,A)^T", Implies_(nz, sym.same(mac_value(a, x), m)))
            al, be = z3.Real("alpha"), z3.Real("beta")
            sc = Implies_(And_(nz, Or_(al != 0, be != 0)),
                          And_(sym.same(mac_value(scaled(x, al, be), a), m), sym.same(mac_value(x, scaled(a, al, be)), m)))
            c.oblige("lemma", "MAC invariant under a non-zero complex factor", sc)
            c.oblige("lemma", "MAC = 1 on collinear shapes",
                     Implies_(And_(xx.re > 0, Or_(al != 0, be != 0)), And_(Not_(mac_value(scaled(x, al, be), x).nan),
                                                                        mac_value(scaled(x, al, be), x).v == 1)))
        c.subproof(And_(i < X.shape[1], j < A.shape[1]), lemmas)

    def _transposed(me, c, phi_X, phi_A):
        nx, na = phi_X.shape[1], phi_A.shape[1]
        return Arr(((na,), (nx,)), lambda idx: mac_value(col(phi_X, idx[1][0]), col(phi_A, idx[0][0])), "float")

    def _no_conj(me, c, phi_X, phi_A):
        nx, na = phi_X.shape[1], phi_A.shape[1]

        def v(idx):
            x, a = col(phi_X, idx[0][0]), col(phi_A, idx[1][0])
            c2 = cur()
            c2.numpy_mode += 1
            try:
                fx, fa = x.snapshot_fn(), a.snapshot_fn()
                b = sym.toC(N.make_sum(x.axes[0], lambda t: sym.mul(fx((tuple(t),)), fa((tuple(t),)))))
                return sym.real_(sym.div(sym.toC(F(False, b.re * b.re + b.im * b.im)), sym.mul(ip(x, x), ip(a, a))))
            finally:
                c2.numpy_mode -= 1
        return Arr(((nx,), (na,)), v, "float")

    canaries = {"transposed result": spec_canary(_transposed), "no conjugation": spec_canary(_no_conj)}


@register
class MAC_vectors(_MAC):
    name = "vectors"

    def setup(self, c):
        n = S.integer("n_loc", lo=1)
        return {"phi_X": S.array("phi_X", "complex", shape=(n,), finite=True),
                "phi_A": S.array("phi_A", "complex", shape=(n,), finite=True)}

    def spec(me, c, phi_X, phi_A):
        return mac_value(phi_X, phi_A)


@register
class MAC_vectors_mixed(MAC_vectors):
    """identified (complex) shape against a real reference shape: the dtypes of the two operands differ"""
    name = "vectors, complex against real"

    def setup(self, c):
        n = S.integer("n_loc", lo=1)
        return {"phi_X": S.array("phi_X", "complex", shape=(n,), finite=True),
                "phi_A": S.array("phi_A", "float", shape=(n,), finite=True)}


@register
class MAC_vectors_mixed2(MAC_vectors):
    name = "vectors, real against complex"

    def setup(self, c):
        n = S.integer("n_loc", lo=1)
        return {"phi_X": S.array("phi_X", "float", shape=(n,), finite=True),
                "phi_A": S.array("phi_A", "complex", shape=(n,), finite=True)}


@register
class MAC_vectors_real(MAC_vectors):
    name = "vectors, real"

    def setup(self, c):
        n = S.integer("n_loc", lo=1)
        return {"phi_X": S.array("phi_X", "float", shape=(n,), finite=True),
                "phi_A": S.array("phi_A", "float", shape=(n,), finite=True)}


@register
class MAC_matrix_mixed(MAC_matrix):
    """a complex vector set against a matrix of real reference shapes"""
    name = "matrices, complex against real"
    canaries = {}

    def setup(self, c):
        n = S.integer("n_loc", lo=1)
        nx = S.integer("nX", lo=2)
        na = S.integer("nA", lo=1)
        return {"phi_X": S.array("phi_X", "complex", shape=(n, nx), finite=True),
                "phi_A": S.array("phi_A", "float", shape=(n, na), finite=True)}

    def check(me, c, pre, post, outcome):
        Contract.check(me, c, pre, post, outcome)


# ----------------------------------------------------------------------------------
# MCF
# ----------------------------------------------------------------------------------

def mcf_value(phi):
    c = cur()
    re, im = N.real(phi), N.imag(phi)
    fr, fi = re.snapshot_fn(), im.snapshot_fn()
    c.numpy_mode += 1
    try:
        sxx = N.make_sum(re.axes[0], lambda t: sym.mul(fr((tuple(t),)), fr((tuple(t),))))
        syy = N.make_sum(re.axes[0], lambda t: sym.mul(fi((tuple(t),)), fi((tuple(t),))))
        sxy = N.make_sum(re.axes[0], lambda t: sym.mul(fr((tuple(t),)), fi((tuple(t),))))
        a = sym.sub(sxx, syy)
        num = sym.add(sym.mul(a, a), sym.mul(4, sym.mul(sxy, sxy)))
        s = sym.add(sxx, syy)
        return sym.sub(1, sym.div(num, sym.mul(s, s))), (sym.toF(sxx), sym.toF(syy), sym.toF(sxy))
    finally:
        c.numpy_mode -= 1


@register
class MCF(Contract):
    qualname = "pyoma2.functions.gen.MCF"
    props = ("C18",)
    generic_replay = False
    bounded_driver = {"driver": "c18_indicators", "inputs": {}}
    loops = {0: LoopSpec(lambda k, pre, it: {"mcf": Seq(k, lambda i: mcf_value(col(_as2d(pre["phi"]), i))[0])})}

    def witness(self, o):
        return dict(self.bounded_driver)

    def setup(self, c):
        n = S.integer("n_loc", lo=1)
        if c.branch(S.boolean("one_dimensional")):
            return {"phi": S.array("phi", "complex", shape=(n,), finite=True)}
        return {"phi": S.array("phi", "complex", shape=(n, S.integer("n_modes", lo=1)), finite=True)}

    def spec(me, c, phi):
        """MCF[i] = 1 - ((Sxx - Syy)^2 + 4 Sxy^2) / (Sxx + Syy)^2 over the real/imaginary parts of shape i"""
        m = 1 if phi.ndim == 1 else phi.shape[1]
        p2 = _as2d(phi)
        return Arr(((m,),), lambda idx: mcf_value(col(p2, idx[0][0]))[0], "float")

    def check(me, c, pre, post, outcome):
        Contract.check(me, c, pre, post, outcome)
        phi = _as2d(pre["phi"])
        i = S.integer("li", lo=0)

        def lemmas():
            x = col(phi, i)
            v, (sxx, syy, sxy) = mcf_value(x)
            # Cauchy-Schwarz for the real Gram entries (trusted), non-negativity of sums of squares
            c.fact(z3.And(sxy.v * sxy.v <= sxx.v * syy.v, sxx.v >= 0, syy.v >= 0), heavy=True)
            c.fact(z3.And(sxx.v >= 0, syy.v >= 0))
            nz = sxx.v + syy.v > 0
            c.oblige("lemma", "MCF in [0,1] for non-zero shapes", Implies_(nz, And_(Not_(v.nan), v.v >= 0, v.v <= 1)))
            al, be = z3.Real("alpha"), z3.Real("beta")
            v2, _ = mcf_value(scaled(x, al, be))
            c.oblige("lemma", "MCF invariant under a non-zero complex factor", Implies_(And_(nz, Or_(al != 0, be != 0)), sym.same(v2, v)))
            # collinear: x = (alpha + i beta) * r with r real
            r = real_vec("r", x.shape[0])
            rr = sym.toF(N.make_sum(r.axes[0], lambda t: sym.mul(r.get(t[0]), r.get(t[0]))))
            c.fact(rr.v >= 0)
            v3, _ = mcf_value(scaled(N.astype(r, "complex"), al, be))
            c.oblige("lemma", "MCF = 0 on a complex multiple of a real vector",
                     Implies_(And_(rr.v > 0, Or_(al != 0, be != 0)), And_(Not_(v3.nan), v3.v == 0)))
        c.subproof(i < phi.shape[1], lemmas)


def _as2d(phi):
    return phi if phi.ndim == 2 else N.getitem(phi, (slice(None), None))


# ----------------------------------------------------------------------------------
# MPC
# ----------------------------------------------------------------------------------

def cov_entries(phi):
    S2 = MD.MODELS["numpy.cov"](None, [N.real(phi), N.imag(phi)], {})
    return sym.toF(S2.get(0, 0)), sym.toF(S2.get(1, 1)), sym.toF(S2.get(0, 1))


def mpc_value(phi):
    c = cur()
    cxx, cyy, cxy = cov_entries(phi)
    c.numpy_mode += 1
    try:
        d = sym.sub(cxx, cyy)
        num = sym.add(sym.mul(d, d), sym.mul(4, sym.mul(cxy, cxy)))
        t = sym.add(cxx, cyy)
        return sym.div(num, sym.mul(t, t)), (cxx, cyy, cxy)
    finally:
        c.numpy_mode -= 1


@register
class MPC(Contract):
    qualname = "pyoma2.functions.gen.MPC"
    props = ("C18",)
    generic_replay = False
    bounded_driver = {"driver": "c18_indicators", "inputs": {}}

    def witness(self, o):
        return dict(self.bounded_driver)

    def setup(self, c):
        n = S.integer("n_loc", lo=2)
        return {"phi": S.array("phi", "complex", shape=(n,), finite=True)}

    def spec(me, c, phi):
        """MPC = ((cxx - cyy)^2 + 4 cxy^2) / (cxx + cyy)^2 over the sample covariance of (Re phi, Im phi)
        (= (l1 - l2)^2 / (l1 + l2)^2 for its eigenvalues)"""
        return mpc_value(phi)[0]

    def check(me, c, pre, post, outcome):
        Contract.check(me, c, pre, post, outcome)
        x = pre["phi"]
        v, (cxx, cyy, cxy) = mpc_value(x)
        # trusted: Cauchy-Schwarz / non-negativity for the centred Gram entries
        c.fact(z3.And(cxy.v * cxy.v <= cxx.v * cyy.v, cxx.v >= 0, cyy.v >= 0), heavy=True)
        c.fact(z3.And(cxx.v >= 0, cyy.v >= 0))
        nz = cxx.v + cyy.v > 0
        # staged (the expanded covariance entries make the direct goal slow and load-sensitive): a stand-alone real lemma
        # over abstract entries, used by substitution at the three covariance entries - on its own proof path, so that
        # the instance does not burden the other obligations
        from pyvc import lemmas as L

        def range_lemma():
            Xa, Ya, Za = z3.Real("Xa"), z3.Real("Ya"), z3.Real("Za")
            ratio_a = ((Xa - Ya) * (Xa - Ya) + 4 * Za * Za) / ((Xa + Ya) * (Xa + Ya))
            lem01 = L.universal("Z^2 <= X Y, X, Y >= 0, X + Y > 0  =>  ((X - Y)^2 + 4 Z^2) / (X + Y)^2 in [0,1]", [Xa, Ya, Za],
                                z3.Implies(z3.And(Za * Za <= Xa * Ya, Xa >= 0, Ya >= 0, Xa + Ya > 0), z3.And(ratio_a >= 0, ratio_a <= 1)))
            c.fact(z3.And(cxy.v * cxy.v <= cxx.v * cyy.v, cxx.v >= 0, cyy.v >= 0), heavy=True)
            Xs, Ys, Zs = z3.Real(c.fresh_name("cxx")), z3.Real(c.fresh_name("cyy")), z3.Real(c.fresh_name("cxy"))
            c.fact(z3.And(Xs == cxx.v, Ys == cyy.v, Zs == cxy.v), heavy=True)
            lem01(Xs, Ys, Zs)
            c.oblige("lemma", "MPC in [0,1]", And_(Not_(v.nan), v.v >= 0, v.v <= 1))
        c.subproof(nz, range_lemma)
        al, be = z3.Real("alpha"), z3.Real("beta")
        # invariance under phi -> (alpha + i beta) phi, in two steps:
        # (A) the covariance entries transform as a quadratic form (polynomial identities over the lazy sums)
        _, (pxx, pyy, pxy) = mpc_value(scaled(x, al, be))
        X, Y, Z = cxx.v, cyy.v, cxy.v
        tX = al * al * X - 2 * al * be * Z + be * be * Y
        tY = be * be * X + 2 * al * be * Z + al * al * Y
        tZ = al * be * (X - Y) + (al * al - be * be) * Z
        n1 = x.shape[0]
        c.oblige("lemma", "cov(Re, Im) of (alpha + i beta) phi is the rotated/scaled quadratic form",
                 Implies_(zi(n1) >= 2, And_(pxx.v == tX, pyy.v == tY, pxy.v == tZ)))
        # (B) the ratio is invariant under that transformation (pure real algebra)
        ratio = lambda a_, b_, c_: ((a_ - b_) * (a_ - b_) + 4 * c_ * c_) / ((a_ + b_) * (a_ + b_))     # noqa: E731
        Xr, Yr, Zr = z3.Real("X"), z3.Real("Y"), z3.Real("Z")
        tXr = al * al * Xr - 2 * al * be * Zr + be * be * Yr
        tYr = be * be * Xr + 2 * al * be * Zr + al * al * Yr
        tZr = al * be * (Xr - Yr) + (al * al - be * be) * Zr
        # stand-alone (empty context): pure real algebra, no program symbols
        L.universal("MPC ratio invariant under the rotated/scaled quadratic form", [Xr, Yr, Zr, al, be],
                    z3.Implies(z3.And(Xr + Yr > 0, z3.Or(al != 0, be != 0)), ratio(tXr, tYr, tZr) == ratio(Xr, Yr, Zr)))
        r = real_vec("r", x.shape[0])
        v3, (rxx, ryy, rxy) = mpc_value(scaled(N.astype(r, "complex"), al, be))
        rr = sym.toF(N.make_sum(r.axes[0], lambda t: sym.mul(r.get(t[0]), r.get(t[0]))))
        c.fact(rr.v >= 0)
        c.oblige("lemma", "MPC = 1 (finite) on a complex multiple of a non-zero real vector",
                 Implies_(And_(rr.v > 0, Or_(al != 0, be != 0)), And_(Not_(v3.nan), v3.v == 1)),
                 {"what": "collinear shape: r real and non-zero, phi = (alpha + i beta) r"})

    def _wrong_sum(me, c, phi):
        v, (cxx, cyy, cxy) = mpc_value(phi)
        c2 = cur()
        c2.numpy_mode += 1
        try:
            d = sym.sub(cxx, cyy)
            return sym.div(sym.mul(d, d), sym.mul(sym.add(cxx, cyy), sym.add(cxx, cyy)))
        finally:
            c2.numpy_mode -= 1

    canaries = {"cross term dropped": spec_canary(_wrong_sum)}


# ----------------------------------------------------------------------------------
# MPD
# ----------------------------------------------------------------------------------

@register
class MPD(Contract):
    qualname = "pyoma2.functions.gen.MPD"
    props = ("C18",)
    generic_replay = False
    callable_modular = False
    bounded_driver = {"driver": "c18_indicators", "inputs": {}}
    compare_state = False

    def witness(self, o):
        return dict(self.bounded_driver)

    def setup(self, c):
        n = S.integer("n_loc", lo=2)
        return {"phi": S.array("phi", "complex", shape=(n,), finite=True)}

    def check(me, c, pre, post, outcome):
        """MPD in [0, pi/2] and finite for every non-zero shape (zero components allowed); 0 on collinear shapes"""
        if outcome[0] != "return":
            c.oblige("post", "no-exception", False, {"raised": outcome[1]})
            return
        v = sym.toF(outcome[1])
        phi = pre["phi"]
        from pyvc import lemmas as L
        pi2 = sym.pi_const().v / 2
        # ---- the quantities of the code, recomputed (same kernels => same terms) -------------------------------
        c.numpy_mode += 1
        try:
            re, im = N.real(phi), N.imag(phi)
            _U, _s, VT = MM.svd(N.hstack([N.reshape(re, -1, 1), N.reshape(im, -1, 1)]))
            V01, V11 = sym.toF(VT.get(1, 0)), sym.toF(VT.get(1, 1))          # V = VT.T: V[0,1] = VT[1,0], V[1,1] = VT[1,1]
            w = N.abs_(phi)
            num = N.subtract(N.multiply(re, V11), N.multiply(im, V01))
            den = N.multiply(sym.sqrt_(sym.add(sym.mul(V01, V01), sym.mul(V11, V11))), w)
            term = N.multiply(w, N.arccos(N.abs_(N.divide(num, den))))
            wsum = sym.toF(N.sum_(w))
        finally:
            c.numpy_mode -= 1
        nz = wsum.v > 0
        c.fact(wsum.v >= 0)
        # ---- stand-alone real lemmas (no program symbols), then their instances --------------------------------
        a_, b_, p_, q_ = z3.Reals("la lb lp lq")
        c.oblige("lemma", "2-D Cauchy-Schwarz", (a_ * q_ - b_ * p_) * (a_ * q_ - b_ * p_) <= (p_ * p_ + q_ * q_) * (a_ * a_ + b_ * b_))
        n_, d_ = z3.Reals("ln ld")
        absq = lambda n__, d__: z3.If(n__ / d__ >= 0, n__ / d__, -(n__ / d__))       # noqa: E731
        lem_abs01 = L.universal("n^2 <= d^2, d != 0  =>  |n/d| in [0,1]", [n_, d_],
                                z3.Implies(z3.And(d_ != 0, n_ * n_ <= d_ * d_), z3.And(absq(n_, d_) >= 0, absq(n_, d_) <= 1)))
        k = c.fresh_int("kc")
        fr_, fi_ = re.snapshot_fn(), im.snapshot_fn()

        def comp_facts(t):
            """instances of the two lemmas at component t"""
            x, y = sym.toF(fr_(((t,),))), sym.toF(fi_(((t,),)))
            nk = x.v * V11.v - y.v * V01.v
            L.prove_then_assume("step: num_k^2 <= (V01^2 + V11^2)(re_k^2 + im_k^2)",
                                (nk) * (nk) <= (V01.v * V01.v + V11.v * V11.v) * (x.v * x.v + y.v * y.v))
            dk = sym.toF(den.get(t)).v
            L.prove_then_assume("step: den_k^2 = (V01^2 + V11^2)(re_k^2 + im_k^2)",
                                dk * dk == (V01.v * V01.v + V11.v * V11.v) * (x.v * x.v + y.v * y.v))
            L.prove_then_assume("step: num_k^2 <= den_k^2", nk * nk <= dk * dk)
            lem_abs01(nk, dk)
        tf = term.snapshot_fn()

        def f_sum(ts):
            comp_facts(ts[0])
            x = sym.toF(tf(((ts[0],),)))
            return F(False, z3.If(sym.zb(x.nan), z3.RealVal(0), x.v))       # nansum's view of the summand
        wf = w.snapshot_fn()
        total_num = sym.toF(N.nansum(term))
        ok = L.sum_bound(total_num, (w.axes[0], f_sum), (wsum, (w.axes[0], lambda ts: wf(((ts[0],),)))), z3.RealVal(0), pi2,
                         "0 <= w*arccos(|num/den|) <= (pi/2) w, component-wise (non-finite terms count as 0)")
        c.oblige("post", "MPD finite for a non-zero shape (zero components allowed)", Implies_(nz, Not_(v.nan)),
                 {"what": "never NaN: components with zero weight must not poison the weighted mean"})
        c.oblige("post", "MPD in [0, pi/2]", Implies_(And_(nz, Not_(v.nan)), And_(v.v >= 0, v.v <= pi2)),
                 {"sum-bound lemma applied": ok})


@register
class MPD_collinear(Contract):
    """the real MPD on a complex multiple of a real vector: result 0 (finite), zero components allowed"""
    qualname = "pyoma2.functions.gen.MPD"
    name = "collinear"
    props = ("C18",)
    generic_replay = False
    callable_modular = False
    bounded_driver = {"driver": "c18_indicators", "inputs": {}}
    compare_state = False

    def witness(self, o):
        return dict(self.bounded_driver)

    def setup(self, c):
        n = S.integer("n_loc", lo=2)
        r = real_vec("r", n)
        al, be = S.real("alpha", py=False).v, S.real("beta", py=False).v
        c.assume(z3.Or(al != 0, be != 0))
        rr = sym.toF(N.make_sum(r.axes[0], lambda t: sym.mul(r.get(t[0]), r.get(t[0]))))
        c.fact(rr.v >= 0)
        c.assume(rr.v > 0)
        c.memo["ghost:collinear"] = {"r": r, "al": al, "be": be}
        phi = scaled(N.astype(r, "complex"), al, be)
        phi.meta["param"] = False
        return {"phi": phi}

    def check(me, c, pre, post, outcome):
        if outcome[0] != "return":
            c.oblige("post", "no-exception", False, {"raised": outcome[1]})
            return
        from pyvc import lemmas as L
        g = c.memo["ghost:collinear"]
        r, al, be = g["r"], g["al"], g["be"]
        v = sym.toF(outcome[1])
        phi = pre["phi"]
        c.numpy_mode += 1
        try:
            re, im = N.real(phi), N.imag(phi)
            _U, _s, VT = MM.svd(N.hstack([N.reshape(re, -1, 1), N.reshape(im, -1, 1)]))
            V01, V11 = sym.toF(VT.get(1, 0)), sym.toF(VT.get(1, 1))
            w = N.abs_(phi)
            num = N.subtract(N.multiply(re, V11), N.multiply(im, V01))
            den = N.multiply(sym.sqrt_(sym.add(sym.mul(V01, V01), sym.mul(V11, V11))), w)
            term = N.multiply(w, N.arccos(N.abs_(N.divide(num, den))))
            wsum = sym.toF(N.sum_(w))
        finally:
            c.numpy_mode -= 1
        # trusted (A5.ix): the second right singular vector of the rank-one matrix r [alpha beta] is orthogonal to (alpha, beta)
        c.fact(al * V01.v + be * V11.v == 0)
        c.fact(wsum.v >= 0)
        # |r| > 0 somewhere => sum of the weights positive (weights are |alpha + i beta| |r_k|): trusted positivity of a sum of
        # non-negative terms with a positive one
        c.fact(wsum.v > 0)
        p_, q_, a_, b_ = z3.Reals("lp lq la lb")
        c.oblige("lemma", "Lagrange: p^2+q^2 = 1, a p + b q = 0  =>  (a q - b p)^2 = a^2 + b^2",
                 Implies_(And_(p_ * p_ + q_ * q_ == 1, a_ * p_ + b_ * q_ == 0), (a_ * q_ - b_ * p_) * (a_ * q_ - b_ * p_) == a_ * a_ + b_ * b_))
        n_, d_ = z3.Reals("ln ld")
        absq = lambda n__, d__: z3.If(n__ / d__ >= 0, n__ / d__, -(n__ / d__))       # noqa: E731
        lem_abs1 = L.universal("n^2 = d^2, d != 0  =>  |n/d| = 1", [n_, d_], z3.Implies(z3.And(d_ != 0, n_ * n_ == d_ * d_), absq(n_, d_) == 1))
        r_, m_, s_, u_ = z3.Reals("lr lm ls lu")
        lem_chain = L.universal("n = r m, m^2 = s, d^2 = u s r^2, u = 1  =>  n^2 = d^2", [n_, d_, r_, m_, s_, u_],
                                z3.Implies(z3.And(n_ == r_ * m_, m_ * m_ == s_, d_ * d_ == u_ * s_ * r_ * r_, u_ == 1), n_ * n_ == d_ * d_))
        rf = r.snapshot_fn()
        tf = term.snapshot_fn()

        def f_sum(ts):
            t = ts[0]
            rk = sym.toF(rf(((t,),))).v
            nk = sym.toF(num.get(t)).v
            dk = sym.toF(den.get(t)).v
            mk_ = al * V11.v - be * V01.v
            L.prove_then_assume("step: (alpha V11 - beta V01)^2 = alpha^2 + beta^2", mk_ * mk_ == al * al + be * be)
            L.prove_then_assume("step: num_k = r_k (alpha V11 - beta V01)", nk == rk * mk_)
            L.prove_then_assume("step: den_k^2 = (V01^2 + V11^2)(alpha^2 + beta^2) r_k^2",
                                dk * dk == (V01.v * V01.v + V11.v * V11.v) * (al * al + be * be) * rk * rk)
            lem_chain(nk, dk, rk, mk_, al * al + be * be, V01.v * V01.v + V11.v * V11.v)
            lem_abs1(nk, dk)
            x = sym.toF(tf(((t,),)))
            return F(False, z3.If(sym.zb(x.nan), z3.RealVal(0), x.v))
        wf = w.snapshot_fn()
        total_num = sym.toF(N.nansum(term))
        ok = L.sum_bound(total_num, (w.axes[0], f_sum), (wsum, (w.axes[0], lambda ts: wf(((ts[0],),)))), z3.RealVal(0), z3.RealVal(0),
                         "every component contributes 0 (arccos(1) = 0, zero-weight components count as 0)")
        c.oblige("post", "MPD = 0 (finite) on a complex multiple of a real vector", And_(Not_(v.nan), v.v == 0),
                 {"sum-bound lemma applied": ok})
