"""C01 / C05 / C08: from a state matrix pair (A, C) to modal parameters - ssi.ac2mp and plscf.ac2mp_poly.
The eigen-decomposition is an uninterpreted kernel; the contract pins everything around it: the map to continuous time,
frequency = |lambda| / 2 pi, damping = -Re lambda / |lambda|, the blanking of roots with positive real part (pLSCF), and
mode shapes = C v_i divided by their largest-magnitude component (largest component exactly 1: C08's normalisation clause)."""
import z3

from pyvc import matmodel as MM
from pyvc import npmodel as N
from pyvc import spec as S
from pyvc import sym
from pyvc.contract import Contract, register, spec_canary
from pyvc.core import cur
from pyvc.sym import And_, Arr, C, F, NAN, Not_, Or_, zi

NANC = C(True, z3.RealVal(0), z3.RealVal(0))


def continuous(mu, dt):
    """lambda = log(mu) / dt"""
    c = cur()
    old, c.numpy_mode = c.numpy_mode, 0
    try:
        inv = sym.div(1, dt)        # Python float division (dt is a Python number): ZeroDivisionError at dt == 0, not inf
    finally:
        c.numpy_mode = old
    c.numpy_mode += 1
    try:
        return sym.mul(sym.log_(mu), inv)
    finally:
        c.numpy_mode -= 1


def freq_damp(lam):
    c = cur()
    c.numpy_mode += 1
    try:
        mod = sym.abs_(lam)
        fn = sym.div(mod, sym.mul(2, sym.pi_const()))
        xi = sym.neg(sym.div(sym.real_(lam), mod))
        return fn, xi
    finally:
        c.numpy_mode -= 1


def shapes(Cm, V, blank=None):
    """row i: C v_i / (its largest-magnitude component, first one on ties); blank(i): the vector is replaced by NaN first"""
    n = V.shape[1]
    vf = V.snapshot_fn()
    if blank is not None:
        Q = Arr(V.axes, lambda idx: sym.Lazy.choose(blank(idx[1][0]), lambda: NANC, lambda: vf(idx)), "complex")
    else:
        Q = V
    raw = N.dot(Cm, Q)                      # Nch x n
    rf = raw.snapshot_fn()
    c = cur()

    def cell(idx):
        i, ch = idx[0][0], idx[1][0]
        col = Arr((raw.axes[0],), lambda jd: rf((jd[0], (i,))), "complex")
        c.numpy_mode += 1
        try:
            piv = N.argmax(N.abs_(col))
            return sym.div(rf(((ch,), (i,))), rf(((piv,), (i,))))
        finally:
            c.numpy_mode -= 1
    return Arr(((n,), raw.axes[0]), cell, "complex"), raw


class _Modal(Contract):
    generic_replay = False
    bounded_driver = {"driver": "c01_modal", "inputs": {}}

    def witness(self, o):
        return dict(self.bounded_driver)

    def tables(self, c):
        n = S.integer("n_states", lo=1)
        nch = S.integer("Nch", lo=1)
        A = S.array("A", "float", shape=(n, n), finite=True)
        Cm = S.array("C", "float", shape=(nch, n), finite=True)
        dt = S.real("dt", pos=True)
        return A, Cm, dt

    def raw_shape(self, c, i):
        """column i of C V (for pLSCF: with the eigenvector of a blanked root replaced by NaN), as the specification built it"""
        raw = c.memo["ghost:raw"]
        rf = raw.snapshot_fn()
        return Arr((raw.axes[0],), lambda jd: rf((jd[0], (i,))), "complex")

    def time_unit_lemma(self, c, w, dt, correct=None):
        """C08: declaring the same samples at kappa times the sampling frequency (dt -> dt / kappa) multiplies every frequency by
        kappa and leaves every damping ratio unchanged (the eigen-decomposition does not see dt).  `correct(lam, dt)` is whatever
        the specification applies to the continuous-time pole afterwards (the exponential-window correction of the correlogram
        estimator): the clause is stated over the pole the function REPORTS, i.e. the specification its result was proved equal to."""
        i = S.integer("pole_i", lo=0)
        kappa = S.real("kappa", pos=True)
        correct = correct or (lambda lam, dt_: lam)

        def lem():
            mu = w.cell(((i,),))
            old, c.numpy_mode = c.numpy_mode, 0
            try:
                dt2 = sym.div(dt, kappa)
            finally:
                c.numpy_mode = old
            c.numpy_mode += 1
            try:
                lam1 = correct(continuous(mu, dt), dt)
                lam2 = correct(continuous(mu, dt2), dt2)
            finally:
                c.numpy_mode -= 1
            f1, x1 = freq_damp(lam1)
            f2, x2 = freq_damp(lam2)
            c.numpy_mode += 1
            try:
                ok = Not_(Or_(lam1.nan, f1.nan, x1.nan))
                c.oblige("lemma", "time unit: pole scales with the declared sampling frequency", sym.Implies_(ok, And_(lam2.re == kappa.v * lam1.re, lam2.im == kappa.v * lam1.im)))
                c.oblige("lemma", "time unit: frequency scales with the declared sampling frequency", sym.Implies_(ok, And_(Not_(f2.nan), f2.v == kappa.v * f1.v)))
                c.oblige("lemma", "time unit: damping ratio does not depend on the declared sampling frequency", sym.Implies_(ok, And_(Not_(x2.nan), x2.v == x1.v)))
            finally:
                c.numpy_mode -= 1
        c.subproof(i < w.shape[0], lem)

    def unit_lemma(self, c, phi):
        """C08: every finite reported shape has a component equal to 1 and none larger in magnitude"""
        i = S.integer("mode_i", lo=0)

        def lem():
            # the divisor is the component of C v_i of largest magnitude (argmax contract, first one on ties); the reported
            # component at that position is x / x = 1 whenever the shape is finite
            raw = self.raw_shape(c, i)
            c.numpy_mode += 1
            try:
                piv = N.argmax(N.abs_(raw))
                top = phi.cell(((i,), (piv,)))
                c.oblige("lemma", "the largest-magnitude component of a finite shape is reported as 1",
                         sym.Implies_(Not_(top.nan), And_(top.re == 1, top.im == 0)))
            finally:
                c.numpy_mode -= 1
        c.subproof(i < phi.shape[0], lem)


@register
class ac2mp(_Modal):
    qualname = "pyoma2.functions.ssi.ac2mp"
    props = ("C01", "C08")

    def setup(self, c):
        A, Cm, dt = self.tables(c)
        return {"A": A, "C": Cm, "dt": dt, "calc_unc": False}

    def spec(me, c, A, C, dt, calc_unc=False):
        w, vl, vr = MM.eig(A, left=True)
        wf = w.snapshot_fn()
        lam = Arr(w.axes, lambda idx: continuous(wf(idx), dt), "complex")
        lf = lam.snapshot_fn()
        fn = Arr(w.axes, lambda idx: freq_damp(lf(idx))[0], "float")
        xi = Arr(w.axes, lambda idx: freq_damp(lf(idx))[1], "float")
        phi, raw = shapes(C, vr)
        c.memo["ghost:raw"] = raw
        if calc_unc is True:
            return (fn, xi, phi, lam, w, vl, vr)
        return (fn, xi, phi, lam, None, None, None)

    def check(me, c, pre, post, outcome):
        Contract.check(me, c, pre, post, outcome)
        if outcome[0] == "return":
            me.unit_lemma(c, outcome[1][2])
            me.time_unit_lemma(c, MM.eig(pre["A"], left=True)[0], pre["dt"])

    def _no_dt(me, c, A, C, dt, calc_unc=False):
        r = me.spec(c, A, C, dt, calc_unc)
        f = r[0].snapshot_fn()
        return (Arr(r[0].axes, lambda idx: sym.mul(f(idx), dt), "float"),) + tuple(r[1:])

    canaries = {"frequencies not divided by dt": spec_canary(_no_dt)}


@register
class ac2mp_unc(ac2mp):
    name = "with eigenvectors"

    def setup(self, c):
        A, Cm, dt = self.tables(c)
        return {"A": A, "C": Cm, "dt": dt, "calc_unc": True}
    canaries = {}


class _Poly(_Modal):
    qualname = "pyoma2.functions.plscf.ac2mp_poly"
    props = ("C05", "C08")
    method = "per"

    def setup(self, c):
        A, Cm, dt = self.tables(c)
        return {"A": A, "C": Cm, "dt": dt, "methodSy": self.method, "nxseg": S.integer("nxseg", lo=3)}

    @staticmethod
    def window_correction(methodSy, nxseg):
        """what the code does to a continuous-time pole for the correlogram estimator (mirrors the source; the postcondition
        pins it, the time-unit lemma judges it)"""
        def f(v, dt):
            if methodSy == "cor":
                # written in the code's own order of operations: -(nxseg - 1) / log(0.01)   (equal terms, no solver search)
                tau = sym.div(sym.neg(sym.sub(nxseg, 1)), sym.log_(sym.toF(0.01)))
                v = sym.add(v, sym.div(1, sym.mul(tau, dt)))
            return v
        return f

    def spec(me, c, A, C, dt, methodSy, nxseg):
        w, vr = MM.eig(A)
        wf = w.snapshot_fn()

        def lam0(i):
            return continuous(wf(((i,),)), dt)

        def unstable(i):
            c.numpy_mode += 1
            try:
                return sym.lt(0, sym.real_(lam0(i)))
            finally:
                c.numpy_mode -= 1

        def lam_c(idx):
            i = idx[0][0]
            c.numpy_mode += 1
            try:
                v = sym.Lazy.choose(unstable(i), lambda: NANC, lambda: lam0(i)) if False else sym.ite(unstable(i), NANC, lam0(i))
                return me.window_correction(methodSy, nxseg)(v, dt)
            finally:
                c.numpy_mode -= 1
        lam = Arr(w.axes, lam_c, "complex")
        lf = lam.snapshot_fn()
        fn = Arr(w.axes, lambda idx: freq_damp(lf(idx))[0], "float")
        xi = Arr(w.axes, lambda idx: freq_damp(lf(idx))[1], "float")
        phi, raw = shapes(C, vr, blank=unstable)
        c.memo["ghost:raw"] = raw
        return (fn, xi, phi, lam)

    def check(me, c, pre, post, outcome):
        Contract.check(me, c, pre, post, outcome)
        if outcome[0] == "return":
            me.unit_lemma(c, outcome[1][2])
            me.time_unit_lemma(c, MM.eig(pre["A"])[0], pre["dt"], correct=me.window_correction(me.method, pre["nxseg"]))
            # roots with positive real part are blanked in every table
            fn, xi, phi, lam = outcome[1]
            A, dt = pre["A"], pre["dt"]
            w, vr = MM.eig(A)
            i = S.integer("root_i", lo=0)

            def lem():
                c.numpy_mode += 1
                try:
                    bad = sym.lt(0, sym.real_(continuous(w.cell(((i,),)), dt)))
                    ch = S.integer("ch", lo=0)
                    c.assume(ch < phi.shape[1])
                    for nm, fl in (("frequency", fn.cell(((i,),)).nan), ("damping", xi.cell(((i,),)).nan), ("pole", lam.cell(((i,),)).nan),
                                   ("shape", phi.cell(((i,), (ch,))).nan)):
                        c.oblige("lemma", f"a root with positive real part is blanked in the {nm} table", sym.Implies_(bad, fl))
                finally:
                    c.numpy_mode -= 1
            c.subproof(i < w.shape[0], lem)


@register
class ac2mp_poly_per(_Poly):
    name = "per"
    method = "per"

    def _lam_times_dt(me, c, A, C, dt, methodSy, nxseg):
        r = _Poly.spec(me, c, A, C, dt, methodSy, nxseg)
        f = r[3].snapshot_fn()
        return (r[0], r[1], r[2], Arr(r[3].axes, lambda idx: sym.mul(f(idx), dt), "complex"))
    canaries = {"poles multiplied by dt once more": spec_canary(_lam_times_dt)}


@register
class ac2mp_poly_cor(_Poly):
    name = "cor"
    method = "cor"

    def _no_correction(me, c, A, C, dt, methodSy, nxseg):
        return _Poly.spec(me, c, A, C, dt, "per", nxseg)
    canaries = {"no window correction for the correlogram estimator": spec_canary(_no_correction)}


# ----------------------------------------------------------------------------------------------------------------------
# ssi.SSI_poles (no uncertainty, step 1): column c of every table holds the c poles of the order-c model - frequency,
# damping, shape and pole of ONE eigenvalue per row - and NaN below; column 0 is empty
# ----------------------------------------------------------------------------------------------------------------------
from pyvc.interp import LoopSpec   # noqa: E402
from pyvc.sym import Seq   # noqa: E402

I = z3.IntSort()


def _models(c, ordmax, nch):
    fa = MM.fn("AA", I, MM.Mat)
    fc = MM.fn("CC", I, MM.Mat)
    AA = Seq(sym.add(ordmax, 1), lambda k: MM.mat_arr(fa(zi(k)), (k, k), "float"), label="AA")
    CC = Seq(sym.add(ordmax, 1), lambda k: MM.mat_arr(fc(zi(k)), (nch, k), "float"), label="CC")
    return AA, CC


def pole_tables(c, AA, CC, ordmax, dt, nch, upto):
    """tables with the columns 1..upto-1 filled (upto = ordmax + 1: all)"""
    k = ac2mp()

    def col(cix):
        return k.spec(c, AA.get(cix), CC.get(cix), dt, False)

    def cell(which, nanv):
        def f(idx):
            r, cix = idx[0][0], idx[1][0]
            last = sym.simp(sym.sub(upto, 1))
            if not sym.is_pyint(cix) and not sym.is_pyint(last) and c.branch(sym.eq(cix, last)):
                # the newest column, written exactly as the loop body addresses it (1 + k): same terms on both sides
                cix = last
            filled = And_(sym.le(1, cix), sym.lt(cix, upto), sym.lt(r, cix))
            if which == 2:
                return sym.Lazy.choose(filled, lambda: col(cix)[2].cell(((r,), idx[2])), lambda: nanv)
            return sym.Lazy.choose(filled, lambda: col(cix)[which].cell(((r,),)), lambda: nanv)
        return f
    n1 = sym.add(ordmax, 1)
    return {"Fn": Arr(((ordmax,), (n1,)), cell(0, NAN), "float"), "Xi": Arr(((ordmax,), (n1,)), cell(1, NAN), "float"),
            "Phi": Arr(((ordmax,), (n1,), (nch,)), cell(2, NANC), "complex"), "Lambdas": Arr(((ordmax,), (n1,)), cell(3, NANC), "complex")}


@register
class SSI_poles(Contract):
    qualname = "pyoma2.functions.ssi.SSI_poles"
    props = ("C01",)
    generic_replay = False
    bounded_driver = {"driver": "c01_exact", "inputs": {"trials": 6}}
    use = {"pyoma2.functions.ssi.ac2mp": None}

    def witness(self, o):
        return dict(self.bounded_driver)

    def setup(self, c):
        ordmax = S.integer("ordmax", lo=1)
        nch = S.integer("Nch", lo=1)
        AA, CC = _models(c, ordmax, nch)
        dt = S.real("dt", pos=True)
        c.memo["ghost:poles"] = {"AA": AA, "CC": CC, "ordmax": ordmax, "dt": dt, "nch": nch}
        return {"Obs": sym.Opaque("Obs"), "AA": AA, "CC": CC, "ordmax": ordmax, "dt": dt, "step": 1, "calc_unc": False}

    def spec(me, c, Obs, AA, CC, ordmax, dt, step=1, calc_unc=False, Q1=None, Q2=None, Q3=None, Q4=None):
        g = c.memo["ghost:poles"]
        t = pole_tables(c, g["AA"], g["CC"], g["ordmax"], g["dt"], g["nch"], sym.add(g["ordmax"], 1))
        return (t["Fn"], t["Xi"], t["Phi"], t["Lambdas"], None, None, None)

    def _loop(k, pre, it):
        c = cur()
        g = c.memo["ghost:poles"]
        return pole_tables(c, g["AA"], g["CC"], g["ordmax"], g["dt"], g["nch"], sym.add(k, 1))
    loops = {0: LoopSpec(_loop)}

    def _real_shapes(me, c, **a):
        r = me.spec(c, **a)
        f = r[2].snapshot_fn()
        return (r[0], r[1], Arr(r[2].axes, lambda idx: sym.toC(sym.real_(f(idx))), "complex"), r[3], None, None, None)
    canaries = {"shapes stored without their imaginary part": spec_canary(_real_shapes)}


# ----------------------------------------------------------------------------------------------------------------------
# plscf.rmfd2ac: block companion form of a right matrix fraction with coefficient blocks A_0..A_n, B_0..B_n
# (N = n + 1 blocks): first block row -A_n^-1 A_{n-1}, ..., -A_n^-1 A_0, 0 ; identity below, shifted by one block;
# C = [B_{n-1} - B_n A_n^-1 A_{n-1}, ..., B_0 - B_n A_n^-1 A_0, 0]
# ----------------------------------------------------------------------------------------------------------------------

def companion(c, A_den, B_num, upto=None):
    N_, m = A_den.shape[0], A_den.shape[1]
    l_ = B_num.shape[1]
    af, bf = A_den.snapshot_fn(), B_num.snapshot_fn()
    last = sym.sub(N_, 1)
    Ad_last = Arr((A_den.axes[1], A_den.axes[2]), lambda idx: af(((last,), idx[0], idx[1])), "float")
    Bn_last = Arr((B_num.axes[1], B_num.axes[2]), lambda idx: bf(((last,), idx[0], idx[1])), "float")

    def blk(cb):
        j = sym.sub(sym.sub(N_, 2), cb)
        Adi = Arr((A_den.axes[1], A_den.axes[2]), lambda idx: af(((j,), idx[0], idx[1])), "float")
        Bni = Arr((B_num.axes[1], B_num.axes[2]), lambda idx: bf(((j,), idx[0], idx[1])), "float")
        prod = MM.solve(Ad_last, Adi)
        return prod, Bni, N.dot(Bn_last, prod)

    def done(cb):
        return And_(sym.lt(cb, last), True if upto is None else sym.lt(cb, upto))
    zero = sym.toF(0.0)

    def a_cell(idx):
        (rb, re), (cb, ce) = idx[0], idx[1]
        top = sym.Lazy.choose(done(cb), lambda: sym.neg(blk(cb)[0].cell(((re,), (ce,)))), lambda: zero)
        low = sym.ite(And_(sym.eq(sym.sub(rb, 1), cb), sym.eq(re, ce)), sym.toF(1.0), zero)
        return sym.Lazy.choose(sym.eq(rb, 0), lambda: top, lambda: low)

    def c_cell(idx):
        o, (cb, ce) = idx[0], idx[1]
        def val():
            prod, Bni, bp = blk(cb)
            return sym.sub(Bni.cell((o, (ce,))), bp.cell((o, (ce,))))
        return sym.Lazy.choose(done(cb), val, lambda: zero)
    return (Arr(((N_, m), (N_, m)), a_cell, "float"), Arr((B_num.axes[1], (N_, m)), c_cell, "float"))


@register
class rmfd2ac(Contract):
    term_level = True      # cells / terms over opaque kernels (qr, solve): see runner

    qualname = "pyoma2.functions.plscf.rmfd2ac"
    props = ("C05",)
    generic_replay = False
    bounded_driver = {"driver": "c05_exact", "inputs": {"trials": 15}}

    def witness(self, o):
        return dict(self.bounded_driver)

    def setup(self, c):
        N_ = S.integer("n_blocks", lo=2)
        m = S.integer("Nch", lo=1)
        l_ = S.integer("Nref", lo=1)
        return {"A_den": S.array("A_den", "float", shape=(N_, m, m), finite=True), "B_num": S.array("B_num", "float", shape=(N_, l_, m), finite=True)}

    def spec(me, c, A_den, B_num):
        return companion(c, A_den, B_num)

    def _loop(k, pre, it):
        c = cur()
        A, C = companion(c, pre["A_den"], pre["B_num"], upto=k)
        return {"A": A, "C": C}
    loops = {0: LoopSpec(_loop)}


# ----------------------------------------------------------------------------------------------------------------------
# plscf.pLSCF_poles: column c of every table holds the poles of the order-(c+1) model, NaN below (orders enumerated)
# ----------------------------------------------------------------------------------------------------------------------

class rmfd2ac_flow(Contract):
    qualname = "pyoma2.functions.plscf.rmfd2ac"
    name = "havoc-flow"
    verify_body = False

    def apply(self, interp, args, kwargs):
        c = cur()
        calls = c.memo.setdefault("ghost:rmfd2ac", [])
        env = interp.bind(interp.repo.function(self.qualname), args, kwargs, None)
        out = (sym.Opaque(f"A#{len(calls)}"), sym.Opaque(f"C#{len(calls)}"))
        calls.append((env, out))
        return out


register(rmfd2ac_flow)


class ac2mp_poly_flow(Contract):
    qualname = "pyoma2.functions.plscf.ac2mp_poly"
    name = "havoc-flow"
    verify_body = False

    def apply(self, interp, args, kwargs):
        c = cur()
        calls = c.memo.setdefault("ghost:ac2mp_poly", [])
        env = interp.bind(interp.repo.function(self.qualname), args, kwargs, None)
        g = c.memo["ghost:poly_sizes"]
        o = len(calls)
        L = sym.mul(o + 2, g["m"])
        out = (S.array(f"fn{o}", "float", shape=(L,)), S.array(f"xi{o}", "float", shape=(L,)),
               S.array(f"phi{o}", "complex", shape=(L, g["l"])), S.array(f"lam{o}", "complex", shape=(L,)))
        for a in out:
            a.fresh = True
            a.meta["param"] = False
        calls.append((env, out))
        return out


register(ac2mp_poly_flow)


class _PolesPoly(Contract):
    qualname = "pyoma2.functions.plscf.pLSCF_poles"
    props = ("C05",)
    generic_replay = False
    callable_modular = False
    bounded_driver = {"driver": "c05_exact", "inputs": {"trials": 15}}
    use = {"pyoma2.functions.plscf.rmfd2ac": "havoc-flow", "pyoma2.functions.plscf.ac2mp_poly": "havoc-flow"}
    NORD = 2
    method = "per"

    def witness(self, o):
        return dict(self.bounded_driver)

    def setup(self, c):
        m = S.integer("Nch", lo=1)
        l_ = S.integer("Nref", lo=1)
        c.memo["ghost:poly_sizes"] = {"m": m, "l": l_}
        Ad = [S.array(f"Ad{o}", "float", shape=(o + 2, m, m), finite=True) for o in range(self.NORD)]
        Bn = [S.array(f"Bn{o}", "float", shape=(o + 2, l_, m), finite=True) for o in range(self.NORD)]
        return {"Ad": Ad, "Bn": Bn, "dt": S.real("dt", pos=True), "methodSy": self.method, "nxseg": S.integer("nxseg", lo=3)}

    def check(me, c, pre, post, outcome):
        if outcome[0] != "return":
            c.oblige("post", "no-exception", False, {"raised": str(outcome[1])})
            return
        rc = c.memo.get("ghost:rmfd2ac", [])
        pc = c.memo.get("ghost:ac2mp_poly", [])
        n_ord = me.NORD
        c.oblige("post", "one companion form and one eigen-analysis per order", len(rc) == n_ord and len(pc) == n_ord)
        if len(rc) != n_ord or len(pc) != n_ord:
            return
        for o in range(n_ord):
            c.oblige("post", f"order {o + 1}: companion form of its own coefficient blocks", rc[o][0]["A_den"] is post["Ad"][o] and rc[o][0]["B_num"] is post["Bn"][o])
            c.oblige("post", f"order {o + 1}: poles of its own companion form", pc[o][0]["A"] is rc[o][1][0] and pc[o][0]["C"] is rc[o][1][1])
            c.oblige("post", f"order {o + 1}: dt, estimator and segment length forwarded",
                     And_(sym.same(pc[o][0]["dt"], pre["dt"]), pc[o][0]["methodSy"] == pre["methodSy"], sym.eq(pc[o][0]["nxseg"], pre["nxseg"])))
        cols = [x[1] for x in pc]
        row_ax = cols[-1][0].axes[0]

        def tab(which, nanv):
            def f(idx):
                r, cix = idx[0][0], idx[1][0]
                v = None
                for o in range(n_ord - 1, -1, -1):
                    src = cols[o][which]
                    val = sym.Lazy.choose(sym.lt(r, src.shape[0]), lambda src=src: src.cell(((r,),) + tuple(idx[2:])), lambda: nanv)
                    v = val if v is None else sym.ite(sym.eq(cix, o), val, v)
                return v
            return f
        want = (Arr((row_ax, (n_ord,)), tab(0, NAN), "float"), Arr((row_ax, (n_ord,)), tab(1, NAN), "float"),
                Arr((row_ax, (n_ord,), cols[-1][2].axes[1]), tab(2, NANC), "complex"), Arr((row_ax, (n_ord,)), tab(3, NANC), "complex"))
        from pyvc.interp import assert_same
        assert_same("result", outcome[1], want, "post")


@register
class pLSCF_poles_2(_PolesPoly):
    name = "orders 1..2"
    NORD = 2


@register
class pLSCF_poles_3(_PolesPoly):
    name = "orders 1..3"
    NORD = 3


@register
class pLSCF_poles_5(_PolesPoly):
    name = "orders 1..5"
    NORD = 5
    thorough_only = True


# ----------------------------------------------------------------------------------------------------------------------
# the numerical theorems of C01 / C05 (exact recovery on noise-free data / on an exactly rational spectrum) are statements
# about SVD / QR / least squares in floating point: outside any contract over the reals that the verifier could discharge.
# Bounded stand-ins on the real functions (labelled bounded, never counted as proved).
# ----------------------------------------------------------------------------------------------------------------------

class _Exact(Contract):
    bounded_only = True
    callable_modular = False
    generic_replay = False


@register
class ssi_exact(_Exact):
    qualname = "pyoma2.functions.ssi.SSI_fast"
    props = ("C01",)
    name = "exact recovery"
    bounded_reason = ("unsupported: 'recovers the system exactly' is a theorem about SVD / QR / pseudo-inverse (shift invariance of an exact rank-2m "
                      "observability matrix) and floating-point conditioning; the kernels are uninterpreted in the verifier")
    bounded_bound = ("1-4 modes, max(2,m)-6 channels, real and complex shapes, damping 0.4-5 %, fs in {50, 100, 256}, 600/900 samples, br = 2m+2..2m+5, "
                     "all channels or a reference subset; realisation alone (SSI_fast and SSI) on an exact rank-2m Hankel matrix, then SSIcov(cov_mm) and SSIdat "
                     "through SingleSetup.run_by_name and mpe at order 2m")
    bounded_driver = {"driver": "c01_exact", "inputs": {"trials": 10, "trials_thorough": 120}}


@register
class plscf_exact(_Exact):
    qualname = "pyoma2.functions.plscf.pLSCF"
    props = ("C05",)
    name = "exact recovery"
    bounded_reason = ("unsupported: 'reproduces the coefficients of an exactly rational spectrum' is a theorem about the reduced normal equations (least squares "
                      "with exact data) and floating-point conditioning; np.kron / solve over growing block matrices are outside the modelled subset")
    bounded_bound = ("orders 1-4, 2-4 channels, 1-Nch reference rows, 4(n+1)..4(n+1)+29 lines, dt in {0.01, 0.05, 0.2}, both basis-function signs, ordmax in {n, n+1}; "
                     "coefficients compared to 1e-4, reported poles against the roots of det A(x) from an independent companion matrix")
    bounded_driver = {"driver": "c05_exact", "inputs": {"trials": 25, "trials_thorough": 300}}


@register
class ssi_ms_exact(_Exact):
    qualname = "pyoma2.functions.ssi.SSI_multi_setup"
    props = ("C03",)
    name = "exact recovery"
    bounded_reason = ("unsupported: 'identifies the global system exactly' is a theorem about SVD / pseudo-inverse rescaling of per-setup observability blocks and "
                      "floating-point conditioning; fancy-indexed row selections of kernel results and their products are outside what the matrix-term level can unify")
    bounded_bound = ("1-3 modes, 2-3 setups, 1-3 reference and 1-3 roving sensors per setup, references at random positions of the channel list in random listed order, "
                     "per-setup gains over four decades, br = 2m+2..2m+4, 800 samples; SSIcov_MS(cov_mm) and SSIdat_MS through MultiSetup_PreGER.run_by_name; "
                     "frequencies, damping and MAC against the global system at order 2m (tolerance 1e-4)")
    bounded_driver = {"driver": "c03_exact", "inputs": {"trials": 8, "trials_thorough": 80}}


@register
class covariance_meta(_Exact):
    """C08's whole-pipeline clauses (gain, channel permutation, time unit through every algorithm class): relational
    statements over SVD / QR / eig / csd in floating point - no contract in reach; metamorphic bounded stand-in."""
    qualname = "pyoma2.setup.base.BaseSetup.run_by_name"
    props = ("C08",)
    name = "covariance under gain, channel order and time unit"
    bounded_reason = ("unsupported: equivariance of the whole identification (SVD, QR, pseudo-inverse, eig, Welch estimates) under scaling, permutation and re-timing is a "
                      "relational statement about floating-point kernels; the scaling-law checker planned in DESIGN section 3 was not built")
    bounded_bound = ("3-5 channels, 3 modes, 4096 samples of noise-driven response; FDD, EFDD, FSDD, pLSCF (each with the periodogram and the correlogram estimator), SSIcov (cov_mm, cov_R), "
                     "SSIdat through SingleSetup; FDD_MS, EFDD_MS (per, cor), SSIcov_MS, SSIdat_MS, pLSCF_MS (per, cor) through MultiSetup_PreGER with two setups sharing two references "
                     "(gain 2^-20 / 2^20 and time unit only); single setup: gains 2^-34, 2^-20, 2^20, 2^30 (exact, tolerance 1e-9), 3.7e-6, 4.2e5 (1e-5); sampling "
                     "frequency x 2^-5, 2^6 (1e-7; 1e-6 for the EFDD / FSDD decay fit); one random channel permutation and one random orthogonal mixing (1e-5); whole pole tables "
                     "compared column by column as sets of (frequency, damping, shape), extracted shapes unit-normalised; a variant whose untransformed run never succeeds is an error")
    bounded_driver = {"driver": "c08_meta", "inputs": {"trials": 1, "trials_thorough": 6}}
