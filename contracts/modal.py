"""C01 / C05 / C08: from a state matrix pair (A, C) to modal parameters - ssi.ac2mp and plscf.ac2mp_poly.
The eigen-decomposition is an uninterpreted kernel; the contract pins everything around it: the map to continuous time,
frequency = |lambda| / 2 pi, damping = -Re lambda / |lambda|, the blanking of roots with positive real part (pLSCF), and
mode shapes = C v_i divided by their largest-magnitude component (largest component exactly 1: C08's normalisation clause)."""
import z3

from pyvc import matmodel as MM
from pyvc import npmodel as N
from pyvc import spec as S
from pyvc import sym
from pyvc.contract import Contract, register, spec_canary
from pyvc.core import cur
from pyvc.sym import And_, Arr, C, F, NAN, Not_, Or_, zi

NANC = C(True, z3.RealVal(0), z3.RealVal(0))


def continuous(mu, dt):
    """lambda = log(mu) / dt"""
    c = cur()
    c.numpy_mode += 1
    try:
        return sym.mul(sym.log_(mu), sym.div(1, dt))
    finally:
        c.numpy_mode -= 1


def freq_damp(lam):
    c = cur()
    c.numpy_mode += 1
    try:
        mod = sym.abs_(lam)
        fn = sym.div(mod, sym.mul(2, sym.pi_const()))
        xi = sym.neg(sym.div(sym.real_(lam), mod))
        return fn, xi
    finally:
        c.numpy_mode -= 1


def shapes(Cm, V, blank=None):
    """row i: C v_i / (its largest-magnitude component, first one on ties); blank(i): the vector is replaced by NaN first"""
    n = V.shape[1]
    vf = V.snapshot_fn()
    if blank is not None:
        Q = Arr(V.axes, lambda idx: sym.Lazy.choose(blank(idx[1][0]), lambda: NANC, lambda: vf(idx)), "complex")
    else:
        Q = V
    raw = N.dot(Cm, Q)                      # Nch x n
    rf = raw.snapshot_fn()
    c = cur()

    def cell(idx):
        i, ch = idx[0][0], idx[1][0]
        col = Arr((raw.axes[0],), lambda jd: rf((jd[0], (i,))), "complex")
        c.numpy_mode += 1
        try:
            piv = N.argmax(N.abs_(col))
            return sym.div(rf(((ch,), (i,))), rf(((piv,), (i,))))
        finally:
            c.numpy_mode -= 1
    return Arr(((n,), raw.axes[0]), cell, "complex")


class _Modal(Contract):
    generic_replay = False
    bounded_driver = {"driver": "c01_modal", "inputs": {}}

    def witness(self, o):
        return dict(self.bounded_driver)

    def tables(self, c):
        n = S.integer("n_states", lo=1)
        nch = S.integer("Nch", lo=1)
        A = S.array("A", "float", shape=(n, n), finite=True)
        Cm = S.array("C", "float", shape=(nch, n), finite=True)
        dt = S.real("dt", pos=True)
        return A, Cm, dt

    def unit_lemma(self, c, phi):
        """C08: every finite reported shape has a component equal to 1 and none larger in magnitude"""
        i = S.integer("mode_i", lo=0)

        def lem():
            row = Arr((phi.axes[1],), lambda idx: phi.cell(((i,), idx[0])), "complex")
            c.numpy_mode += 1
            try:
                piv = N.argmax(N.abs_(row))
                top = row.cell(((piv,),))
                fin = Not_(N.any_(N.isnan(row)))
                c.oblige("lemma", "largest-magnitude component of a finite shape equals 1", sym.Implies_(fin, And_(top.re == 1, top.im == 0)))
            finally:
                c.numpy_mode -= 1
        c.subproof(i < phi.shape[0], lem)


@register
class ac2mp(_Modal):
    qualname = "pyoma2.functions.ssi.ac2mp"
    props = ("C01", "C08")

    def setup(self, c):
        A, Cm, dt = self.tables(c)
        return {"A": A, "C": Cm, "dt": dt, "calc_unc": False}

    def spec(me, c, A, C, dt, calc_unc=False):
        w, vl, vr = MM.eig(A, left=True)
        wf = w.snapshot_fn()
        lam = Arr(w.axes, lambda idx: continuous(wf(idx), dt), "complex")
        lf = lam.snapshot_fn()
        fn = Arr(w.axes, lambda idx: freq_damp(lf(idx))[0], "float")
        xi = Arr(w.axes, lambda idx: freq_damp(lf(idx))[1], "float")
        phi = shapes(C, vr)
        if calc_unc is True:
            return (fn, xi, phi, lam, w, vl, vr)
        return (fn, xi, phi, lam, None, None, None)

    def check(me, c, pre, post, outcome):
        Contract.check(me, c, pre, post, outcome)
        if outcome[0] == "return":
            me.unit_lemma(c, outcome[1][2])

    def _no_dt(me, c, A, C, dt, calc_unc=False):
        r = me.spec(c, A, C, dt, calc_unc)
        f = r[0].snapshot_fn()
        return (Arr(r[0].axes, lambda idx: sym.mul(f(idx), dt), "float"),) + tuple(r[1:])

    canaries = {"frequencies not divided by dt": spec_canary(_no_dt)}


@register
class ac2mp_unc(ac2mp):
    name = "with eigenvectors"

    def setup(self, c):
        A, Cm, dt = self.tables(c)
        return {"A": A, "C": Cm, "dt": dt, "calc_unc": True}
    canaries = {}


class _Poly(_Modal):
    qualname = "pyoma2.functions.plscf.ac2mp_poly"
    props = ("C05", "C08")
    method = "per"

    def setup(self, c):
        A, Cm, dt = self.tables(c)
        return {"A": A, "C": Cm, "dt": dt, "methodSy": self.method, "nxseg": S.integer("nxseg", lo=3)}

    def spec(me, c, A, C, dt, methodSy, nxseg):
        w, vr = MM.eig(A)
        wf = w.snapshot_fn()

        def lam0(i):
            return continuous(wf(((i,),)), dt)

        def unstable(i):
            c.numpy_mode += 1
            try:
                return sym.lt(0, sym.real_(lam0(i)))
            finally:
                c.numpy_mode -= 1

        def lam_c(idx):
            i = idx[0][0]
            c.numpy_mode += 1
            try:
                v = sym.Lazy.choose(unstable(i), lambda: NANC, lambda: lam0(i)) if False else sym.ite(unstable(i), NANC, lam0(i))
                if methodSy == "cor":
                    tau = sym.neg(sym.div(sym.sub(nxseg, 1), sym.log_(sym.toF(0.01))))
                    v = sym.sub(v, sym.div(1, tau))
                return v
            finally:
                c.numpy_mode -= 1
        lam = Arr(w.axes, lam_c, "complex")
        lf = lam.snapshot_fn()
        fn = Arr(w.axes, lambda idx: freq_damp(lf(idx))[0], "float")
        xi = Arr(w.axes, lambda idx: freq_damp(lf(idx))[1], "float")
        phi = shapes(C, vr, blank=unstable)
        return (fn, xi, phi, lam)

    def check(me, c, pre, post, outcome):
        Contract.check(me, c, pre, post, outcome)
        if outcome[0] == "return":
            me.unit_lemma(c, outcome[1][2])
            # roots with positive real part are blanked in every table
            fn, xi, phi, lam = outcome[1]
            A, dt = pre["A"], pre["dt"]
            w, vr = MM.eig(A)
            i = S.integer("root_i", lo=0)

            def lem():
                c.numpy_mode += 1
                try:
                    bad = sym.lt(0, sym.real_(continuous(w.cell(((i,),)), dt)))
                    ch = S.integer("ch", lo=0)
                    c.assume(ch < phi.shape[1])
                    c.oblige("lemma", "a root with positive real part is blanked in all four tables",
                             sym.Implies_(bad, And_(fn.cell(((i,),)).nan, xi.cell(((i,),)).nan, lam.cell(((i,),)).nan, phi.cell(((i,), (ch,))).nan)))
                finally:
                    c.numpy_mode -= 1
            c.subproof(i < w.shape[0], lem)


@register
class ac2mp_poly_per(_Poly):
    name = "per"
    method = "per"

    def _not_blanked(me, c, A, C, dt, methodSy, nxseg):
        w, vr = MM.eig(A)
        r = _Poly.spec(me, c, A, C, dt, methodSy, nxseg)
        return (r[0], r[1], shapes(C, vr), r[3])
    canaries = {"shapes of unstable roots not blanked": spec_canary(_not_blanked)}


@register
class ac2mp_poly_cor(_Poly):
    name = "cor"
    method = "cor"
