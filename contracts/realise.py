"""C01: the realisation step ssi.SSI_fast (no uncertainty) at the matrix-term level: Obs = U[:, :ordmax] sqrt(diag sigma),
state matrix of order ii = inv(R[:ii, :ii]) S[:ii, :ii] with Q R = qr(Obs without its LAST block row), S = Q^T (Obs without
its FIRST block row) - the shift by exactly one block of l output rows - and C = the first block row, first ii columns."""
import z3

from pyvc import matmodel as MM
from pyvc import npmodel as N
from pyvc import spec as S
from pyvc import sym
from pyvc.contract import Contract, register, spec_canary
from pyvc.core import cur
from pyvc.interp import LoopSpec
from pyvc.models import MODELS
from pyvc.sym import And_, Arr, Seq, zi


def realisation(c, H, br, ordmax, l, shift=None):
    shift = l if shift is None else shift
    U, sig, Vt = MM.svd(H)
    c.numpy_mode += 1
    try:
        S1rad = N.sqrt(MODELS["numpy.diag"](None, [sig], {}))
        Obs = N.dot(N.getitem(U, (slice(None), slice(None, ordmax))), N.getitem(S1rad, (slice(None, ordmax), slice(None, ordmax))))
        nrow = Obs.shape[0]
        O_p = N.getitem(Obs, (slice(None, sym.sub(nrow, shift)), slice(None)))
        O_m = N.getitem(Obs, (slice(shift, None), slice(None)))
        Q, R = MM.qr(O_p, "reduced")
        Sm = N.dot(N.transpose(Q), O_m)
    finally:
        c.numpy_mode -= 1

    def A_of(ii):
        c.numpy_mode += 1
        try:
            return N.dot(MM.inv(N.getitem(R, (slice(None, ii), slice(None, ii)))), N.getitem(Sm, (slice(None, ii), slice(None, ii))))
        finally:
            c.numpy_mode -= 1

    def C_of(ii):
        return N.getitem(Obs, (slice(None, l), slice(None, ii)))
    return Obs, A_of, C_of


def _loop(k, pre, it):
    c = cur()
    g = c.memo["ghost:realise"]
    Obs, A_of, C_of = realisation(c, g["H"], g["br"], g["ordmax"], g["l"])
    return {"A": Seq(k, A_of), "C": Seq(k, C_of)}


@register
class SSI_fast(Contract):
    term_level = True      # obligations over opaque kernels (svd / qr / inv / pinv as uninterpreted matrix terms): see runner

    qualname = "pyoma2.functions.ssi.SSI_fast"
    props = ("C01",)
    name = "realisation structure"
    generic_replay = False
    callable_modular = False
    bounded_driver = {"driver": "c01_exact", "inputs": {"trials": 6}}
    loops = {0: LoopSpec(_loop)}

    def witness(self, o):
        return dict(self.bounded_driver)

    def setup(self, c):
        br = S.integer("br", lo=1)
        l = S.integer("l", lo=1)
        r = S.integer("r", lo=1)
        ordmax = S.integer("ordmax", lo=1)
        nrow = sym.mul(sym.add(br, 1), l)
        ncol = sym.mul(sym.add(br, 1), r)
        c.assume(zi(ordmax) <= zi(sym.mul(br, l)))
        c.assume(zi(ordmax) <= zi(ncol))
        H = S.array("H", "float", shape=(nrow, ncol), finite=True)
        c.memo["ghost:realise"] = {"H": H, "br": br, "ordmax": ordmax, "l": l}
        return {"H": H, "br": br, "ordmax": ordmax, "step": 1, "calc_unc": False, "T": None, "nb": 100}

    def spec(me, c, H, br, ordmax, step=1, calc_unc=False, T=None, nb=100):
        g = c.memo["ghost:realise"]
        Obs, A_of, C_of = realisation(c, g["H"], g["br"], g["ordmax"], g["l"])
        n = sym.add(ordmax, 1)
        return (Obs, Seq(n, A_of), Seq(n, C_of), None, None, None, None)


def legacy(c, H, br, l):
    U, sig, Vt = MM.svd(H)
    c.numpy_mode += 1
    try:
        S1rad = N.sqrt(MODELS["numpy.diag"](None, [sig], {}))
    finally:
        c.numpy_mode -= 1

    def obs(ii):
        c.numpy_mode += 1
        try:
            return N.dot(N.getitem(U, (slice(None), slice(None, ii))), N.getitem(S1rad, (slice(None, ii), slice(None, ii))))
        finally:
            c.numpy_mode -= 1

    def A_of(ii):
        O = obs(ii)
        c.numpy_mode += 1
        try:
            return N.dot(MM.pinv(N.getitem(O, (slice(None, sym.sub(O.shape[0], l)), slice(None)))), N.getitem(O, (slice(l, None), slice(None))))
        finally:
            c.numpy_mode -= 1

    def C_of(ii):
        return N.getitem(obs(ii), (slice(None, l), slice(None)))
    return A_of, C_of


def _loop_legacy(k, pre, it):
    c = cur()
    g = c.memo["ghost:realise"]
    A_of, C_of = legacy(c, g["H"], g["br"], g["l"])
    return {"A": Seq(k, A_of), "C": Seq(k, C_of)}


@register
class SSI_legacy(Contract):
    term_level = True      # obligations over opaque kernels (svd / qr / inv / pinv as uninterpreted matrix terms): see runner

    """legacy realisation: per order ii, Obs_ii = U[:, :ii] sqrt(diag sigma)[:ii, :ii], A = pinv(Obs_ii without its last block
    row) (Obs_ii without its first block row), C = first block row"""
    qualname = "pyoma2.functions.ssi.SSI"
    props = ("C01",)
    name = "realisation structure"
    generic_replay = False
    callable_modular = False
    bounded_driver = {"driver": "c01_exact", "inputs": {"trials": 6}}
    loops = {0: LoopSpec(_loop_legacy)}

    def witness(self, o):
        return dict(self.bounded_driver)

    def setup(self, c):
        br = S.integer("br", lo=1)
        l = S.integer("l", lo=1)
        r = S.integer("r", lo=1)
        ordmax = S.integer("ordmax", lo=1)
        nrow = sym.mul(sym.add(br, 1), l)
        ncol = sym.mul(sym.add(br, 1), r)
        c.assume(zi(ordmax) <= zi(sym.mul(br, l)))
        c.assume(zi(ordmax) <= zi(ncol))
        H = S.array("H", "float", shape=(nrow, ncol), finite=True)
        c.memo["ghost:realise"] = {"H": H, "br": br, "ordmax": ordmax, "l": l}
        return {"H": H, "br": br, "ordmax": ordmax, "step": 1}

    def spec(me, c, H, br, ordmax, step=1):
        g = c.memo["ghost:realise"]
        A_of, C_of = legacy(c, g["H"], g["br"], g["l"])
        n = sym.add(ordmax, 1)
        return (Seq(n, A_of), Seq(n, C_of))
