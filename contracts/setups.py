"""C14 (and the binding clause of C15): preprocessing operations of SingleSetup and MultiSetup_PreGER as
per-operation contracts over a representation invariant.  scipy routines are uninterpreted pure functions."""
import z3

from pyvc import models as MD
from pyvc import npmodel as N
from pyvc import spec as S
from pyvc import sym
from pyvc.contract import Contract, register
from pyvc.core import PyRaise, cur
from pyvc.interp import assert_same
from pyvc.sym import And_, Arr, F, Implies_, Not_, Obj, Seq, zi

from .gen_split import RefList

SS = "pyoma2.setup.single.SingleSetup"
MS = "pyoma2.setup.multi.MultiSetup_PreGER"


def data_array(name, n=None, nch=None):
    from pyvc import matmodel as MM
    n = S.integer(name + ".Ndat", lo=1) if n is None else n
    nch = S.integer(name + ".Nch", lo=1) if nch is None else nch
    a = S.array(name, "float", shape=(n, nch), finite=True)
    MM.termify(a)
    return a


def arrays_in(v, acc=None, seen=None):
    acc = [] if acc is None else acc
    seen = set() if seen is None else seen
    if id(v) in seen:
        return acc
    seen.add(id(v))
    if isinstance(v, Arr):
        acc.append(v)
    elif isinstance(v, (list, tuple)):
        for x in v:
            arrays_in(x, acc, seen)
    elif isinstance(v, dict):
        for x in v.values():
            arrays_in(x, acc, seen)
    elif isinstance(v, Obj):
        for x in v.fields.values():
            arrays_in(x, acc, seen)
    return acc


def decimate_kwargs(c):
    """the documented keywords of scipy.signal.decimate, in several combinations (one proof path each)"""
    which = S.integer("kw_variant", lo=0, hi=5)
    if c.branch(which == 0):
        return {}
    if c.branch(which == 1):
        return {"n": S.integer("n", lo=1)}
    if c.branch(which == 2):
        return {"ftype": "fir"}
    if c.branch(which == 3):
        return {"zero_phase": False}
    if c.branch(which == 4):
        return {"axis": 0}
    return {"n": S.integer("n", lo=1), "ftype": "fir", "axis": 0, "zero_phase": False}


def detrend_kwargs(c):
    which = S.integer("kw_variant", lo=0, hi=3)
    if c.branch(which == 0):
        return {}
    if c.branch(which == 1):
        return {"type": "constant"}
    if c.branch(which == 2):
        return {"axis": 0, "type": "linear", "bp": S.integer("bp", lo=0)}
    return {"bp": S.integer("bp", lo=0)}


def DEC(x, q, kw):
    return MD.MODELS["scipy.signal.decimate"](None, [x, q], {"n": kw.get("n"), "ftype": kw.get("ftype", "iir"),
                                                               "axis": kw.get("axis", 0), "zero_phase": kw.get("zero_phase", True)})


def DET(x, kw):
    k2 = {k: v for k, v in kw.items() if k != "axis"}
    return MD.MODELS["scipy.signal.detrend"](None, [x], dict(k2, axis=kw.get("axis", 0)))


def FIL(x, fs, Wn, order, btype):
    sos = MD.MODELS["scipy.signal.butter"](None, [order, Wn], {"btype": btype, "output": "sos", "fs": fs})
    return MD.MODELS["scipy.signal.sosfiltfilt"](None, [sos, x], {"axis": 0})


# ----------------------------------------------------------------------------------
# SingleSetup
# ----------------------------------------------------------------------------------

def single_setup(c):
    """an object satisfying the representation invariant Inv_S"""
    data = data_array("data")
    init = data_array("initial_data")
    fs = S.real("fs", pos=True)
    fs0 = S.real("fs0", pos=True)
    dt = sym.div(1, fs)
    o = Obj(SS, {"data": data, "fs": fs, "dt": dt, "Nch": data.shape[1], "Ndat": data.shape[0],
                 "T": sym.mul(dt, data.shape[0]), "_initial_data": init, "_initial_fs": fs0, "algorithms": {}})
    return o


def inv_single(c, o, label="Inv_S"):
    f = o.fields
    c.numpy_mode += 1
    try:
        c.oblige("post", label + ".dt=1/fs", sym.same(f["dt"], sym.div(1, f["fs"])))
        c.oblige("post", label + ".Ndat=len(data)", sym.eq(f["Ndat"], f["data"].shape[0]))
        c.oblige("post", label + ".Nch=data.shape[1]", sym.eq(f["Nch"], f["data"].shape[1]))
        c.oblige("post", label + ".T=Ndat*dt", sym.same(f["T"], sym.mul(f["data"].shape[0], sym.div(1, f["fs"]))))
    finally:
        c.numpy_mode -= 1


class _Op(Contract):
    props = ("C14",)
    generic_replay = False
    callable_modular = False
    bounded_driver = {"driver": "c14_sequences", "inputs": {}}

    def witness(self, o):
        if "earlier algorithm" in o.oid:
            return {"driver": "c15_gating", "inputs": {"trials": 40}}
        d = {"driver": "c14_sequences", "inputs": {"ignore_T": not (".T=" in o.oid or ".Ts[" in o.oid)}}
        return d

    def common(self, c, pre, post, outcome, expect_data=None, expect_fs=None):
        if outcome[0] != "return":
            c.oblige("post", "accepted-without-exception", False, {"raised": outcome[1]})
            return False
        P, Q = pre["self"].fields, post["self"].fields
        # frame: no array reachable from the pre-state (user data, initial copy) is written in place
        for a, v0 in self._versions:
            c.oblige("frame", "no-array-modified-in-place", a.version == v0)
        # the initial copy and its sampling frequency are never touched (except by __init__)
        if "_initial_data" in P:
            c.oblige("post", "initial-copy-kept", Q["_initial_data"] is self._objs["_initial_data"])
            c.oblige("post", "initial-fs-kept", sym.same(Q["_initial_fs"], P["_initial_fs"]))
        return True

    def remember(self, c, o):
        self._versions = [(a, a.version) for a in arrays_in(o)]
        self._objs = dict(o.fields)


@register
class single_init(_Op):
    qualname = SS + ".__init__"

    def setup(self, c):
        self.user = data_array("user_data")
        self._versions = [(self.user, self.user.version)]
        self._objs = {}
        return {"self": Obj(SS, {}), "data": self.user, "fs": S.real("fs", pos=True)}

    def check(self, c, pre, post, outcome):
        if outcome[0] != "return":
            c.oblige("post", "accepted-without-exception", False, {"raised": outcome[1]})
            return
        Q = post["self"].fields
        c.oblige("frame", "user-array-not-modified", self.user.version == self._versions[0][1])
        c.oblige("post", "data-is-user-data", Q["data"] is post["data"])
        c.oblige("post", "initial-copy-is-a-distinct-array", isinstance(Q.get("_initial_data"), Arr) and Q["_initial_data"] is not post["data"])
        assert_same("initial-copy-equals-data", Q["_initial_data"], pre["data"], "post")
        c.oblige("post", "initial-fs", sym.same(Q["_initial_fs"], pre["fs"]))
        c.oblige("post", "fs", sym.same(Q["fs"], pre["fs"]))
        c.oblige("post", "no-algorithms", Q["algorithms"] == {})
        inv_single(c, post["self"])


class _SingleOp(_Op):
    def setup(self, c):
        o = single_setup(c)
        self.remember(c, o)
        return dict({"self": o}, **self.args(c))

    def args(self, c):
        return {}


@register
class single_decimate(_SingleOp):
    qualname = SS + ".decimate_data"

    def args(self, c):
        return dict({"q": S.integer("q", lo=2)}, **decimate_kwargs(c))

    def check(self, c, pre, post, outcome):
        if not self.common(c, pre, post, outcome):
            return
        P, Q = pre["self"].fields, post["self"].fields
        kw = {k: v for k, v in pre.items() if k not in ("self", "q")}
        c.numpy_mode += 1
        try:
            assert_same("data=decimate(data,q,...)", Q["data"], DEC(self._objs["data"], pre["q"], kw), "post")
            c.oblige("post", "fs/=q", sym.same(Q["fs"], sym.div(P["fs"], pre["q"])))
        finally:
            c.numpy_mode -= 1
        inv_single(c, post["self"])


@register
class single_detrend(_SingleOp):
    qualname = SS + ".detrend_data"

    def args(self, c):
        return detrend_kwargs(c)

    def check(self, c, pre, post, outcome):
        if not self.common(c, pre, post, outcome):
            return
        P, Q = pre["self"].fields, post["self"].fields
        kw = {k: v for k, v in pre.items() if k != "self"}
        assert_same("data=detrend(data,...)", Q["data"], DET(self._objs["data"], kw), "post")
        c.oblige("post", "fs-unchanged", sym.same(Q["fs"], P["fs"]))
        inv_single(c, post["self"])


@register
class single_filter(_SingleOp):
    qualname = SS + ".filter_data"

    def args(self, c):
        a = {"Wn": S.real("Wn", pos=True)}
        if c.branch(S.boolean("explicit_order")):
            a["order"] = S.integer("order", lo=1)
            a["btype"] = "highpass"
        return a

    def check(self, c, pre, post, outcome):
        if not self.common(c, pre, post, outcome):
            return
        P, Q = pre["self"].fields, post["self"].fields
        want = FIL(self._objs["data"], P["fs"], pre["Wn"], pre.get("order", 8), pre.get("btype", "lowpass"))
        assert_same("data=butter+sosfiltfilt(data, current fs, Wn, order, btype)", Q["data"], want, "post")
        c.oblige("post", "fs-unchanged", sym.same(Q["fs"], P["fs"]))
        inv_single(c, post["self"])


@register
class single_rollback(_SingleOp):
    qualname = SS + ".rollback"
    # an alias between the working array and the stored initial copy is harmless as long as no operation writes in place (since /repo
    # 9277f10 none does): the clause is kept as an early warning, but it is a violation only when c14_sequences shows the initial copy,
    # the user's array or a restored state actually changing
    replay_gated = ("data-and-initial-copy-are-distinct-arrays",)

    def check(self, c, pre, post, outcome):
        if outcome[0] != "return":
            c.oblige("post", "accepted-without-exception", False, {"raised": outcome[1]})
            return
        P, Q = pre["self"].fields, post["self"].fields
        for a, v0 in self._versions:
            c.oblige("frame", "no-array-modified-in-place", a.version == v0)
        assert_same("data-restored", Q["data"], self._objs["_initial_data"], "post")
        assert_same("initial-copy-still-equal", Q["_initial_data"], self._objs["_initial_data"], "post")
        c.oblige("post", "data-and-initial-copy-are-distinct-arrays", Q["data"] is not Q["_initial_data"])
        c.oblige("post", "fs-restored", sym.same(Q["fs"], P["_initial_fs"]))
        c.oblige("post", "initial-fs-kept", sym.same(Q["_initial_fs"], P["_initial_fs"]))
        inv_single(c, post["self"])


def algo_stub(name):
    return Obj("pyoma2.algorithms.ssi.SSIcov", {"name": name, "result": None, "run_params": sym.Opaque("rp")})


@register
class single_add_algorithms(_Op):
    qualname = "pyoma2.setup.base.BaseSetup.add_algorithms"
    props = ("C14", "C15")

    def setup(self, c):
        o = single_setup(c)
        old = algo_stub("old")
        # an algorithm added earlier is bound to the data / sampling frequency current THEN (e.g. before a decimation)
        self.old_binding = {"data": data_array("data_when_old_was_added"), "fs": S.real("fs_when_old_was_added", pos=True),
                            "dt": S.real("dt_when_old_was_added", pos=True)}
        old.fields.update(self.old_binding)
        self.old = old
        o.fields["algorithms"] = {"old": old}
        self.remember(c, o)
        self.algs = [algo_stub("a"), algo_stub("b")]
        return {"self": o, "algorithms": tuple(self.algs)}

    def check(self, c, pre, post, outcome):
        if not self.common(c, pre, post, outcome):
            return
        P, Q = pre["self"].fields, post["self"].fields
        c.oblige("post", "registered-in-order", list(Q["algorithms"].keys()) == ["old", "a", "b"])
        for a in self.algs:
            c.oblige("post", f"{a.fields['name']}.data-is-current-data", a.fields.get("data") is self._objs["data"],
                     {"what": "the algorithm is bound to the data current when it is added"})
            c.oblige("post", f"{a.fields['name']}.fs", sym.same(a.fields.get("fs"), P["fs"]))
            c.numpy_mode += 1
            try:
                c.oblige("post", f"{a.fields['name']}.dt=1/fs", sym.same(a.fields.get("dt"), sym.div(1, P["fs"])))
            finally:
                c.numpy_mode -= 1
        c.oblige("post", "data-unchanged", Q["data"] is self._objs["data"])
        # isolation (C15): algorithms registered earlier keep the data and sampling frequency bound when THEY were added
        oldQ = Q["algorithms"].get("old")
        c.oblige("frame", "earlier algorithm is the same object", oldQ is self.old)
        if oldQ is not None:
            c.oblige("frame", "earlier algorithm keeps its data binding", oldQ.fields.get("data") is self.old_binding["data"])
            c.oblige("frame", "earlier algorithm keeps its fs", sym.same(oldQ.fields.get("fs"), self.old_binding["fs"]))
            c.oblige("frame", "earlier algorithm keeps its dt", sym.same(oldQ.fields.get("dt"), self.old_binding["dt"]))
            c.oblige("frame", "earlier algorithm keeps its result and parameters",
                     oldQ.fields.get("result") is None and oldQ.fields.get("run_params") is self.old.fields["run_params"])


# ----------------------------------------------------------------------------------
# MultiSetup_PreGER
# ----------------------------------------------------------------------------------

NDS = 2


def split_spec(c, datasets, reflists):
    """the reference/roving split of C03 applied to `datasets` (same spec function as gen.pre_multisetup's contract)"""
    from .gen_split import pre_multisetup2
    return pre_multisetup2().spec(c, datasets, [r.seq for r in reflists])


def multi_setup(c, with_state=True):
    rls, dss, inits = [], [], []
    for s in range(NDS):
        n = S.integer(f"Nch{s}", lo=2)
        nref = S.integer(f"Nref{s}", lo=1)
        c.assume(nref < n)
        rls.append(RefList(f"ref_ind{s}", nref, n))
        dss.append(data_array(f"dataset{s}", nch=n))
        inits.append(data_array(f"initial_dataset{s}", nch=n))
    fs = S.real("fs", pos=True)
    dt = sym.div(1, fs)
    refs = [r.seq for r in rls]
    o = Obj(MS, {"fs": fs, "dt": dt, "ref_ind": refs, "datasets": dss, "_initial_fs": S.real("fs0", pos=True),
                 "_initial_ref_ind": [r.seq for r in rls], "_initial_datasets": inits, "Nsetup": NDS,
                 "data": split_spec(c, dss, rls), "algorithms": {},
                 "Nchs": [d.shape[1] for d in dss], "Ndats": [d.shape[0] for d in dss],
                 "Ts": [sym.mul(dt, d.shape[0]) for d in dss]})
    c.memo["ghost:reflists"] = rls
    return o


def inv_multi(c, o, rls, label="Inv_M"):
    f = o.fields
    c.numpy_mode += 1
    try:
        c.oblige("post", label + ".dt=1/fs", sym.same(f["dt"], sym.div(1, f["fs"])))
        ds = f["datasets"]
        c.oblige("post", label + ".len", len(ds) == NDS and len(f["Ndats"]) == NDS and len(f["Ts"]) == NDS)
        for s in range(min(NDS, len(ds), len(f["Ndats"]), len(f["Ts"]))):
            c.oblige("post", label + f".Ndats[{s}]=len(datasets[{s}])", sym.eq(f["Ndats"][s], ds[s].shape[0]))
            c.oblige("post", label + f".Ts[{s}]=Ndats*dt", sym.same(f["Ts"][s], sym.mul(ds[s].shape[0], sym.div(1, f["fs"]))))
        assert_same(label + ".data=split(datasets)", f["data"], split_spec(c, ds, rls), "post")
    finally:
        c.numpy_mode -= 1


class _MultiOp(_Op):
    # C03's split clause ("... and after every preprocessing step ... references in the listed order") is these contracts' postcondition
    props = ("C14", "C03")
    prop_clauses = {"C03": lambda oid: "data=split(datasets)" in oid or "accepted-without-exception" in oid or "datasets[" in oid}

    def setup(self, c):
        o = multi_setup(c)
        self.remember(c, o)
        self.rls = c.memo["ghost:reflists"]
        return dict({"self": o}, **self.args(c))

    def args(self, c):
        return {}

    def common_multi(self, c, pre, post, outcome):
        if outcome[0] != "return":
            c.oblige("post", "accepted-without-exception", False, {"raised": outcome[1]})
            return False
        P, Q = pre["self"].fields, post["self"].fields
        for a, v0 in self._versions:
            c.oblige("frame", "no-array-modified-in-place", a.version == v0)
        c.oblige("post", "initial-copies-kept", all(x is y for x, y in zip(Q["_initial_datasets"], self._objs["_initial_datasets"]))
                 and len(Q["_initial_datasets"]) == NDS)
        c.oblige("post", "initial-fs-kept", sym.same(Q["_initial_fs"], P["_initial_fs"]))
        return True


@register
class multi_decimate(_MultiOp):
    qualname = MS + ".decimate_data"

    def args(self, c):
        return dict({"q": S.integer("q", lo=2)}, **decimate_kwargs(c))

    def check(self, c, pre, post, outcome):
        if not self.common_multi(c, pre, post, outcome):
            return
        P, Q = pre["self"].fields, post["self"].fields
        kw = {k: v for k, v in pre.items() if k not in ("self", "q")}
        c.numpy_mode += 1
        try:
            for s in range(NDS):
                assert_same(f"datasets[{s}]=decimate(...)", Q["datasets"][s], DEC(self._objs["datasets"][s], pre["q"], kw), "post")
            c.oblige("post", "fs/=q", sym.same(Q["fs"], sym.div(P["fs"], pre["q"])))
        finally:
            c.numpy_mode -= 1
        inv_multi(c, post["self"], self.rls)


@register
class multi_detrend(_MultiOp):
    qualname = MS + ".detrend_data"

    def args(self, c):
        return detrend_kwargs(c)

    def check(self, c, pre, post, outcome):
        if not self.common_multi(c, pre, post, outcome):
            return
        P, Q = pre["self"].fields, post["self"].fields
        kw = {k: v for k, v in pre.items() if k != "self"}
        for s in range(NDS):
            assert_same(f"datasets[{s}]=detrend(...)", Q["datasets"][s], DET(self._objs["datasets"][s], kw), "post")
        c.oblige("post", "fs-unchanged", sym.same(Q["fs"], P["fs"]))
        inv_multi(c, post["self"], self.rls)


@register
class multi_filter(_MultiOp):
    qualname = MS + ".filter_data"

    def args(self, c):
        return {"Wn": S.real("Wn", pos=True)}

    def check(self, c, pre, post, outcome):
        if not self.common_multi(c, pre, post, outcome):
            return
        P, Q = pre["self"].fields, post["self"].fields
        for s in range(NDS):
            assert_same(f"datasets[{s}]=filter(...)", Q["datasets"][s],
                        FIL(self._objs["datasets"][s], P["fs"], pre["Wn"], 8, "lowpass"), "post")
        c.oblige("post", "fs-unchanged", sym.same(Q["fs"], P["fs"]))
        inv_multi(c, post["self"], self.rls)


@register
class multi_rollback(_MultiOp):
    qualname = MS + ".rollback"

    def check(self, c, pre, post, outcome):
        if outcome[0] != "return":
            c.oblige("post", "accepted-without-exception", False, {"raised": outcome[1]})
            return
        P, Q = pre["self"].fields, post["self"].fields
        for a, v0 in self._versions:
            c.oblige("frame", "no-array-modified-in-place", a.version == v0)
        for s in range(NDS):
            assert_same(f"datasets[{s}]-restored", Q["datasets"][s], self._objs["_initial_datasets"][s], "post")
            assert_same(f"initial-copy[{s}]-still-equal", Q["_initial_datasets"][s], self._objs["_initial_datasets"][s], "post")
            c.oblige("post", f"datasets[{s}]-and-initial-copy-are-distinct-arrays", Q["datasets"][s] is not Q["_initial_datasets"][s])
        c.oblige("post", "fs-restored", sym.same(Q["fs"], P["_initial_fs"]))
        inv_multi(c, post["self"], self.rls)


@register
class multi_init(_Op):
    qualname = MS + ".__init__"
    props = ("C14", "C03")
    prop_clauses = dict(_MultiOp.prop_clauses)

    def setup(self, c):
        rls, dss = [], []
        for s in range(NDS):
            n = S.integer(f"Nch{s}", lo=2)
            nref = S.integer(f"Nref{s}", lo=1)
            c.assume(nref < n)
            rls.append(RefList(f"ref_ind{s}", nref, n))
            dss.append(data_array(f"user_dataset{s}", nch=n))
        self.rls = rls
        self._versions = [(a, a.version) for a in dss]
        self._objs = {}
        return {"self": Obj(MS, {}), "fs": S.real("fs", pos=True), "ref_ind": [r.seq for r in rls], "datasets": dss}

    def check(self, c, pre, post, outcome):
        if outcome[0] != "return":
            c.oblige("post", "accepted-without-exception", False, {"raised": outcome[1]})
            return
        Q = post["self"].fields
        for a, v0 in self._versions:
            c.oblige("frame", "user-arrays-not-modified", a.version == v0)
        for s in range(NDS):
            c.oblige("post", f"initial-copy[{s}]-is-a-distinct-array", Q["_initial_datasets"][s] is not post["datasets"][s])
            assert_same(f"initial-copy[{s}]-equals-dataset", Q["_initial_datasets"][s], pre["datasets"][s], "post")
        c.oblige("post", "fs", sym.same(Q["fs"], pre["fs"]))
        c.oblige("post", "initial-fs", sym.same(Q["_initial_fs"], pre["fs"]))
        inv_multi(c, post["self"], self.rls)


# ----------------------------------------------------------------------------------------------------------------------
# scipy's in-place keyword: detrend(overwrite_data=True) writes into the array it is given.  The verifier's detrend kernel is a pure
# function of its argument (an in-place kernel is refused), so operation sequences that contain the keyword - as first operation, after a
# rollback, on both setup kinds - are searched natively on every run (labelled bounded; found /repo 9277f10)
# ----------------------------------------------------------------------------------------------------------------------

@register
class inplace_keyword(Contract):
    qualname = SS + ".detrend_data"
    props = ("C14",)
    name = "scipy's in-place keyword (overwrite_data)"
    bounded_only = True
    callable_modular = False
    generic_replay = False
    bounded_reason = ("unsupported: scipy.signal.detrend(overwrite_data=True) may write into its argument; the verifier models the routine as a pure "
                      "kernel and refuses the in-place form")
    bounded_bound = ("every sequence of length <= 2 and 900 of length 3 over {3 decimations, 3 detrends (one with type='linear', overwrite_data=True), filter, "
                     "rollback, add_algorithms} on a SingleSetup (1500 x 3) and a 2-dataset MultiSetup_PreGER: data / fs / dt / sample counts against scipy "
                     "applied directly, the user's arrays and the stored initial copies compared bit for bit after every step")
    bounded_driver = {"driver": "c14_sequences", "inputs": {"trials": 902, "trials_thorough": 902}}      # the number of sequences the driver enumerates

