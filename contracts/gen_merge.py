"""C02: PoSER merging - gen.MSF, gen.merge_mode_shapes, MultiSetup_PoSER.merge_results."""
import z3

from pyvc import npmodel as N
from pyvc import spec as S
from pyvc import sym
from pyvc.contract import Contract, register, spec_canary
from pyvc.core import PyRaise, cur
from pyvc.interp import LoopSpec
from pyvc.sym import And_, Arr, C, F, Implies_, Not_, Obj, Seq, zi

I = z3.IntSort()
R = z3.RealSort()


def index_list(name, nref, n):
    """list of `nref` reference-channel indices into range(n) together with the strictly increasing enumeration
    of the remaining channels (list lemma A7: that enumeration exists and is unique)."""
    c = cur()
    Rf = z3.Function(c.fresh_name(name + ".ref"), I, I)
    Vf = z3.Function(c.fresh_name(name + ".rov"), I, I)

    def ref(a):
        v = Rf(zi(a))
        c.fact(z3.And(v >= 0, v < zi(n)))
        return v

    def rov(b):
        v = Vf(zi(b))
        c.fact(z3.And(v >= 0, v < zi(n)))
        return v
    s = Seq(nref, ref, label=name)
    s.meta["rov"] = lambda n_, nref=nref, rov=rov: (sym.sub(n_, nref), rov)
    s.meta["ref_decl"] = Rf
    s.meta["rov_decl"] = Vf
    return s


def bil(x, y):
    """non-conjugated bilinear form sum_n x[n]*y[n] of two 1-D arrays (lazy sum)"""
    fx, fy = x.snapshot_fn(), y.snapshot_fn()
    return N.make_sum(x.axes[0], lambda t: sym.mul(fx((tuple(t),)), fy((tuple(t),))))


def _col(a, i):
    f = a.snapshot_fn()
    if a.ndim == 1:
        return a
    return Arr((a.axes[0],), lambda idx: f((idx[0], (i,))), a.kind)


def msf_value(phi_1, phi_2, i):
    x, y = _col(phi_1, i), _col(phi_2, i)
    c = cur()
    c.numpy_mode += 1
    try:
        return sym.real_(sym.div(bil(y, x), bil(x, x)))
    finally:
        c.numpy_mode -= 1


@register
class MSF(Contract):
    qualname = "pyoma2.functions.gen.MSF"
    props = ("C02", "C18")
    loops = {0: LoopSpec(lambda k, pre, it: {"msf": Seq(k, lambda i: _msf_raw(pre["phi_1"], pre["phi_2"], i))})}

    def setup(self, c):
        n = S.integer("n_loc", lo=1)
        if c.branch(S.boolean("one_dimensional")):
            return {"phi_1": S.array("phi_1", "complex", shape=(n,), finite=True),
                    "phi_2": S.array("phi_2", "complex", shape=(n,), finite=True)}
        m = S.integer("n_modes", lo=1)
        return {"phi_1": S.array("phi_1", "complex", shape=(n, m), finite=True),
                "phi_2": S.array("phi_2", "complex", shape=(n, m), finite=True)}

    def requires(self, c, phi_1, phi_2):
        return [("same-shape", And_(phi_1.ndim == phi_2.ndim, *[sym.eq(a, b) for a, b in zip(phi_1.shape, phi_2.shape)]))]

    def spec(self, c, phi_1, phi_2):
        """msf[i] = Re( b(phi_2[:, i], phi_1[:, i]) / b(phi_1[:, i], phi_1[:, i]) ), b the non-conjugated bilinear form;
        hence MSF(v, c v) = c for every real c whenever b(v, v) != 0."""
        m = 1 if phi_1.ndim == 1 else phi_1.shape[1]
        return Arr(((m,),), lambda idx: msf_value(phi_1, phi_2, idx[0][0]), "float")

    def _inverted(self, c, phi_1, phi_2):
        m = 1 if phi_1.ndim == 1 else phi_1.shape[1]
        return Arr(((m,),), lambda idx: msf_value(phi_2, phi_1, idx[0][0]), "float")

    canaries = {"inverse factor": spec_canary(_inverted)}


def _msf_raw(phi_1, phi_2, i):
    """the complex ratio appended to the list inside MSF's loop (before .real)"""
    p1 = phi_1 if phi_1.ndim == 2 else N.getitem(phi_1, (slice(None), None))
    p2 = phi_2 if phi_2.ndim == 2 else N.getitem(phi_2, (slice(None), None))
    x, y = _col(p1, i), _col(p2, i)
    c = cur()
    c.numpy_mode += 1
    try:
        return sym.div(bil(y, x), bil(x, x))
    finally:
        c.numpy_mode -= 1


# ----------------------------------------------------------------------------------
# merge_mode_shapes under the property's hypothesis
# ----------------------------------------------------------------------------------

def scaled_setup(s, n_s, n_modes, refs, cfac, Gref, Grov):
    """mode-shape matrix of setup s: restriction of the global shape matrix to that setup's sensors times a non-zero
    real factor c(s, k) per mode.  Reads through the reference list give c*Gref(a, k), reads through the complement
    enumeration give c*Grov(s, b, k); any other read is unconstrained (a sound over-approximation)."""
    c = cur()
    raw_re = z3.Function(c.fresh_name(f"MSraw{s}.re"), I, I, R)
    raw_im = z3.Function(c.fresh_name(f"MSraw{s}.im"), I, I, R)
    rd, vd = refs.meta["ref_decl"], refs.meta["rov_decl"]

    def fn(idx):
        n, k = idx[0][0], idx[1][0]
        ne = z3.simplify(zi(n))
        fac = cfac(s, k)
        if z3.is_app(ne) and ne.decl().eq(rd):
            g = Gref(ne.arg(0), k)
            return C(False, fac * g[0], fac * g[1])
        if z3.is_app(ne) and ne.decl().eq(vd):
            g = Grov(s, ne.arg(0), k)
            return C(False, fac * g[0], fac * g[1])
        return C(False, raw_re(zi(n), zi(k)), raw_im(zi(n), zi(k)))
    a = Arr(((n_s,), (n_modes,)), fn, "complex", label=f"MS{s}")
    a.fresh = False
    return a


def nondeg(g, j):
    """assumption instance: the reference part of mode j has a non-vanishing non-conjugated self product"""
    c = cur()
    gs = sym.toC(N.make_sum((g["nref"],), lambda t: sym.mul(C(False, *g["Gref"](t[0], j)), C(False, *g["Gref"](t[0], j)))))
    c.fact(z3.Or(gs.re != 0, gs.im != 0))


def expected_merged(g, nsetup):
    """the property's merged matrix: row -> c(0, j) * G[sensor of that row, j]"""
    Ns, nref, nm = g["Ns"], g["nref"], g["nm"]
    total = nref
    offs = []
    for n in Ns:
        offs.append(total)
        total = sym.add(total, sym.sub(n, nref))

    def cellfn(idx):
        row, j = idx[0][0], idx[1][0]
        nondeg(g, j)
        c0 = g["cfac"](0, j)
        gr = g["Gref"](row, j)
        val = C(False, c0 * gr[0], c0 * gr[1])
        res = None
        # piecewise from the last block backwards
        for s in reversed(range(nsetup)):
            gv = g["Grov"](s, sym.sub(row, offs[s]), j)
            blk = C(False, c0 * gv[0], c0 * gv[1])
            res = blk if res is None else sym.ite(sym.lt(row, offs[s + 1]) if s + 1 < nsetup else True, blk, res)
        return sym.ite(sym.lt(row, nref), val, res)
    return Arr(((total,), (nm,)), cellfn, "complex"), total


def _mode_loop(nsetup):
    def state(k, pre, it):
        g = cur().memo["ghost:merge"]
        E, total = expected_merged(g, nsetup)
        ef = E.snapshot_fn()
        zero = C(False, z3.RealVal(0), z3.RealVal(0))
        return {"merged_mode_shapes": Arr(E.axes, lambda idx: sym.ite(sym.lt(idx[1][0], k), ef(idx), zero), "complex")}
    return LoopSpec(state)


class _Merge(Contract):
    qualname = "pyoma2.functions.gen.merge_mode_shapes"
    props = ("C02",)
    NSETUP = 2
    generic_replay = False

    def setup(self, c):
        S_ = self.NSETUP
        nref = S.integer("Nref", lo=1)
        nm = S.integer("Nmodes", lo=1)
        Ns = [S.integer(f"N{s}", lo=1) for s in range(S_)]
        for n in Ns:
            c.assume(n >= nref)
        cf = z3.Function("cfac", I, I, R)
        gr_re, gr_im = z3.Function("Gref.re", I, I, R), z3.Function("Gref.im", I, I, R)
        gv_re, gv_im = z3.Function("Grov.re", I, I, I, R), z3.Function("Grov.im", I, I, I, R)

        def cfac(s, k):
            v = cf(zi(s), zi(k))
            c.fact(v != 0)
            return v
        Gref = lambda a, k: (gr_re(zi(a), zi(k)), gr_im(zi(a), zi(k)))          # noqa: E731
        Grov = lambda s, b, k: (gv_re(zi(s), zi(b), zi(k)), gv_im(zi(s), zi(b), zi(k)))   # noqa: E731
        refl = [index_list(f"refs{s}", nref, Ns[s]) for s in range(S_)]
        MS = [scaled_setup(s, Ns[s], nm, refl[s], cfac, Gref, Grov) for s in range(S_)]
        c.memo["ghost:merge"] = {"cfac": cfac, "Gref": Gref, "Grov": Grov, "Ns": Ns, "nref": nref, "nm": nm}
        # the property excludes reference shapes whose non-conjugated self product vanishes (real shapes: non-zero)
        self.nondegenerate(c, nref, nm, Gref)
        return {"MSarr_list": MS, "reflist": refl}

    def nondegenerate(self, c, nref, nm, Gref):
        c.memo["ghost:merge"]["nondeg"] = True

    def check(self, c, pre, post, outcome):
        if outcome[0] != "return":
            c.oblige("post", "no-exception", False, {"raised": outcome[1]})
            return
        g = c.memo["ghost:merge"]
        out = outcome[1]
        Ns, nref, nm = g["Ns"], g["nref"], g["nm"]
        total = nref
        for n in Ns:
            total = sym.add(total, sym.sub(n, nref))
        c.oblige("post", "shape", And_(out.ndim == 2, sym.eq(out.shape[0], total), sym.eq(out.shape[1], nm)))
        from pyvc.interp import assert_same
        E, _ = expected_merged(g, self.NSETUP)
        assert_same("merged", out, E, "post")

    def witness(self, o):
        return {"driver": "c02_merge", "inputs": {"nsetup": self.NSETUP}}

    @property
    def bounded_driver(self):
        return {"driver": "c02_merge", "inputs": {"nsetup": self.NSETUP}}


@register
class merge2(_Merge):
    name = "2 setups"
    NSETUP = 2
    loops = {1: _mode_loop(2)}


@register
class merge3(_Merge):
    name = "3 setups"
    NSETUP = 3
    loops = {1: _mode_loop(3)}


# ----------------------------------------------------------------------------------
# MultiSetup_PoSER.merge_results: grouping by position, mean / population std / merge arguments
# ----------------------------------------------------------------------------------

@register
class merge_havoc(Contract):
    """call-site contract inside merge_results: the merged shape is *some* function of the argument lists; which
    arrays are passed, in which order, is what merge_results' contract pins (merge itself: contracts above)."""
    qualname = "pyoma2.functions.gen.merge_mode_shapes"
    name = "havoc"
    verify_body = False

    def spec(self, c, MSarr_list, reflist):
        calls = c.memo.setdefault("ghost:merge_calls", [])
        out = sym.Opaque("merged", len(calls))
        calls.append({"MS": list(MSarr_list), "refs": reflist, "out": out})
        return out


@register
class merge_results(Contract):
    qualname = "pyoma2.setup.multi.MultiSetup_PoSER.merge_results"
    props = ("C02",)
    bounded_driver = {"driver": "c02_results", "inputs": {}}

    def witness(self, o):
        return dict(self.bounded_driver)
    callable_modular = False
    generic_replay = False
    use = {"pyoma2.functions.gen.merge_mode_shapes": "havoc"}
    NS = 3      # setups
    NA = 2      # algorithms per setup

    def setup(self, c):
        m = [S.integer(f"modes{a}", lo=1) for a in range(self.NA)]
        setups = []
        ghost = {"Fn": {}, "Xi": {}, "Phi": {}}
        for s in range(self.NS):
            algs = {}
            for a in range(self.NA):
                n_s = S.integer(f"N{s}_{a}", lo=1)
                Fn = S.array(f"Fn{s}_{a}", "float", shape=(m[a],), finite=True)
                Xi = S.array(f"Xi{s}_{a}", "float", shape=(m[a],), finite=True)
                Phi = S.array(f"Phi{s}_{a}", "complex", shape=(n_s, m[a]), finite=True)
                ghost["Fn"][(s, a)], ghost["Xi"][(s, a)], ghost["Phi"][(s, a)] = Fn, Xi, Phi
                res = Obj("pyoma2.algorithms.data.result.SSIResult", {"Fn": Fn, "Xi": Xi, "Phi": Phi})
                # algorithm names differ between setups: grouping must be by position, not by name
                algs[f"alg{a}_in_setup{s}"] = Obj("pyoma2.algorithms.ssi.SSIcov", {"result": res, "name": f"alg{a}_in_setup{s}"})
            setups.append(Obj("pyoma2.setup.single.SingleSetup", {"algorithms": algs}))
        refs = sym.Opaque("ref_ind")
        c.memo["ghost:poser"] = ghost
        slf = Obj("pyoma2.setup.multi.MultiSetup_PoSER", {"_setups": setups, "names": [f"group{a}" for a in range(self.NA)],
                                                         "ref_ind": refs, "__result": None})
        return {"self": slf}

    def check(self, c, pre, post, outcome):
        from pyvc.interp import assert_same
        if outcome[0] != "return":
            c.oblige("post", "no-exception", False, {"raised": outcome[1]})
            return
        res = outcome[1]
        g = c.memo["ghost:poser"]
        calls = c.memo.get("ghost:merge_calls", [])
        c.oblige("post", "groups", isinstance(res, dict) and list(res.keys()) == [f"group{a}" for a in range(self.NA)])
        if not isinstance(res, dict):
            return
        for a in range(self.NA):
            r = res.get(f"group{a}")
            if r is None:
                continue
            R = r.fields
            fns = [g["Fn"][(s, a)] for s in range(self.NS)]
            xis = [g["Xi"][(s, a)] for s in range(self.NS)]
            for nm, arrs, key, ckey in (("Fn", fns, "Fn", "Fn_cov"), ("Xi", xis, "Xi", "Xi_cov")):
                mean = arrs[0]
                for x in arrs[1:]:
                    mean = N.add(mean, x)
                mean = N.divide(mean, self.NS)
                var = None
                for x in arrs:
                    d = N.subtract(x, mean)
                    sq = N.multiply(d, d)
                    var = sq if var is None else N.add(var, sq)
                std = N.sqrt(N.divide(var, self.NS))
                assert_same(f"group{a}.{key}=arithmetic-mean", R[key], mean, "post")
                assert_same(f"group{a}.{ckey}=population-std/mean", R[ckey], N.divide(std, mean), "post")
            # merge arguments: this group's shapes, one per setup, in setup order; the stored reference lists
            call = [cl for cl in calls if cl["out"] is R["Phi"]]
            c.oblige("post", f"group{a}.Phi-is-merge-result", len(call) == 1)
            if call:
                ms = call[0]["MS"]
                ok = len(ms) == self.NS and all(ms[s] is pre["self"].fields["_setups"][s].fields["algorithms"]
                                                [f"alg{a}_in_setup{s}"].fields["result"].fields["Phi"] or
                                                ms[s] is post["self"].fields["_setups"][s].fields["algorithms"]
                                                [f"alg{a}_in_setup{s}"].fields["result"].fields["Phi"] for s in range(len(ms)))
                c.oblige("post", f"group{a}.merge-arguments", ok)
                c.oblige("post", f"group{a}.merge-reflist", call[0]["refs"] is post["self"].fields["ref_ind"])
