"""C03 (structure of the identification): ssi.SSI_multi_setup at the matrix-term level, build_hank abstracted.
For every setup k: Obs_k = U_k[:, :n] sqrt(diag sigma_k) of ITS Hankel matrix; reference rows of block ii are rows
ii*(n_ref + n_mov_k) + j (j < n_ref) - the stride is THAT setup's channel count -, roving rows the n_mov_k rows after them;
roving part re-based as O_mov_k pinv(O_ref_k) O_ref_0; global observability matrix, block by block: references (first setup's),
then every setup's re-based roving rows in setup order; realisation by the one-block (n_DOF rows) shift."""
import z3

from pyvc import matmodel as MM
from pyvc import npmodel as N
from pyvc import spec as S
from pyvc import sym
from pyvc.contract import Contract, register, spec_canary
from pyvc.core import cur
from pyvc.interp import LoopSpec, assert_same
from pyvc.models import MODELS
from pyvc.sym import And_, Arr, Seq, zi

I = z3.IntSort()
NS = 2


def hank_of(c, k):
    g = c.memo["ghost:ms"]
    rows = sym.mul(sym.add(g["br"], 1), sym.add(g["n_ref"], g["n_mov"][k]))
    cols = sym.mul(sym.add(g["br"], 1), g["n_ref"])
    return MM.mat_arr(MM.fn("Hank", I, MM.Mat)(z3.IntVal(k)), (rows, cols), "float")


class build_hank_flow(Contract):
    qualname = "pyoma2.functions.ssi.build_hank"
    name = "havoc-flow"
    verify_body = False

    def apply(self, interp, args, kwargs):
        c = cur()
        env = interp.bind(interp.repo.function(self.qualname), args, kwargs, None)
        calls = c.memo.setdefault("ghost:hank_calls", [])
        k = len(calls)
        calls.append(env)
        return (hank_of(c, k), None)


register(build_hank_flow)


def parts(c, k, stride=None):
    """(Obs_k, O_ref_k, O_mov_k) from the Hankel matrix of setup k"""
    g = c.memo["ghost:ms"]
    br, n_ref, ordmax = g["br"], g["n_ref"], g["ordmax"]
    n_mov = g["n_mov"][k]
    r_k = sym.add(n_ref, n_mov) if stride is None else stride
    U, sig, Vt = MM.svd(hank_of(c, k))
    c.numpy_mode += 1
    try:
        S1rad = N.sqrt(MODELS["numpy.diag"](None, [sig], {}))
        Obs = N.dot(N.getitem(U, (slice(None), slice(None, ordmax))), N.getitem(S1rad, (slice(None, ordmax), slice(None, ordmax))))
    finally:
        c.numpy_mode -= 1
    of = Obs.snapshot_fn()
    O_ref = Arr(((br, n_ref), (ordmax,)), lambda idx: of(((sym.add(sym.mul(idx[0][0], r_k), idx[0][1]),), idx[1])), "float")
    O_mov = Arr(((br, n_mov), (ordmax,)), lambda idx: of(((sym.add(sym.add(sym.mul(idx[0][0], r_k), n_ref), idx[0][1]),), idx[1])), "float")
    return Obs, O_ref, O_mov


def rebased(c, k, O1_ref):
    _, O_ref, O_mov = parts(c, k)
    c.numpy_mode += 1
    try:
        return N.dot(N.dot(O_mov, MM.pinv(O_ref)), O1_ref)
    finally:
        c.numpy_mode -= 1


def global_obs(c, O1_ref, movs, upto=None):
    """block b: [O1_ref block b ; movs[0] block b ; movs[1] block b ...]; blocks >= upto still zero"""
    g = c.memo["ghost:ms"]
    br, n_ref, ordmax = g["br"], g["n_ref"], g["ordmax"]
    n_dof = n_ref
    for k in range(NS):
        n_dof = sym.add(n_dof, g["n_mov"][k])
    f_ref = O1_ref.snapshot_fn()
    f_mov = [m.snapshot_fn() for m in movs]
    zero = sym.toF(0.0)

    def cell(idx):
        rho = sym.flat_index(idx[0], row_ax)
        b, pos = sym.split_index(rho, (br, n_dof))
        col = idx[1]
        if upto is not None and not sym.is_pyint(upto) and not sym.is_pyint(rho):
            # Euclidean division is unique (trusted instances at the loop counter and its successor): with rho = b D + pos,
            # 0 <= pos < D:  b = t  <=>  t D <= rho < (t + 1) D,   b < t  <=>  rho < t D
            D = zi(n_dof)
            for t in (sym.simp(zi(upto) - 1), zi(upto)):
                c.fact(z3.Implies(z3.And(D > 0, zi(pos) >= 0, zi(pos) < D, zi(rho) == zi(b) * D + zi(pos)),
                                  z3.And((zi(b) == t) == z3.And(t * D <= zi(rho), zi(rho) < (t + 1) * D), (zi(b) < t) == (zi(rho) < t * D))), heavy=True)

        def ref_val():
            return _rd(f_ref, O1_ref, b, pos, n_ref, col)

        def mov_val(k, off):
            return _rd(f_mov[k], movs[k], b, sym.sub(pos, off), g["n_mov"][k], col)
        v = None
        off = n_ref
        offs = []
        for k in range(NS):
            offs.append(off)
            off = sym.add(off, g["n_mov"][k])
        v = mov_val(NS - 1, offs[NS - 1])
        for k in range(NS - 2, -1, -1):
            v = sym.Lazy.choose(sym.lt(pos, sym.add(offs[k], g["n_mov"][k])), lambda k=k: mov_val(k, offs[k]), lambda v=v: v)
        v = sym.Lazy.choose(sym.lt(pos, n_ref), ref_val, lambda v=v: v)
        if upto is not None:
            return sym.Lazy.choose(sym.lt(b, upto), lambda: v, lambda: zero)
        return v
    row_ax = (sym.mul(n_dof, br),)
    return Arr((row_ax, (ordmax,)), cell, "float"), n_dof


def _rd(fn, arr, b, j, n, col):
    """row (block b, position j) of a (br x n)-row array, whatever the structure of its row axis"""
    ax = arr.axes[0]
    if len(ax) == 2:
        return fn(((b, j), col))
    return fn((sym.split_index(sym.add(sym.mul(b, n), j), ax) if len(ax) > 1 else (sym.add(sym.mul(b, n), j),), col))


def shift_solve(c, Obs_all, n_dof):
    key = ("ghost:shift_solve", id(Obs_all))
    if key in c.memo:
        return c.memo[key]
    r = _shift_solve(c, Obs_all, n_dof)
    c.memo[key] = r
    return r


def _shift_solve(c, Obs_all, n_dof):
    nrow = Obs_all.shape[0]
    c.numpy_mode += 1
    try:
        O_p = N.getitem(Obs_all, (slice(None, sym.sub(nrow, n_dof)), slice(None)))
        O_m = N.getitem(Obs_all, (slice(n_dof, None), slice(None)))
        Q, R = MM.qr(O_p, "reduced")
        Sm = N.dot(N.transpose(Q), O_m)
    finally:
        c.numpy_mode -= 1

    def A_of(i):
        c.numpy_mode += 1
        try:
            return N.dot(MM.inv(N.getitem(R, (slice(None, i), slice(None, i)))), N.getitem(Sm, (slice(None, i), slice(None, i))))
        finally:
            c.numpy_mode -= 1

    def C_of(i):
        return N.getitem(Obs_all, (slice(None, n_dof), slice(None, i)))
    return A_of, C_of


def _assemble_loop(k, pre, it):
    c = cur()
    c.memo["ghost:ms"]["at_assembly"] = {"O1_ref": pre["O1_ref"], "O_mov_s": list(pre["O_mov_s"])}
    Obs_all, _ = global_obs(c, pre["O1_ref"], list(pre["O_mov_s"]), upto=k)
    return {"Obs_all": Obs_all}


def _realise_loop(k, pre, it):
    c = cur()
    g = c.memo["ghost:ms"]
    n_dof = g["n_ref"]
    for s in range(NS):
        n_dof = sym.add(n_dof, g["n_mov"][s])
    A_of, C_of = shift_solve(c, pre["Obs_all"], n_dof)
    return {"A": Seq(k, A_of), "C": Seq(k, C_of)}


@register
class SSI_multi_setup(Contract):
    term_level = True      # obligations over opaque kernels (svd / qr / inv / pinv as uninterpreted matrix terms): see runner

    qualname = "pyoma2.functions.ssi.SSI_multi_setup"
    props = ("C03",)
    name = "structure"
    thorough_only = True          # about ten minutes of path exploration (nonlinear block indices): thorough tier only
    generic_replay = False
    callable_modular = False
    use = {"pyoma2.functions.ssi.build_hank": "havoc-flow"}
    bounded_driver = {"driver": "c03_exact", "inputs": {"trials": 6}}
    loops = {1: LoopSpec(_assemble_loop), 3: LoopSpec(_realise_loop)}

    def witness(self, o):
        return dict(self.bounded_driver)

    def setup(self, c):
        br = S.integer("br", lo=2)
        n_ref = S.integer("n_ref", lo=1)
        n_mov = [S.integer(f"n_mov{k}", lo=1) for k in range(NS)]
        Nd = S.integer("Ndat", lo=8)
        ordmax = S.integer("ordmax", lo=1)
        c.assume(zi(ordmax) <= zi(sym.mul(br, n_ref)))
        n_dof = n_ref
        for k in range(NS):
            n_dof = sym.add(n_dof, n_mov[k])
        c.assume(zi(ordmax) <= zi(sym.mul(sym.sub(br, 1), n_dof)))     # the shifted observability matrix has at least ordmax rows
        Y = [{"ref": S.array(f"ref{k}", "float", shape=(n_ref, Nd), finite=True), "mov": S.array(f"mov{k}", "float", shape=(n_mov[k], Nd), finite=True)} for k in range(NS)]
        c.memo["ghost:ms"] = {"br": br, "n_ref": n_ref, "n_mov": n_mov, "ordmax": ordmax, "Y": Y}
        return {"Y": Y, "fs": S.real("fs", pos=True), "br": br, "ordmax": ordmax, "method_hank": "cov_mm", "step": 1}

    def check(self, c, pre, post, outcome):
        if outcome[0] != "return":
            c.oblige("post", "returns", False, {"o": str(outcome)[:100]})
            return
        g = c.memo["ghost:ms"]
        calls = c.memo.get("ghost:hank_calls", [])
        c.oblige("post", "one Hankel matrix per setup", len(calls) == NS)
        for k, env in enumerate(calls[:NS]):
            want_all = N.vstack([g["Y"][k]["ref"], g["Y"][k]["mov"]])
            assert_same(f"setup {k}: Hankel matrix of [references; roving] of that setup", env["Y"], want_all, "post")
            c.oblige("post", f"setup {k}: reference channels of that setup", env["Yref"] is post["Y"][k]["ref"])
            c.oblige("post", f"setup {k}: block rows and method forwarded", And_(sym.eq(env["br"], pre["br"]), env["method"] == pre["method_hank"]))
        # the pieces, from the kernels
        _, O1_ref, _ = parts(c, 0)
        movs = [rebased(c, k, O1_ref) for k in range(NS)]
        want, n_dof = global_obs(c, O1_ref, movs)
        Obs_all, A, C = outcome[1]
        assert_same("global observability matrix: per block, references then each setup's re-based roving rows", Obs_all, want, "post")
        A_of, C_of = shift_solve(c, want, n_dof)
        n = sym.add(pre["ordmax"], 1)
        assert_same("state matrices: one-block shift solve", A, Seq(n, A_of), "post")
        assert_same("output matrices: first block row", C, Seq(n, C_of), "post")
