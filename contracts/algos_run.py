"""C09 (and the call-site clauses of C10): the four run() methods, from the pole tables onward.

The identification kernels (build_hank, SSI_fast, SSI_poles, SSI_multi_setup, SD_est, SD_PreGER,
pLSCF, pLSCF_poles) are replaced by *havoc* contracts here: they return arbitrary pole tables of
consistent shape sharing one NaN pattern (that pattern and the shapes are what the C01/C05 contracts
of those functions establish).  Everything after them is executed from the real source.
"""
import z3

from pyvc import npmodel as N
from pyvc import spec as S
from pyvc import sym
from pyvc.contract import Contract, register
from pyvc.core import cur
from pyvc.sym import And_, Arr, C, F, Iff_, Implies_, Not_, Obj, Or_, zi

from .gen_hc import conj_present, mpc_ok, mpd_ok


# ----------------------------------------------------------------------------------
# havoc contracts of the identification kernels
# ----------------------------------------------------------------------------------

def pole_tables(c, with_cov, tag="poles", n0=None, n1=None):
    """arbitrary pole tables (Fn, Xi, Phi, Lambds, Fn_cov, Xi_cov, Phi_cov) with one NaN pattern"""
    n0 = S.integer("n_rows", lo=1) if n0 is None else n0
    n1 = S.integer("n_cols", lo=1) if n1 is None else n1
    L = S.integer("Nch", lo=1)
    nanp = z3.Function(c.fresh_name("nanp"), z3.IntSort(), z3.IntSort(), z3.BoolSort())

    def tab(name, kind):
        a = S.array(name, kind, shape=(n0, n1), finite=True)
        f = a.snapshot_fn()
        if kind == "float":
            a.set_fn(lambda idx: F(nanp(zi(idx[0][0]), zi(idx[1][0])), f(idx).v))
        else:
            a.set_fn(lambda idx: C(nanp(zi(idx[0][0]), zi(idx[1][0])), f(idx).re, f(idx).im))
        return a
    Fn, Xi, Lam = tab("Fn0", "float"), tab("Xi0", "float"), tab("Lam0", "complex")
    Phi = S.vec_table("Phi0", (n0, n1, L))
    # the vector is non-finite exactly on the common pattern
    vf = Phi.vecfn
    Phi.meta["nan_link"] = True
    c.memo.setdefault("links", []).append((Phi, nanp))
    if with_cov:
        Fc, Xc = tab("Fncov0", "float"), tab("Xicov0", "float")
        Pc = S.array("Phicov0", "float", shape=(n0, n1, L))
    else:
        Fc = Xc = Pc = None
    ghost = {"Fn": Fn.copy(), "Xi": Xi.copy(), "Phi": Phi.copy(), "Lam": Lam.copy(),
             "Fc": Fc.copy() if Fc is not None else None, "Xc": Xc.copy() if Xc is not None else None,
             "nanp": nanp, "shape": (n0, n1, L)}
    c.memo["ghost:" + tag] = ghost
    return Fn, Xi, Phi, Lam, Fc, Xc, Pc


def link_nan(c, ghost, i, j):
    """instance of: Phi0's vector at (i, j) is non-finite iff the common NaN pattern holds there"""
    v = ghost["Phi"].vecfn(((i,), (j,)))
    c.fact(sym.vec_isnan(v) == ghost["nanp"](zi(i), zi(j)))


class _Havoc(Contract):
    verify_body = False


@register
class build_hank_havoc(_Havoc):
    qualname = "pyoma2.functions.ssi.build_hank"
    name = "havoc"

    def spec(self, c, Y, Yref, br, method, calc_unc=False, nb=100):
        H = S.array("H", "float", ndim=2, finite=True)
        g = c.memo["ghost:build_hank"] = {"Y": Y, "Yref": Yref, "br": br, "method": method, "calc_unc": calc_unc, "nb": nb}
        if isinstance(calc_unc, bool):
            cu = calc_unc
        else:
            cu = c.branch(calc_unc)
        g["H_out"], g["T_out"] = H, (S.array("T", "float", ndim=2, finite=True) if cu else None)
        return (g["H_out"], g["T_out"])


@register
class SSI_fast_havoc(_Havoc):
    qualname = "pyoma2.functions.ssi.SSI_fast"
    name = "havoc"

    def spec(self, c, H, br, ordmax, step=1, calc_unc=False, T=None, nb=100):
        c.memo["ghost:SSI_fast"] = {"H": H, "br": br, "ordmax": ordmax, "step": step, "calc_unc": calc_unc, "T": T, "nb": nb}
        return (sym.Opaque("Obs"), sym.Opaque("A"), sym.Opaque("C"), sym.Opaque("Q1"), sym.Opaque("Q2"),
                sym.Opaque("Q3"), sym.Opaque("Q4"))


@register
class SSI_multi_setup_havoc(_Havoc):
    qualname = "pyoma2.functions.ssi.SSI_multi_setup"
    name = "havoc"

    def spec(self, c, Y, fs, br, ordmax, method_hank, step=1):
        c.memo["ghost:SSI_multi_setup"] = {"Y": Y, "fs": fs, "br": br, "ordmax": ordmax, "method_hank": method_hank, "step": step}
        return (sym.Opaque("Obs"), sym.Opaque("A"), sym.Opaque("C"))


@register
class SSI_poles_havoc(_Havoc):
    qualname = "pyoma2.functions.ssi.SSI_poles"
    name = "havoc"

    def spec(self, c, Obs, AA, CC, ordmax, dt, step=1, calc_unc=False, Q1=None, Q2=None, Q3=None, Q4=None):
        cu = calc_unc if isinstance(calc_unc, bool) else c.branch(calc_unc)
        c.memo["ghost:SSI_poles"] = {"ordmax": ordmax, "dt": dt, "step": step, "calc_unc": calc_unc, "Obs": Obs, "AA": AA, "CC": CC,
                                     "Q": (Q1, Q2, Q3, Q4)}
        # table shape (ordmax, int(ordmax/step) + 1): established by the C01 contract of SSI_poles
        n1 = sym.add(ordmax, 1) if (sym.is_pyint(step) and step == 1) else None
        return pole_tables(c, cu, n0=ordmax, n1=n1)


@register
class SD_est_havoc(_Havoc):
    qualname = "pyoma2.functions.fdd.SD_est"
    name = "havoc"

    def spec(self, c, Yall, Yref, dt, nxseg=1024, method="cor", pov=0.5):
        c.memo["ghost:SD_est"] = {"Yall": Yall, "Yref": Yref, "dt": dt, "nxseg": nxseg, "method": method, "pov": pov}
        return (sym.Opaque("freq"), sym.Opaque("Sy"))


@register
class SD_PreGER_havoc(_Havoc):
    qualname = "pyoma2.functions.fdd.SD_PreGER"
    name = "havoc"

    def spec(self, c, Y, fs, nxseg=1024, pov=0.5, method="per"):
        c.memo["ghost:SD_PreGER"] = {"Y": Y, "fs": fs, "nxseg": nxseg, "method": method, "pov": pov}
        return (sym.Opaque("freq"), sym.Opaque("Sy"))


@register
class pLSCF_havoc(_Havoc):
    qualname = "pyoma2.functions.plscf.pLSCF"
    name = "havoc"

    def spec(self, c, Sy, dt, ordmax, sgn_basf=-1.0):
        c.memo["ghost:pLSCF"] = {"Sy": Sy, "dt": dt, "ordmax": ordmax, "sgn_basf": sgn_basf}
        return (sym.Opaque("Ad"), sym.Opaque("Bn"))


@register
class pLSCF_poles_havoc(_Havoc):
    qualname = "pyoma2.functions.plscf.pLSCF_poles"
    name = "havoc"

    def spec(self, c, Ad, Bn, dt, methodSy, nxseg):
        c.memo["ghost:pLSCF_poles"] = {"dt": dt, "methodSy": methodSy, "nxseg": nxseg, "Ad": Ad, "Bn": Bn}
        # one column per model order 1..ordmax (len(Ad) = ordmax): established by the C05 contracts
        om = c.memo.get("ghost:pLSCF", {}).get("ordmax")
        Fn, Xi, Phi, Lam, _, _, _ = pole_tables(c, False, n1=om)
        return (Fn, Xi, Phi, Lam)


@register
class SC_apply_havoc(_Havoc):
    """labels are some function of the filtered tables (decided by C10)"""
    qualname = "pyoma2.functions.gen.SC_apply"
    name = "havoc"
    callable_modular = True

    def spec(self, c, Fn, Xi, Phi, ordmin, ordmax, step, err_fn, err_xi, err_phi):
        c.memo["ghost:SC_apply"] = {"Fn": Fn, "Xi": Xi, "Phi": Phi, "ordmin": ordmin, "ordmax": ordmax, "step": step,
                                    "err_fn": err_fn, "err_xi": err_xi, "err_phi": err_phi}
        lab = S.array("Lab", "int", shape=Fn.shape)
        return lab


# ----------------------------------------------------------------------------------
# the run() methods
# ----------------------------------------------------------------------------------

def hc_dict(c):
    return {"conj": S.boolean("hc_conj"), "xi_max": S.real("xi_max", lo=0, hi=1),
            "mpc_lim": S.real("mpc_lim", lo=0, hi=1), "mpd_lim": S.real("mpd_lim", lo=0),
            "cov_max": S.real("cov_max", pos=True)}


def sc_dict(c):
    # a plain dict written by the user: the keys may come in any order (here deliberately not the documented one)
    return {"err_phi": S.real("err_phi", pos=True), "err_fn": S.real("err_fn", pos=True), "err_xi": S.real("err_xi", pos=True)}


def ssi_algo(c, cls, multi=False):
    rp = Obj("pyoma2.algorithms.data.run_params.SSIRunParams", {
        "br": S.integer("br", lo=1), "method": None, "ref_ind": None,
        "ordmin": S.integer("ordmin", lo=0), "ordmax": S.integer("ordmax", lo=1), "step": S.integer("step", lo=1),
        "sc": sc_dict(c), "hc": hc_dict(c), "calc_unc": S.boolean("calc_unc"), "nb": S.integer("nb", lo=2),
        "sel_freq": None, "order_in": "find_min", "rtol": S.real("rtol", pos=True)})
    if multi:
        data = sym.Opaque("multi-setup data")
    else:
        data = S.array("data", "float", ndim=2, finite=True, min_extent=1)
    fs = S.real("fs", pos=True)
    return Obj("pyoma2.algorithms.ssi." + cls, {"data": data, "fs": fs, "dt": sym.div(1, fs), "run_params": rp,
                                                "result": None, "name": cls})


def plscf_algo(c, cls, multi=False):
    rp = Obj("pyoma2.algorithms.data.run_params.pLSCFRunParams", {
        "ordmin": S.integer("ordmin", lo=0), "ordmax": S.integer("ordmax", lo=1),
        "nxseg": S.integer("nxseg", lo=2), "method_SD": "per", "pov": S.real("pov", lo=0),
        "sc": sc_dict(c), "hc": hc_dict(c), "sel_freq": None, "order_in": "find_min",
        "deltaf": S.real("deltaf", pos=True), "rtol": S.real("rtol", pos=True)})
    if c.branch(S.boolean("method_is_cor")):
        rp.fields["method_SD"] = "cor"
    data = sym.Opaque("multi-setup data") if multi else S.array("data", "float", ndim=2, finite=True, min_extent=1)
    fs = S.real("fs", pos=True)
    return Obj("pyoma2.algorithms.plscf." + cls, {"data": data, "fs": fs, "dt": sym.div(1, fs), "run_params": rp,
                                                  "result": None, "name": cls})


class _RunC09(Contract):
    props = ("C09",)
    callable_modular = False
    poles_ghost = "ghost:poles"
    has_cov = True
    generic_replay = False

    def witness(self, o):
        """replay: the real run() of this class on seeded data, thresholds taken from the counter-model"""
        from pyvc import concretise as CZ
        m = o.model
        hc = {}
        try:
            from pyvc.core import Ctx, Engine
            ctx = Ctx(Engine(), [ch == "T" for ch in o.path])
            with ctx:
                env = self.setup(ctx)
                d = env["self"].fields["run_params"].fields["hc"]
                hc = {k: CZ.ev_scalar(m, v) for k, v in d.items()}
        except Exception:
            hc = {}
        return {"driver": "c09_run", "inputs": {"cls": self.qualname.split(".")[-2], "hc": hc, "seed": 0}}
    use = {q: "havoc" for q in (
        "pyoma2.functions.ssi.build_hank", "pyoma2.functions.ssi.SSI_fast", "pyoma2.functions.ssi.SSI_poles",
        "pyoma2.functions.ssi.SSI_multi_setup", "pyoma2.functions.fdd.SD_est", "pyoma2.functions.fdd.SD_PreGER",
        "pyoma2.functions.plscf.pLSCF", "pyoma2.functions.plscf.pLSCF_poles", "pyoma2.functions.gen.SC_apply")}

    def check(self, c, pre, post, outcome):
        if outcome[0] != "return":
            c.oblige("post", "no-exception", False, {"raised": outcome[1]})
            return
        res = outcome[1]
        g = c.memo[self.poles_ghost]
        hc = pre["self"].fields["run_params"].fields["hc"]
        R = res.fields
        Fn, Xi, Phi, Lam = R["Fn_poles"], R["Xi_poles"], R["Phi_poles"], R.get("Lambds")
        Fc, Xc = R.get("Fn_poles_cov"), R.get("Xi_poles_cov")
        n0, n1, L = g["shape"]
        # shapes
        for nm, t in (("Fn", Fn), ("Xi", Xi)) + ((("Lambds", Lam),) if Lam is not None else ()):
            c.oblige("post", f"shape.{nm}", And_(sym.eq(t.shape[0], n0), sym.eq(t.shape[1], n1)))
        i = c.fresh_int("i")
        j = c.fresh_int("j")
        c.assume(z3.And(i >= 0, i < n0, j >= 0, j < n1))
        N.ground(i)
        N.ground(j)
        link_nan(c, g, i, j)
        v0 = g["Phi"].vecfn(((i,), (j,)))
        xi0 = g["Xi"].get(i, j)
        conj_on = hc["conj"] if z3.is_expr(hc["conj"]) or isinstance(hc["conj"], bool) else bool(hc["conj"])
        ok = And_(Implies_(conj_on, conj_present(g["Lam"], g["Lam"].get(i, j))),
                  sym.lt(0, xi0), sym.lt(xi0, hc["xi_max"]),
                  mpc_ok(v0, hc["mpc_lim"]), mpd_ok(v0, hc["mpd_lim"]))
        if g["Fc"] is not None:
            ok = And_(ok, sym.lt(g["Fc"].get(i, j), hc["cov_max"]))
        fn = Fn.get(i, j)
        xi = Xi.get(i, j)
        vres = Phi.vecfn(((i,), (j,))) if Phi.vecfn is not None else None
        if vres is None:
            c.oblige("post", "phi-is-vector-table", False)
            return
        retained = Not_(fn.nan)
        # (a) soundness, criterion by criterion so that a violation names the criterion
        if True:
            c.oblige("post", "sound.conj", Implies_(And_(retained, conj_on), conj_present(g["Lam"], g["Lam"].get(i, j))))
            c.oblige("post", "sound.damping", Implies_(retained, And_(sym.lt(0, xi0), sym.lt(xi0, hc["xi_max"]))))
            c.oblige("post", "sound.mpc", Implies_(retained, mpc_ok(v0, hc["mpc_lim"])))
            c.oblige("post", "sound.mpd", Implies_(retained, mpd_ok(v0, hc["mpd_lim"])))
            if g["Fc"] is not None:
                c.oblige("post", "sound.cov", Implies_(retained, sym.lt(g["Fc"].get(i, j), hc["cov_max"])))
        # (b) completeness with unchanged values
        okp = And_(ok, Not_(g["nanp"](i, j)))
        c.oblige("post", "complete.Fn", Implies_(okp, sym.same(fn, g["Fn"].get(i, j))))
        c.oblige("post", "complete.Xi", Implies_(okp, sym.same(xi, xi0)))
        c.oblige("post", "complete.Phi", Implies_(okp, vres == v0))
        if Lam is not None:
            c.oblige("post", "complete.Lambds", Implies_(okp, sym.same(Lam.get(i, j), g["Lam"].get(i, j))))
        if g["Fc"] is not None:
            c.oblige("post", "complete.Fn_cov", Implies_(okp, sym.same(Fc.get(i, j), g["Fc"].get(i, j))))
            c.oblige("post", "complete.Xi_cov", Implies_(okp, sym.same(Xc.get(i, j), g["Xc"].get(i, j))))
        # (c) one NaN pattern
        c.oblige("post", "pattern.Xi", Iff_(fn.nan, xi.nan))
        c.oblige("post", "pattern.Phi", Iff_(fn.nan, sym.vec_isnan(vres)))
        if Lam is not None:
            c.oblige("post", "pattern.Lambds", Iff_(fn.nan, Lam.get(i, j).nan))
        if g["Fc"] is not None:
            c.oblige("post", "pattern.Fn_cov", Iff_(fn.nan, Fc.get(i, j).nan))
            c.oblige("post", "pattern.Xi_cov", Iff_(fn.nan, Xc.get(i, j).nan))
        else:
            c.oblige("post", "cov-absent", Fc is None and Xc is None)
        self.extra_checks(c, pre, res)

    def extra_checks(self, c, pre, res):
        pass

    def _canary_mpd_ignored(self, c, pre, post, outcome):
        """canary: a specification under which the MPD mask must NOT take effect (must be refuted)"""
        g = c.memo[self.poles_ghost]
        hc = pre["self"].fields["run_params"].fields["hc"]
        R = outcome[1].fields
        n0, n1, L = g["shape"]
        i = c.fresh_int("i")
        j = c.fresh_int("j")
        c.assume(z3.And(i >= 0, i < n0, j >= 0, j < n1))
        link_nan(c, g, i, j)
        v0 = g["Phi"].vecfn(((i,), (j,)))
        xi0 = g["Xi"].get(i, j)
        conj_on = hc["conj"] if z3.is_expr(hc["conj"]) or isinstance(hc["conj"], bool) else bool(hc["conj"])
        ok_wo_mpd = And_(Implies_(conj_on, conj_present(g["Lam"], g["Lam"].get(i, j))), sym.lt(0, xi0),
                         sym.lt(xi0, hc["xi_max"]), mpc_ok(v0, hc["mpc_lim"]), Not_(g["nanp"](i, j)))
        if g["Fc"] is not None:
            ok_wo_mpd = And_(ok_wo_mpd, sym.lt(g["Fc"].get(i, j), hc["cov_max"]))
        c.oblige("post", "canary.mpd-has-no-effect", Implies_(ok_wo_mpd, Not_(R["Fn_poles"].get(i, j).nan)))

    def _canary_pattern(self, c, pre, post, outcome):
        """canary: Xi is finite wherever the unfiltered Xi was (i.e. never blanked): must be refuted"""
        g = c.memo[self.poles_ghost]
        R = outcome[1].fields
        n0, n1, L = g["shape"]
        i = c.fresh_int("i")
        j = c.fresh_int("j")
        c.assume(z3.And(i >= 0, i < n0, j >= 0, j < n1))
        c.oblige("post", "canary.xi-never-blanked", Iff_(R["Xi_poles"].get(i, j).nan, g["nanp"](i, j)))

    canaries = {"MPD limit has no effect": _canary_mpd_ignored, "Xi never blanked": _canary_pattern}


@register
class SSIdat_run(_RunC09):
    qualname = "pyoma2.algorithms.ssi.SSIdat.run"
    # the run() layer also carries C01: a pole of the kernel's tables that passes the caller's hard criteria reaches the result tables
    # with unchanged frequency, damping, shape and pole (the 'complete.*' obligations); the criteria themselves are C09's
    props = ("C09", "C01")
    prop_clauses = {"C01": lambda oid: "/post.complete." in oid or "/post.shape." in oid or "no-exception" in oid}

    def setup(self, c):
        return {"self": ssi_algo(c, "SSIdat")}


@register
class SSIdat_run_conj_int(_RunC09):
    """the conjugate criterion switched on with a truthy value that is not the singleton True (hc is an untyped dict: 1, np.bool_(True), ...)"""
    qualname = "pyoma2.algorithms.ssi.SSIdat.run"
    name = "conj given as 1"

    def setup(self, c):
        a = ssi_algo(c, "SSIdat")
        a.fields["run_params"].fields["hc"]["conj"] = 1
        return {"self": a}

    def witness(self, o):
        w = _RunC09.witness(self, o)
        w["inputs"].setdefault("hc", {})["conj"] = 1
        return w


@register
class pLSCF_run_conj_int(_RunC09):
    qualname = "pyoma2.algorithms.plscf.pLSCF.run"
    name = "conj given as 1"

    def setup(self, c):
        a = plscf_algo(c, "pLSCF")
        a.fields["run_params"].fields["hc"]["conj"] = 1
        return {"self": a}

    def witness(self, o):
        w = _RunC09.witness(self, o)
        w["inputs"].setdefault("hc", {})["conj"] = 1
        return w


@register
class SSIdat_MS_run(_RunC09):
    qualname = "pyoma2.algorithms.ssi.SSIdat_MS.run"
    # the run() layer also carries C03: a pole of the kernel's tables that passes the caller's hard criteria reaches the result tables
    # with unchanged frequency, damping, shape and pole (the 'complete.*' obligations); the criteria themselves are C09's
    props = ("C09", "C03")
    prop_clauses = {"C03": lambda oid: "/post.complete." in oid or "/post.shape." in oid or "no-exception" in oid}

    def setup(self, c):
        return {"self": ssi_algo(c, "SSIdat_MS", multi=True)}


@register
class pLSCF_run(_RunC09):
    qualname = "pyoma2.algorithms.plscf.pLSCF.run"
    # the run() layer also carries C05: a pole of the kernel's tables that passes the caller's hard criteria reaches the result tables
    # with unchanged frequency, damping, shape and pole (the 'complete.*' obligations); the criteria themselves are C09's
    props = ("C09", "C05")
    prop_clauses = {"C05": lambda oid: "/post.complete." in oid or "/post.shape." in oid or "no-exception" in oid}

    def setup(self, c):
        return {"self": plscf_algo(c, "pLSCF")}


@register
class pLSCF_MS_run(_RunC09):
    qualname = "pyoma2.algorithms.plscf.pLSCF_MS.run"
    # the run() layer also carries C05: a pole of the kernel's tables that passes the caller's hard criteria reaches the result tables
    # with unchanged frequency, damping, shape and pole (the 'complete.*' obligations); the criteria themselves are C09's
    props = ("C09", "C05")
    prop_clauses = {"C05": lambda oid: "/post.complete." in oid or "/post.shape." in oid or "no-exception" in oid}

    def setup(self, c):
        return {"self": plscf_algo(c, "pLSCF_MS", multi=True)}


# ----------------------------------------------------------------------------------
# C10 at the call sites: which columns (orders) are labelled, on which tables
# ----------------------------------------------------------------------------------
from .gen_sc import label as sc_label     # noqa: E402


class _RunC10(Contract):
    """result.Lab is the property's label function of the *filtered result tables*, the order window being
    [ordmin, ordmax] in model orders (column c holds order c + order_offset)."""
    props = ("C10",)
    callable_modular = False
    generic_replay = False
    order_offset = 0
    use = dict(_RunC09.use)
    use.pop("pyoma2.functions.gen.SC_apply")
    use["pyoma2.functions.gen.MAC"] = "abstract"

    def check(self, c, pre, post, outcome):
        if outcome[0] != "return":
            c.oblige("post", "no-exception", False, {"raised": outcome[1]})
            return
        R = outcome[1].fields
        rp = pre["self"].fields["run_params"].fields
        Fn, Xi, Phi, Lab = R["Fn_poles"], R["Xi_poles"], R["Phi_poles"], R["Lab"]
        sc = rp["sc"]
        c.oblige("post", "Lab.shape", And_(sym.eq(Lab.shape[0], Fn.shape[0]), sym.eq(Lab.shape[1], Fn.shape[1])))
        i, j = S.cell(Fn)
        off = self.order_offset
        want = sc_label(Fn, Xi, Phi, i, j, sym.sub(rp["ordmin"], off), sym.sub(rp["ordmax"], off),
                        sc["err_fn"], sc["err_xi"], sc["err_phi"])
        c.oblige("post", "label", sym.eq(Lab.get(i, j), sym.b2i(want)))

    def witness(self, o):
        from pyvc import concretise as CZ
        from pyvc.core import Ctx, Engine
        vals = {}
        try:
            ctx = Ctx(Engine(), [ch == "T" for ch in o.path])
            with ctx:
                env = self.setup(ctx)
                rp = env["self"].fields["run_params"].fields
                vals = {"ordmin": CZ.ev_scalar(o.model, rp["ordmin"]), "ordmax": CZ.ev_scalar(o.model, rp["ordmax"])}
        except Exception:
            pass
        return {"driver": "c10_run", "inputs": dict(vals, cls=self.qualname.split(".")[-2], offset=self.order_offset)}


def _ssi_step1(c, cls, multi=False):
    a = ssi_algo(c, cls, multi)
    a.fields["run_params"].fields["step"] = 1       # C10's scope: columns = orders
    rp = a.fields["run_params"].fields
    c.assume(rp["ordmin"] <= rp["ordmax"])
    return a


@register
class SSIdat_run_C10(_RunC10):
    qualname = "pyoma2.algorithms.ssi.SSIdat.run"
    name = "labels"

    def setup(self, c):
        return {"self": _ssi_step1(c, "SSIdat")}


@register
class SSIdat_MS_run_C10(_RunC10):
    qualname = "pyoma2.algorithms.ssi.SSIdat_MS.run"
    name = "labels"

    def setup(self, c):
        return {"self": _ssi_step1(c, "SSIdat_MS", multi=True)}


@register
class pLSCF_run_C10(_RunC10):
    qualname = "pyoma2.algorithms.plscf.pLSCF.run"
    name = "labels"
    order_offset = 1

    def setup(self, c):
        a = plscf_algo(c, "pLSCF")
        rp = a.fields["run_params"].fields
        c.assume(rp["ordmin"] <= rp["ordmax"])
        return {"self": a}


@register
class pLSCF_MS_run_C10(_RunC10):
    qualname = "pyoma2.algorithms.plscf.pLSCF_MS.run"
    name = "labels"
    order_offset = 1

    def setup(self, c):
        a = plscf_algo(c, "pLSCF_MS", multi=True)
        rp = a.fields["run_params"].fields
        c.assume(rp["ordmin"] <= rp["ordmax"])
        return {"self": a}


# ----------------------------------------------------------------------------------
# C13 / C04 at the call sites: the run parameters reach the spectral estimator unchanged
# ----------------------------------------------------------------------------------

@register
class SD_svalsvec_havoc(_Havoc):
    qualname = "pyoma2.functions.fdd.SD_svalsvec"
    name = "havoc"

    def spec(self, c, SD):
        c.memo["ghost:SD_svalsvec"] = {"SD": SD}
        return (sym.Opaque("S_val"), sym.Opaque("S_vec"))


def fdd_algo(c, cls, multi=False, module="fdd"):
    rp = Obj("pyoma2.algorithms.data.run_params.FDDRunParams", {
        "nxseg": S.integer("nxseg", lo=2), "method_SD": "per", "pov": S.real("pov", lo=0, hi=1),
        "sel_freq": None, "DF": S.real("DF", pos=True), "DF1": S.real("DF1", pos=True), "DF2": S.real("DF2", pos=True),
        "cm": 1, "MAClim": S.real("MAClim"), "sppk": 3, "npmax": 20})
    if c.branch(S.boolean("method_is_cor")):
        rp.fields["method_SD"] = "cor"
    data = sym.Opaque("multi-setup data") if multi else S.array("data", "float", ndim=2, finite=True, min_extent=1)
    fs = S.real("fs", pos=True)
    return Obj(f"pyoma2.algorithms.{module}." + cls, {"data": data, "fs": fs, "dt": sym.div(1, fs), "run_params": rp,
                                                      "result": None, "name": cls})


class _RunSpectral(Contract):
    callable_modular = False
    generic_replay = False
    multi = False
    bounded_driver = {"driver": "flow_spectral", "inputs": {}}

    def witness(self, o):
        return dict(self.bounded_driver)

    use = dict(_RunC09.use)
    use["pyoma2.functions.fdd.SD_svalsvec"] = "havoc"

    def check(self, c, pre, post, outcome):
        from pyvc.interp import assert_same
        if outcome[0] != "return":
            c.oblige("post", "no-exception", False, {"raised": outcome[1]})
            return
        slf = pre["self"].fields
        rp = slf["run_params"].fields
        if self.multi:
            g = c.memo.get("ghost:SD_PreGER")
            c.oblige("post", "SD_PreGER-called", g is not None)
            if g is None:
                return
            c.oblige("post", "data", g["Y"] is post["self"].fields["data"])
            c.oblige("post", "fs", sym.same(g["fs"], slf["fs"]))
        else:
            g = c.memo.get("ghost:SD_est")
            c.oblige("post", "SD_est-called", g is not None)
            if g is None:
                return
            want = N.transpose(pre["self"].fields["data"])
            assert_same("Yall = data.T", g["Yall"], want, "post")
            assert_same("Yref = data.T", g["Yref"], want, "post")
            c.oblige("post", "dt", sym.same(g["dt"], slf["dt"]))
        c.oblige("post", "nxseg", sym.eq(g["nxseg"], rp["nxseg"]))
        c.oblige("post", "pov", sym.same(g["pov"], rp["pov"]))
        c.oblige("post", "method", g["method"] == rp["method_SD"])
        res = outcome[1].fields
        c.oblige("post", "result.freq/Sy are the estimator's", isinstance(res.get("freq"), sym.Opaque) and res["freq"].tag == "freq"
                 and isinstance(res.get("Sy"), sym.Opaque) and res["Sy"].tag == "Sy")


@register
class FDD_run_args(_RunSpectral):
    qualname = "pyoma2.algorithms.fdd.FDD.run"
    props = ("C13",)

    def setup(self, c):
        return {"self": fdd_algo(c, "FDD")}


@register
class pLSCF_run_args(_RunSpectral):
    qualname = "pyoma2.algorithms.plscf.pLSCF.run"
    name = "spectral-args"
    props = ("C13",)

    def setup(self, c):
        return {"self": plscf_algo(c, "pLSCF")}


@register
class FDD_MS_run_args(_RunSpectral):
    qualname = "pyoma2.algorithms.fdd.FDD_MS.run"
    props = ("C04",)
    multi = True

    def setup(self, c):
        return {"self": fdd_algo(c, "FDD_MS", multi=True)}


@register
class EFDD_MS_run_args(_RunSpectral):
    qualname = "pyoma2.algorithms.fdd.EFDD_MS.run"
    props = ("C04",)
    multi = True

    def setup(self, c):
        return {"self": fdd_algo(c, "EFDD_MS", multi=True)}


@register
class pLSCF_MS_run_args(_RunSpectral):
    qualname = "pyoma2.algorithms.plscf.pLSCF_MS.run"
    name = "spectral-args"
    props = ("C04",)
    multi = True

    def setup(self, c):
        return {"self": plscf_algo(c, "pLSCF_MS", multi=True)}
