#!/venv/bin/python
"""Native side of the generic replay: call a real pyoma2 function on concrete inputs.
stdin: JSON {"qualname": "pyoma2.functions.gen.HC_cov", "kwargs": {...}}   stdout: JSON result (last line)
Arrays travel as {"shape": [...], "kind": "float|complex|int|bool", "cells": [...]}, non-finite as null,
complex numbers as [re, im]."""
import importlib
import json
import sys
import warnings

import numpy as np

warnings.filterwarnings("ignore")


def dec(v):
    if isinstance(v, dict) and "shape" in v and "cells" in v:
        k = v["kind"]
        if k == "complex":
            cells = [complex(np.nan, np.nan) if c is None else complex(c[0], c[1]) for c in v["cells"]]
            return np.array(cells, dtype=complex).reshape(v["shape"])
        if k == "float":
            return np.array([np.nan if c is None else c for c in v["cells"]], dtype=float).reshape(v["shape"])
        if k == "int":
            return np.array(v["cells"], dtype=int).reshape(v["shape"])
        if k == "bool":
            return np.array(v["cells"], dtype=bool).reshape(v["shape"])
    if isinstance(v, dict) and "__tuple__" in v:
        return tuple(dec(x) for x in v["__tuple__"])
    if isinstance(v, dict):
        return {k: dec(x) for k, x in v.items()}
    if isinstance(v, list):
        return [dec(x) for x in v]
    return v


def enc(v):
    if isinstance(v, np.ndarray):
        k = v.dtype.kind
        kind = {"c": "complex", "f": "float", "i": "int", "u": "int", "b": "bool"}.get(k, "obj")
        flat = v.reshape(-1)
        if kind == "complex":
            cells = [None if not np.isfinite(x) else [float(x.real), float(x.imag)] for x in flat]
        elif kind == "float":
            cells = [None if not np.isfinite(x) else float(x) for x in flat]
        elif kind == "int":
            cells = [int(x) for x in flat]
        elif kind == "bool":
            cells = [bool(x) for x in flat]
        else:
            cells = [enc(x) for x in flat]
        return {"shape": list(v.shape), "kind": kind, "cells": cells}
    if isinstance(v, tuple):
        return {"__tuple__": [enc(x) for x in v]}
    if isinstance(v, list):
        return [enc(x) for x in v]
    if isinstance(v, dict):
        return {str(k): enc(x) for k, x in v.items()}
    if isinstance(v, (np.floating, float)):
        return None if not np.isfinite(v) else float(v)
    if isinstance(v, (np.complexfloating, complex)):
        return None if not np.isfinite(v) else {"__complex__": [float(v.real), float(v.imag)]}
    if isinstance(v, (np.integer,)):
        return int(v)
    if isinstance(v, (np.bool_,)):
        return bool(v)
    if v is None or isinstance(v, (int, bool, str)):
        return v
    return {"__repr__": repr(v)[:200]}


def main():
    req = json.load(sys.stdin)
    q = req["qualname"]
    mod, _, fn = q.rpartition(".")
    try:
        f = getattr(importlib.import_module(mod), fn)
    except ModuleNotFoundError:
        mod2, _, cls = mod.rpartition(".")
        f = getattr(getattr(importlib.import_module(mod2), cls), fn)
    kwargs = {k: dec(v) for k, v in req["kwargs"].items()}
    pre = json.dumps({k: enc(v) for k, v in kwargs.items()})
    try:
        r = f(**kwargs)
        out = {"outcome": "return", "value": enc(r)}
    except Exception as e:
        out = {"outcome": "raise", "etype": type(e).__name__, "msg": str(e)[:300]}
    out["args_after"] = {k: enc(v) for k, v in kwargs.items()}
    out["args_modified"] = json.dumps(out["args_after"]) != pre
    print(json.dumps(out))


if __name__ == "__main__":
    main()
