#!/venv/bin/python
"""Native replay drivers (run with /venv/bin/python, PYTHONPATH=<tree>/src).
usage: drivers.py <driver>   stdin: JSON inputs    stdout: last line JSON {"reproduced": bool, "detail": str}
Each driver runs the *real* pyoma2 code and checks the property statement natively."""
import json
import os
import sys

os.environ.setdefault("TQDM_DISABLE", "1")
import warnings

import numpy as np

warnings.filterwarnings("ignore")
import logging  # noqa: E402

logging.disable(logging.CRITICAL)


def rng_data(seed, n=3000, nch=4, fs=100.0):
    """random response of a 3-mode system + noise (seeded)"""
    rng = np.random.RandomState(seed)
    t = np.arange(n) / fs
    f = np.array([3.1, 7.7, 12.3])
    xi = np.array([0.01, 0.02, 0.015])
    phi = rng.randn(nch, 3)
    # white-noise driven AR response approximated by filtered noise
    y = np.zeros((n, nch))
    for m in range(3):
        w = 2 * np.pi * f[m]
        h = np.exp(-xi[m] * w * t[:600]) * np.sin(w * np.sqrt(1 - xi[m] ** 2) * t[:600])
        q = np.convolve(rng.randn(n), h)[:n]
        y += np.outer(q, phi[:, m])
    y += 0.05 * np.std(y) * rng.randn(n, nch)
    return y, fs


# ----------------------------------------------------------------------------------
# C09: run() of the four algorithm families against the hard criteria
# ----------------------------------------------------------------------------------

def _unfiltered(cls_name, algo):
    """recompute the unfiltered pole tables with the same library calls run() makes"""
    from pyoma2.functions import fdd, plscf, ssi
    rp = algo.run_params
    if cls_name.startswith("SSI"):
        method = rp.method or algo.method
        if cls_name.endswith("_MS"):
            Obs, A, C = ssi.SSI_multi_setup(algo.data, algo.fs, rp.br, rp.ordmax, step=1, method_hank=method)
            return ssi.SSI_poles(Obs, A, C, rp.ordmax, algo.dt, step=rp.step, calc_unc=False)
        Y = algo.data.T
        Yref = Y[rp.ref_ind, :] if rp.ref_ind is not None else Y
        H, T = ssi.build_hank(Y=Y, Yref=Yref, br=rp.br, method=method, calc_unc=rp.calc_unc, nb=rp.nb)
        Obs, A, C, Q1, Q2, Q3, Q4 = ssi.SSI_fast(H, rp.br, rp.ordmax, step=rp.step, calc_unc=rp.calc_unc, T=T, nb=rp.nb)
        return ssi.SSI_poles(Obs, A, C, rp.ordmax, algo.dt, step=rp.step, calc_unc=rp.calc_unc, Q1=Q1, Q2=Q2, Q3=Q3, Q4=Q4)
    sgn = -1 if rp.method_SD == "per" else +1
    if cls_name.endswith("_MS"):
        freq, Sy = fdd.SD_PreGER(algo.data, algo.fs, nxseg=rp.nxseg, method=rp.method_SD, pov=rp.pov)
    else:
        Y = algo.data.T
        freq, Sy = fdd.SD_est(Y, Y, algo.dt, rp.nxseg, method=rp.method_SD, pov=rp.pov)
    Ad, Bn = plscf.pLSCF(Sy, algo.dt, rp.ordmax, sgn_basf=sgn)
    Fn, Xi, Phi, Lam = plscf.pLSCF_poles(Ad, Bn, algo.dt, nxseg=rp.nxseg, methodSy=rp.method_SD)
    return Fn, Xi, Phi, Lam, None, None, None


def _safe(f, v):
    try:
        r = f(v)
        return float(r) if np.isfinite(r) else np.nan
    except Exception:
        return np.nan


def c09_check(cls_name, algo, hc, margin=1e-9):
    """-> list of violation strings for one run"""
    from pyoma2.functions import gen
    U = _unfiltered(cls_name, algo)
    Fn0, Xi0, Phi0, Lam0, Fc0, Xc0 = U[0], U[1], U[2], U[3], U[4], U[5]
    res = algo.run()
    Fn, Xi, Phi = res.Fn_poles, res.Xi_poles, res.Phi_poles
    Lam = getattr(res, "Lambds", None)
    Fc = getattr(res, "Fn_poles_cov", None)
    Xc = getattr(res, "Xi_poles_cov", None)
    bad = []
    lamset = set(Lam0[~np.isnan(Lam0)].flatten().tolist())
    n0, n1 = Fn0.shape
    for i in range(n0):
        for j in range(n1):
            nan0 = np.isnan(Fn0[i, j])
            crit = {}
            if not nan0:
                crit["conj"] = (not hc["conj"]) or (np.conj(Lam0[i, j]) in lamset)
                crit["damping"] = 0 < Xi0[i, j] < hc["xi_max"]
                mpc = _safe(gen.MPC, Phi0[i, j, :])
                mpd = _safe(gen.MPD, Phi0[i, j, :])
                crit["mpc"] = bool(mpc >= hc["mpc_lim"])
                crit["mpd"] = bool(mpd <= hc["mpd_lim"])
                near = (abs(Xi0[i, j] - hc["xi_max"]) <= margin * max(1, abs(hc["xi_max"])) or abs(Xi0[i, j]) <= margin
                        or abs(mpc - hc["mpc_lim"]) <= margin or abs(mpd - hc["mpd_lim"]) <= margin)
                if Fc0 is not None:
                    crit["cov"] = bool(Fc0[i, j] < hc["cov_max"])
                    near = near or abs(Fc0[i, j] - hc["cov_max"]) <= margin * max(1, hc["cov_max"])
                if near:
                    continue
            retained = not np.isnan(Fn[i, j])
            if retained:
                if nan0:
                    bad.append(f"pole ({i},{j}) retained but absent from the unfiltered solution")
                    continue
                for k, v in crit.items():
                    if not v:
                        bad.append(f"sound.{k}: pole ({i},{j}) retained although it fails the {k} criterion")
            if (not nan0) and all(crit.values()):
                if not retained:
                    bad.append(f"complete: pole ({i},{j}) passes every criterion but was removed")
                else:
                    if Fn[i, j] != Fn0[i, j] or Xi[i, j] != Xi0[i, j] or not np.array_equal(Phi[i, j], Phi0[i, j]):
                        bad.append(f"complete: pole ({i},{j}) retained with changed values")
            pats = {"Xi": np.isnan(Xi[i, j]), "Phi": bool(np.isnan(Phi[i, j]).any())}
            if np.isnan(Phi[i, j]).any() != np.isnan(Phi[i, j]).all():
                bad.append(f"pattern: mode shape of pole ({i},{j}) is partially NaN")
            if Lam is not None:
                pats["Lambds"] = np.isnan(Lam[i, j])
            if Fc is not None:
                pats["Fn_cov"] = np.isnan(Fc[i, j])
                pats["Xi_cov"] = np.isnan(Xc[i, j])
            for k, v in pats.items():
                if bool(v) != (not retained):
                    bad.append(f"pattern.{k}: table {k} is {'NaN' if v else 'finite'} at ({i},{j}) while Fn is "
                               f"{'finite' if retained else 'NaN'}")
    return bad


def make_algo(cls_name, hc, seed, calc_unc=False, method_SD="per", nxseg=256):
    from pyoma2.algorithms import ssi as assi, plscf as aplscf
    from pyoma2.setup.single import SingleSetup
    from pyoma2.setup.multi import MultiSetup_PreGER
    y, fs = rng_data(seed)
    if cls_name.startswith("SSI"):
        kw = dict(br=8, ordmax=12, hc=hc, calc_unc=calc_unc, nb=20)
        cls = getattr(assi, cls_name if not calc_unc else "SSIcov" + ("_MS" if cls_name.endswith("_MS") else ""))
        if calc_unc:
            kw["method"] = "cov_mm"
    else:
        kw = dict(ordmax=10, nxseg=nxseg, method_SD=method_SD, hc=hc)
        cls = getattr(aplscf, cls_name)
    algo = cls(name="a", **kw)
    if cls_name.endswith("_MS"):
        d1 = y[:1500, [0, 1, 2]]
        d2 = y[1500:, [0, 1, 3]]
        st = MultiSetup_PreGER(fs=fs, ref_ind=[[0, 1], [0, 1]], datasets=[d1, d2])
    else:
        st = SingleSetup(y, fs=fs)
    st.add_algorithms(algo)
    return algo


def c09_run(inp):
    cls_name = inp["cls"]
    sets = []
    base = dict(conj=True, xi_max=0.1, mpc_lim=0.7, mpd_lim=0.3, cov_max=0.05)
    m = dict(base)
    for k, v in (inp.get("hc") or {}).items():
        if v is not None:
            m[k] = v
    sets = [m, base, dict(base, mpd_lim=0.05), dict(base, mpc_lim=0.95, conj=False), dict(base, xi_max=0.015),
            dict(base, mpc_lim=0.95, mpd_lim=0.6, cov_max=5e-3), dict(base, mpc_lim=0.99, mpd_lim=1.5, cov_max=10.0),
            dict(base, mpc_lim=0.0, mpd_lim=0.02, cov_max=10.0), dict(base, xi_max=0.012, mpc_lim=0.0, mpd_lim=1.5, cov_max=10.0),
            # the ends of the ranges: no damping limit, no shape limits (negative damping can only be removed by the damping step itself;
            # with the correlogram estimator and short segments the window correction produces such poles)
            dict(base, xi_max=1.0, mpc_lim=0.0, mpd_lim=10.0, cov_max=10.0, conj=False),
            # ... and the other end: the legal boundary values mpd_lim = 0 (only shapes with no phase scatter at all survive) and mpc_lim = 1
            dict(base, xi_max=1.0, mpc_lim=0.0, mpd_lim=0.0, cov_max=10.0, conj=False),
            dict(base, xi_max=1.0, mpc_lim=1.0, mpd_lim=10.0, cov_max=10.0, conj=False)]
    found = []
    tried = 0
    for hc in sets:
        for calc_unc in ([False, True] if cls_name == "SSIdat" else [False]):
            for method_SD, nxseg in ([("per", 256), ("cor", 256), ("cor", 64)] if cls_name.startswith("pLSCF") else [("per", 256)]):
                tried += 1
                try:
                    algo = make_algo(cls_name, hc, inp.get("seed", 0), calc_unc, method_SD, nxseg)
                    bad = c09_check(cls_name, algo, hc)
                except Exception as e:       # noqa: BLE001
                    bad = [f"run raised {type(e).__name__}: {e}"]
                if bad:
                    found.append({"hc": hc, "calc_unc": calc_unc, "method_SD": method_SD, "nxseg": nxseg, "n": len(bad), "first": bad[:3]})
        if found:
            break
    if found:
        return {"reproduced": True, "detail": f"{cls_name}.run on seeded data: {json.dumps(found[0])[:600]}"}
    return {"reproduced": False, "detail": f"{cls_name}.run satisfied the hard-criteria statement on {tried} seeded configurations"}


# ----------------------------------------------------------------------------------
# C10: labels produced by run() against an independent reading of the property
# ----------------------------------------------------------------------------------

def _mac(a, b):
    return abs(np.vdot(a, b)) ** 2 / (np.vdot(a, a).real * np.vdot(b, b).real)


def expected_labels(Fn, Xi, Phi, ordmin, ordmax, offset, ef, ex, ep):
    Lab = np.zeros(Fn.shape, dtype=int)
    for c in range(Fn.shape[1]):
        order = c + offset
        if not (ordmin <= order <= ordmax) or c == 0:
            continue
        prev = Fn[:, c - 1]
        if np.all(np.isnan(prev)):
            continue
        for i in range(Fn.shape[0]):
            if np.isnan(Fn[i, c]):
                continue
            q = int(np.nanargmin(np.abs(prev - Fn[i, c])))
            with np.errstate(all="ignore"):
                ok = (abs(Fn[i, c] - Fn[q, c - 1]) / Fn[i, c] < ef and abs(Xi[i, c] - Xi[q, c - 1]) / Xi[i, c] < ex
                      and 1 - _mac(Phi[i, c], Phi[q, c - 1]) < ep)
            Lab[i, c] = 1 if ok else 0
    return Lab


def crafted_tables(n_rows, n_cols, nch, seed):
    """pole tables with three persistent modes (slightly perturbed from order to order), spurious poles and holes"""
    rng = np.random.RandomState(seed)
    Fn = np.full((n_rows, n_cols), np.nan)
    Xi = np.full((n_rows, n_cols), np.nan)
    Phi = np.full((n_rows, n_cols, nch), np.nan, dtype=complex)
    Lam = np.full((n_rows, n_cols), np.nan, dtype=complex)
    modes = [(2.0, 0.01), (5.0, 0.02), (9.0, 0.015)]
    shapes = [rng.randn(nch) for _ in modes]
    for c in range(n_cols):
        rows = list(range(n_rows))
        rng.shuffle(rows)
        k = 0
        for m, (f, x) in enumerate(modes):
            if k >= n_rows or rng.rand() < 0.12:
                continue
            r = rows[k]
            k += 1
            Fn[r, c] = f * (1 + 1e-3 * rng.randn())
            Xi[r, c] = x * (1 + 1e-2 * rng.randn())
            Phi[r, c] = shapes[m] * (1 + 1e-3 * rng.randn(nch))
        while k < n_rows and rng.rand() < 0.5:
            r = rows[k]
            k += 1
            Fn[r, c] = rng.uniform(1, 12)
            Xi[r, c] = rng.uniform(0.001, 0.05)
            Phi[r, c] = rng.randn(nch)
        ok = ~np.isnan(Fn[:, c])
        Lam[ok, c] = -Xi[ok, c] * 2 * np.pi * Fn[ok, c] + 1j * 2 * np.pi * Fn[ok, c]
    return Fn, Xi, Phi, Lam


def c10_run(inp):
    import pyoma2.algorithms.plscf as aplscf
    import pyoma2.algorithms.ssi as assi
    from pyoma2.setup.single import SingleSetup
    cls_name = inp["cls"]
    offset = inp.get("offset", 0)
    hc = dict(conj=False, xi_max=1.0, mpc_lim=0.0, mpd_lim=10.0, cov_max=1e9)
    sc = dict(err_phi=0.03, err_fn=0.01, err_xi=0.05)       # a user's dict: keys in no particular order
    cases = []
    om = inp.get("ordmax") or 8
    omn = inp.get("ordmin")
    for ordmax in sorted({min(max(int(om), 3), 10), 8}):
        for ordmin in sorted({0, 1, 2, 3, min(int(omn) if omn is not None else 2, ordmax)}):
            if ordmin <= ordmax:
                cases.append((ordmin, ordmax))
    y, fs = rng_data(1, n=1200, nch=3)
    bad = []
    for (ordmin, ordmax) in cases:
        for seed in range(3):
            if cls_name.startswith("SSI"):
                n_rows, n_cols = ordmax, ordmax + 1
                T = crafted_tables(n_rows, n_cols, 3, seed)
                orig = assi.ssi.SSI_poles
                with_cov = seed == 2
                if with_cov:
                    # covariance tables: some retained poles exceed the threshold and are rejected by the covariance criterion
                    rc = np.random.RandomState(seed + ordmax)
                    Fc = np.where(np.isnan(T[0]), np.nan, rc.choice([0.001, 0.5], size=T[0].shape, p=[0.7, 0.3]))
                    cov = (Fc, np.where(np.isnan(T[0]), np.nan, 0.001), np.where(np.isnan(T[2].real), np.nan, 0.001))
                    assi.ssi.SSI_poles = lambda *a, **k: (T[0].copy(), T[1].copy(), T[2].copy(), T[3].copy(), cov[0].copy(), cov[1].copy(), cov[2].copy())
                    hc_run = dict(hc, cov_max=0.05)
                else:
                    assi.ssi.SSI_poles = lambda *a, **k: (T[0].copy(), T[1].copy(), T[2].copy(), T[3].copy(), None, None, None)
                    hc_run = hc
                try:
                    algo = getattr(assi, "SSIcov")(name="a", br=6, ordmax=ordmax, ordmin=ordmin, step=1, hc=hc_run, sc=sc)
                    st = SingleSetup(y, fs=fs)
                    st.add_algorithms(algo)
                    res = algo.run()
                finally:
                    assi.ssi.SSI_poles = orig
            else:
                n_rows, n_cols = (ordmax + 1) * 3, ordmax
                T = crafted_tables(n_rows, n_cols, 3, seed)
                orig = aplscf.plscf.pLSCF_poles
                aplscf.plscf.pLSCF_poles = lambda *a, **k: (T[0].copy(), T[1].copy(), T[2].copy(), T[3].copy())
                try:
                    algo = aplscf.pLSCF(name="a", ordmax=ordmax, ordmin=ordmin, nxseg=128, hc=hc, sc=sc)
                    st = SingleSetup(y, fs=fs)
                    st.add_algorithms(algo)
                    res = algo.run()
                finally:
                    aplscf.plscf.pLSCF_poles = orig
            want = expected_labels(res.Fn_poles, res.Xi_poles, res.Phi_poles, ordmin, ordmax, offset, sc["err_fn"], sc["err_xi"], sc["err_phi"])
            got = np.asarray(res.Lab)
            if got.shape != want.shape or not np.array_equal(got, want):
                d = np.argwhere(got != want) if got.shape == want.shape else []
                cell = [int(x) for x in d[0]] if len(d) else None
                bad.append({"ordmin": ordmin, "ordmax": ordmax, "seed": seed, "cells_differing": int(len(d)), "first": cell,
                            "order_of_first": (cell[1] + offset) if cell else None,
                            "got": int(got[tuple(cell)]) if cell else None, "want": int(want[tuple(cell)]) if cell else None})
                break
        if bad:
            break
    if bad:
        return {"reproduced": True, "detail": f"{cls_name}.run with stubbed pole tables labels differ from the property: {json.dumps(bad[0])}"}
    return {"reproduced": False, "detail": f"{cls_name}.run labels agree with the property on {len(cases) * 3} crafted pole tables"}


def _dec_arr(v):
    import numpy as _np
    if v["kind"] == "complex":
        cells = [complex(_np.nan, _np.nan) if c is None else complex(c[0], c[1]) for c in v["cells"]]
        return _np.array(cells, dtype=complex).reshape(v["shape"])
    if v["kind"] == "float":
        return _np.array([_np.nan if c is None else c for c in v["cells"]], dtype=float).reshape(v["shape"])
    return _np.array(v["cells"]).reshape(v["shape"])


def c10_fn(inp):
    """real gen.SC_apply against the independent reading of the property"""
    from pyoma2.functions import gen
    tables = []
    try:
        Fn, Xi = _dec_arr(inp["Fn"]), _dec_arr(inp["Xi"])
        n0, n1 = Fn.shape
        for variant in ("same", "distinct"):
            rng = np.random.RandomState(3)
            base = rng.randn(3)
            Phi = np.full((n0, n1, 3), np.nan, dtype=complex)
            for i in range(n0):
                for j in range(n1):
                    if not np.isnan(Fn[i, j]):
                        Phi[i, j] = base if variant == "same" else rng.randn(3) + 1j * rng.randn(3)
            tables.append((f"model tables/{variant} shapes", Fn, Xi, Phi, int(inp["ordmin"]), int(inp["ordmax"]),
                           float(inp["err_fn"]), float(inp["err_xi"]), float(inp["err_phi"])))
    except Exception:       # noqa: BLE001
        pass
    for seed in range(12):
        for (n_rows, n_cols) in ((5, 6), (9, 7)):
            Fn, Xi, Phi, _ = crafted_tables(n_rows, n_cols, 3, seed)
            rng = np.random.RandomState(seed)
            if seed % 3 == 0:     # first column mirrors the last one (a persistent mode seen at the first order)
                Fn[:, 0], Xi[:, 0], Phi[:, 0] = Fn[:, -1], Xi[:, -1], Phi[:, -1]
            if seed % 4 == 1:     # an order without a single retained pole in the middle of the range (the hard criteria may empty one):
                cmid = n_cols // 2         # the poles of the next order have nothing to be compared with
                Fn[:, cmid], Xi[:, cmid], Phi[:, cmid] = np.nan, np.nan, np.nan
            for ordmin in (0, 1, 2):
                tables.append((f"crafted seed={seed} shape=({n_rows},{n_cols}) ordmin={ordmin}", Fn, Xi, Phi, ordmin,
                               n_cols - 1 - (seed % 2), 0.01, 0.05, 0.03))
    # a pole bracketed by two candidates of the previous order at nearly equal distances whose verdicts differ: "nearest" is the
    # smallest ABSOLUTE frequency distance (a relative or squared-relative distance picks the other one)
    for k, (f0, delta, eps) in enumerate(((10.0, 0.05, 0.002), (2.0, 0.3, 0.05), (40.0, 1.0, 0.01), (1.0, 0.2, 0.1))):
        for near_is_low in (True, False):
            a, b = f0 - delta * (1 if near_is_low else 1 + eps), f0 + delta * (1 + eps if near_is_low else 1)
            sh = [np.array([1.0, 0.5, -0.3], dtype=complex), np.array([0.2, -1.0, 0.7], dtype=complex)]
            Fn = np.full((3, 4), np.nan)
            Xi = np.full((3, 4), np.nan)
            Phi = np.full((3, 4, 3), np.nan, dtype=complex)
            Fn[:2, 2], Xi[:2, 2] = [a, b], [0.02, 0.02]
            Phi[0, 2], Phi[1, 2] = sh[0], sh[1]
            Fn[0, 3], Xi[0, 3] = f0, 0.02
            for match in (0, 1):
                P = Phi.copy()
                P[0, 3] = sh[match]
                tables.append((f"bracketed pole {k} (candidates {a:.4f} / {b:.4f} around {f0}, shape of candidate {match})", Fn.copy(), Xi.copy(), P, 0, 3, 0.5, 0.5, 0.05))
    for (what, Fn, Xi, Phi, ordmin, ordmax, ef, ex, ep) in tables:
        if ordmax >= Fn.shape[1] or ordmin < 0:
            continue
        args = (Fn.copy(), Xi.copy(), Phi.copy())
        try:
            got = gen.SC_apply(args[0], args[1], args[2], ordmin, ordmax, 1, ef, ex, ep)
        except Exception as e:      # noqa: BLE001
            return {"reproduced": True, "detail": f"SC_apply raised {type(e).__name__} on {what}"}
        want = expected_labels(Fn, Xi, Phi, ordmin, ordmax, 0, ef, ex, ep)
        if not all(np.array_equal(a, b, equal_nan=True) for a, b in zip(args, (Fn, Xi, Phi))):
            return {"reproduced": True, "detail": f"SC_apply modified its argument tables on {what}"}
        if got.shape != want.shape or not np.array_equal(np.asarray(got), want):
            d = np.argwhere(np.asarray(got) != want)
            cell = [int(x) for x in d[0]]
            return {"reproduced": True, "detail": f"SC_apply differs from the property on {what}: cell {cell} (column = order "
                                                  f"{cell[1]}) labelled {int(got[tuple(cell)])}, property says {int(want[tuple(cell)])}; "
                                                  f"ordmin={ordmin} ordmax={ordmax}"}
    return {"reproduced": False, "detail": f"SC_apply agrees with the property on {len(tables)} tables"}


# ----------------------------------------------------------------------------------
# C02: PoSER merging against the property statement
# ----------------------------------------------------------------------------------

def c02_merge(inp):
    from pyoma2.functions import gen
    rng = np.random.RandomState(inp.get("seed", 0))
    tried = 0
    for trial in range(300):
        S = int(rng.randint(2, 5)) if not inp.get("nsetup") or trial % 2 else int(inp["nsetup"])
        nref = int(rng.randint(1, 5))
        nm = int(rng.randint(1, 5))
        cplx = trial % 3 == 0
        nrov = [int(rng.randint(0, 6)) for _ in range(S)]
        ntot = nref + sum(nrov)
        G = rng.randn(ntot, nm) + (1j * rng.randn(ntot, nm) if cplx else 0)
        # every seventh layout: shapes stored losslessly as INTEGERS (hand-typed / integer-coded shapes) with integer factors per setup - the
        # merged shape in the first setup's scale is not integer-valued in general and must not be truncated
        ints = trial % 7 == 3
        if ints:
            G = rng.randint(-6, 7, size=(ntot, nm)).astype(float)
            G[G == 0] = 1.0
        MS, refl, rows = [], [], list(range(nref))
        off = nref
        cfac = np.empty((S, nm))
        for s_ in range(S):
            n_s = nref + nrov[s_]
            pos = rng.permutation(n_s)[:nref]          # channel positions of the references, in any order
            sens = np.empty(n_s, dtype=int)
            sens[pos] = np.arange(nref)
            rovpos = [p for p in range(n_s) if p not in set(pos.tolist())]
            sens[rovpos] = np.arange(off, off + nrov[s_])
            off += nrov[s_]
            cfac[s_] = rng.choice([-1, 1], nm) * np.exp(rng.uniform(np.log(0.05), np.log(20), nm))
            if ints:
                cfac[s_] = rng.choice([-1, 1], nm) * rng.choice([1, 2, 4], nm)
                G[sens[rovpos], :] = G[sens[rovpos], :] / np.abs(cfac[s_])[None, :]        # stored exactly as integers by THIS setup
                MS.append(np.rint(G[sens, :] * cfac[s_][None, :]).astype(np.int64))
                assert np.array_equal(MS[-1], G[sens, :] * cfac[s_][None, :])
            else:
                MS.append(G[sens, :] * cfac[s_][None, :])
            refl.append([int(p) for p in pos])
            rows += [int(x) for x in sens[rovpos]]
        tried += 1
        want = G[rows, :] * cfac[0][None, :]
        try:
            got = gen.merge_mode_shapes([m.copy() for m in MS], [list(r) for r in refl])
        except Exception as e:      # noqa: BLE001
            return {"reproduced": True, "detail": f"merge_mode_shapes raised {type(e).__name__}: {e} (setups={S}, refs={refl})"}
        if got.shape != want.shape or not np.allclose(got, want, rtol=1e-8, atol=1e-10):
            bad = None
            if got.shape == want.shape:
                d = np.argwhere(~np.isclose(got, want, rtol=1e-8, atol=1e-10))
                bad = [int(x) for x in d[0]]
            return {"reproduced": True, "detail": f"merge_mode_shapes differs from c[0]*G{' (integer-dtype shapes)' if ints else ''}: setups={S}, Nref={nref}, ref_ind={refl}, "
                                                  f"factors(mode0)={np.round(cfac[:, 0], 3).tolist()}, first bad cell {bad}: got "
                                                  f"{got[tuple(bad)] if bad else got.shape}, want {want[tuple(bad)] if bad else want.shape}"}
    return {"reproduced": False, "detail": f"merge_mode_shapes equals the global shape in the first setup's scale on {tried} random layouts"}


# ----------------------------------------------------------------------------------
# C16: the real click handlers against a list-of-pairs model
# ----------------------------------------------------------------------------------

def c16_dialog(inp):
    import itertools
    import types
    from collections import Counter
    from pyoma2.support.sel_from_plot import SelFromPlot
    plot = inp.get("plot", "SSI")
    rng = np.random.RandomState(5)
    # a perfectly stabilised pole has the bit-identical frequency at several orders (2.0 at orders 1 and 2, 5.0 at orders 3 and 4): a
    # frequency does not determine its order
    Fn = np.array([[np.nan, 2.0, 2.0, 5.0, 1.0],
                   [np.nan, 5.1, np.nan, 2.02, 5.0],
                   [np.nan, np.nan, 8.0, 7.9, 2.03]])
    freq = np.linspace(0, 10, 41)

    def fresh():
        o = object.__new__(SelFromPlot)
        o.plot = plot
        o.shift_is_held = False
        o.sel_freq = []
        o.algo = types.SimpleNamespace(result=types.SimpleNamespace(Fn_poles=Fn.copy(), freq=freq.copy(), Lab=np.zeros(Fn.shape, int),
                                                                    S_val=np.ones((2, 2, 41))),
                                       run_params=types.SimpleNamespace(ordmin=0, ordmax=4, step=1), fs=20.0)
        o.freqlim = (0.0, 10.0)
        o.hide_poles = 1
        o.show_legend = 0
        if plot == "FDD":
            o.freq_ind = []
        else:
            o.pole_ind = []
        o.plot_stab = lambda *a, **k: None
        o.plot_svPSD = lambda *a, **k: None
        return o
    ev = lambda b, x, y: types.SimpleNamespace(button=b, xdata=x, ydata=y, key="shift")     # noqa: E731
    picks = [(5.02, 3.2), (2.0, 1.1), (1.2, 3.9), (7.0, 2.6), (2.0, 2.2), (5.0, 4.1),
             (8.1, 2.1)]      # ... and a pole that sits BELOW a discarded (NaN) entry of its order column
    acts = [("pick", p) for p in picks] + [("desel_one", None), ("desel_near", 2.3), ("desel_near", 6.0), ("noshift_pick", picks[0])]

    def model_pick(x, y):
        if plot == "FDD":
            k = int(np.argmin(np.abs(freq - x)))
            return (float(freq[k]), None)
        col = int(np.argmin(np.abs(np.arange(Fn.shape[1]) - y)))
        s_ = int(np.nanargmin(np.abs(Fn[:, col] - x)))
        return (float(Fn[s_, col]), col)
    checked = 0
    for L in (1, 2, 3, 4):
        for seq in itertools.product(range(len(acts)), repeat=L):
            if L == 4 and checked > 4000:
                break
            o = fresh()
            o.on_key_press(types.SimpleNamespace(key="shift"))
            model = []          # list of admissible multisets (Counter) - deselect-one may remove any entry
            states = [Counter()]
            desc = []
            try:
                for a in seq:
                    kind, arg = acts[a]
                    desc.append(f"{kind}{arg if arg is not None else ''}")
                    click = o.on_click_FDD if plot == "FDD" else (lambda e: o.on_click_SSI(e, plot))
                    if kind == "pick":
                        click(ev(1, arg[0], arg[1]))
                        pr = model_pick(*arg)
                        states = [st + Counter([pr]) for st in states]
                    elif kind == "noshift_pick":
                        o.on_key_release(types.SimpleNamespace(key="shift"))
                        click(ev(1, arg[0], arg[1]))
                        o.on_key_press(types.SimpleNamespace(key="shift"))
                    elif kind == "desel_one":
                        click(ev(3, 0.0, 0.0))
                        new = []
                        for st in states:
                            if not st:
                                new.append(st)
                            for k_ in st:
                                t = st.copy()
                                t[k_] -= 1
                                new.append(+t)
                        states = new
                    else:
                        click(ev(2, arg, 1.0))
                        new = []
                        for st in states:
                            if not st:
                                new.append(st)
                                continue
                            dmin = min(abs(k_[0] - arg) for k_ in st)
                            for k_ in st:
                                if abs(abs(k_[0] - arg) - dmin) < 1e-12:
                                    t = st.copy()
                                    t[k_] -= 1
                                    new.append(+t)
                        states = new
                    idx = o.freq_ind if plot == "FDD" else o.pole_ind
                    got = Counter((float(f), None if plot == "FDD" else int(i)) for f, i in zip(o.sel_freq, idx if plot != "FDD" else [None] * len(o.sel_freq)))
                    if len(o.sel_freq) != len(idx):
                        return {"reproduced": True, "detail": f"{plot} dialog: lists of different length after {desc}"}
                    if got not in states:
                        return {"reproduced": True, "detail": f"{plot} dialog after {desc}: selection handed over {sorted(got.elements(), key=str)} "
                                                              f"but the still-selected (frequency, order) pairs are {sorted(states[0].elements(), key=str)}"}
            except Exception as e:      # noqa: BLE001
                return {"reproduced": True, "detail": f"{plot} dialog: {type(e).__name__} ({e}) during {desc}"}
            checked += 1
    return {"reproduced": False, "detail": f"{plot} dialog agrees with the list-of-pairs model on {checked} action sequences (length <= 4)"}


# ----------------------------------------------------------------------------------
# C03 split / C14 preprocessing histories against an executable model (scipy called directly)
# ----------------------------------------------------------------------------------

def c03_split(inp):
    import itertools
    from pyoma2.functions import gen
    n_checked = 0
    for n in range(2, 7):
        y = np.arange(7 * n, dtype=float).reshape(7, n) + 0.5
        for k in range(1, n):
            for refs in itertools.permutations(range(n), k):
                other = np.arange(5 * 3, dtype=float).reshape(5, 3)
                try:
                    out = gen.pre_multisetup([other.copy(), y.copy()], [[2, 0], list(refs)])
                except Exception as e:      # noqa: BLE001
                    return {"reproduced": True, "detail": f"pre_multisetup raised {type(e).__name__} for n={n}, refs={list(refs)}"}
                rov = [c_ for c_ in range(n) if c_ not in refs]
                want_ref, want_mov = y[:, list(refs)].T, y[:, rov].T
                got = out[1]
                if got["ref"].shape != want_ref.shape or got["mov"].shape != want_mov.shape or \
                        not np.array_equal(got["ref"], want_ref) or not np.array_equal(got["mov"], want_mov):
                    return {"reproduced": True, "detail": f"pre_multisetup split wrong for {n} channels, reference list {list(refs)}: 'ref' rows "
                                                          f"{got['ref'][:, 0].tolist()} (want {want_ref[:, 0].tolist()}), 'mov' rows "
                                                          f"{got['mov'][:, 0].tolist()} (want {want_mov[:, 0].tolist()})"}
                n_checked += 1
    return {"reproduced": False, "detail": f"pre_multisetup split correct for all {n_checked} ordered reference subsets of <= 6 channels"}


def c14_sequences(inp):
    import itertools
    from scipy import signal
    from pyoma2.functions import gen
    from pyoma2.setup.multi import MultiSetup_PreGER
    from pyoma2.setup.single import SingleSetup
    from pyoma2.algorithms.fdd import FDD
    rng = np.random.RandomState(0)
    ignore_T = inp.get("ignore_T", True)      # the duration defect of _decimate_data is a recorded finding
    ops = [("decimate", dict(q=2)), ("decimate", dict(q=3, ftype="fir")), ("decimate", dict(q=2, n=4, zero_phase=False)),
           ("detrend", dict()), ("detrend", dict(type="constant")), ("filter", dict(Wn=2.0, order=4, btype="lowpass")),
           # scipy's documented keyword that lets detrend work in place: accepted, and still neither the user's arrays nor the stored
           # initial copy may change (first operation: the setup still holds the user's own array; after a rollback: the restored one)
           ("detrend", dict(type="linear", overwrite_data=True)),
           ("rollback", dict()), ("add", dict())]

    def model_apply(data, fs, op, kw):
        if op == "decimate":
            k2 = dict(kw)
            q = k2.pop("q")
            return signal.decimate(data, q, axis=0, **k2), fs / q
        if op == "detrend":
            return signal.detrend(data, axis=0, **{k_: v_ for k_, v_ in kw.items() if k_ != "overwrite_data"}), fs
        if op == "filter":
            sos = signal.butter(kw["order"], kw["Wn"], btype=kw["btype"], output="sos", fs=fs)
            return signal.sosfiltfilt(sos, data, axis=0), fs
        raise ValueError(op)

    def split(dss, refs):
        out = []
        for y, r in zip(dss, refs):
            rov = [c_ for c_ in range(y.shape[1]) if c_ not in r]
            out.append({"ref": y[:, list(r)].T, "mov": y[:, rov].T})
        return out

    def call(obj, op, kw):
        if op == "decimate":
            k2 = dict(kw)
            q = k2.pop("q")
            obj.decimate_data(q, **k2)
        elif op == "detrend":
            obj.detrend_data(**kw)
        elif op == "filter":
            obj.filter_data(**kw)
        elif op == "rollback":
            obj.rollback()
    close = lambda a, b: a.shape == b.shape and np.allclose(a, b, rtol=1e-9, atol=1e-12)    # noqa: E731
    checked = 0
    for L in (1, 2, 3):
        for seq in itertools.product(range(len(ops)), repeat=L):
            if L == 3 and (seq[0] > 6 or checked > 900):
                continue
            for kind in ("single", "multi"):
                fs0 = 40.0
                if kind == "single":
                    user = rng.randn(1500, 3)
                    keep = user.copy()
                    try:
                        st = SingleSetup(user, fs=fs0)
                        mdata, mfs = keep.copy(), fs0
                        desc = []
                        for j in seq:
                            op, kw = ops[j]
                            desc.append(f"{op}{kw if kw else ''}")
                            if op == "add":
                                alg = FDD(name=f"a{len(desc)}")
                                st.add_algorithms(alg)
                                if not (alg.data is st.data and alg.fs == st.fs and abs(alg.dt - 1 / st.fs) < 1e-15):
                                    return {"reproduced": True, "detail": f"SingleSetup after {desc}: algorithm not bound to the current data/fs"}
                                continue
                            call(st, op, kw)
                            if op == "rollback":
                                mdata, mfs = keep.copy(), fs0
                            else:
                                mdata, mfs = model_apply(mdata, mfs, op, kw)
                            ok = (close(st.data, mdata) and abs(st.fs - mfs) < 1e-12 and abs(st.dt - 1 / mfs) < 1e-15 and
                                  st.Ndat == mdata.shape[0] and (ignore_T or abs(st.T - mdata.shape[0] / mfs) < 1e-9)
                                  and st.Nch == mdata.shape[1])
                            if not ok:
                                return {"reproduced": True, "detail": f"SingleSetup after {desc}: data/fs/dt/Ndat/T = "
                                                                      f"{st.data.shape}/{st.fs}/{st.dt}/{st.Ndat}/{st.T}, model "
                                                                      f"{mdata.shape}/{mfs}/{1 / mfs}/{mdata.shape[0]}/{mdata.shape[0] / mfs}"
                                                                      f"{'' if close(st.data, mdata) else ' (data differ)'}"}
                            if not np.array_equal(user, keep) or not np.array_equal(st._initial_data, keep):
                                return {"reproduced": True, "detail": f"SingleSetup after {desc}: user array or initial copy modified"}
                    except Exception as e:      # noqa: BLE001
                        return {"reproduced": True, "detail": f"SingleSetup: {type(e).__name__} ({e}) during {desc}"}
                else:
                    d1, d2 = rng.randn(1500, 3), rng.randn(1300, 4)
                    refs = [[2, 0], [1, 3]]
                    keeps = [d1.copy(), d2.copy()]
                    try:
                        st = MultiSetup_PreGER(fs=fs0, ref_ind=[list(r) for r in refs], datasets=[d1, d2])
                        mds, mfs = [k_.copy() for k_ in keeps], fs0
                        desc = []
                        for j in seq:
                            op, kw = ops[j]
                            desc.append(f"{op}{kw if kw else ''}")
                            if op == "add":
                                alg = FDD(name=f"a{len(desc)}")
                                st.add_algorithms(alg)
                                if alg.data is not st.data or alg.fs != st.fs:
                                    return {"reproduced": True, "detail": f"PreGER after {desc}: algorithm not bound to the current data/fs"}
                                continue
                            call(st, op, kw)
                            if op == "rollback":
                                mds, mfs = [k_.copy() for k_ in keeps], fs0
                            else:
                                mds = [model_apply(m, mfs, op, kw)[0] for m in mds]
                                mfs = model_apply(keeps[0], mfs, op, kw)[1]
                            want = split(mds, refs)
                            ok = all(close(g["ref"], w["ref"]) and close(g["mov"], w["mov"]) for g, w in zip(st.data, want))
                            meta = (abs(st.fs - mfs) < 1e-12 and abs(st.dt - 1 / mfs) < 1e-15 and
                                    list(st.Ndats) == [m.shape[0] for m in mds] and
                                    (ignore_T or all(abs(t - m.shape[0] / mfs) < 1e-9 for t, m in zip(st.Ts, mds))))
                            if not (ok and meta):
                                return {"reproduced": True, "detail": f"MultiSetup_PreGER after {desc}: "
                                                                      f"{'data handed to algorithms differ from the model; ' if not ok else ''}"
                                                                      f"fs/dt/Ndats/Ts = {st.fs}/{st.dt}/{list(st.Ndats)}/{[round(t, 4) for t in st.Ts]}, "
                                                                      f"model {mfs}/{1 / mfs}/{[m.shape[0] for m in mds]}/{[round(m.shape[0] / mfs, 4) for m in mds]}"}
                            if not (np.array_equal(d1, keeps[0]) and np.array_equal(d2, keeps[1])
                                    and np.array_equal(st._initial_datasets[0], keeps[0]) and np.array_equal(st._initial_datasets[1], keeps[1])):
                                return {"reproduced": True, "detail": f"PreGER after {desc}: user arrays or initial copies modified"}
                    except Exception as e:      # noqa: BLE001
                        return {"reproduced": True, "detail": f"MultiSetup_PreGER: {type(e).__name__} ({e}) during {desc}"}
                checked += 1
    return {"reproduced": False, "detail": f"preprocessing histories agree with the scipy model on {checked} sequences (length <= 3)"}


# ----------------------------------------------------------------------------------
# C13 / C04: spectral estimation against direct scipy calls
# ----------------------------------------------------------------------------------

def _sd_reference(Yall, Yref, dt, nxseg, method, pov):
    from scipy import signal
    x = Yall[:, None, :]
    y = Yref[None, :, :]
    if method == "per":
        return signal.csd(x, y, fs=1 / dt, nperseg=nxseg, noverlap=nxseg * pov, window="hann")
    _, P = signal.csd(x, y, nperseg=nxseg // 2, nfft=nxseg, noverlap=0, window="boxcar")
    R = np.fft.irfft(P)
    n = R.shape[2]
    R = R * signal.windows.exponential(n, center=0, tau=-n / np.log(0.01), sym=False)
    S_ = np.fft.rfft(R)
    return np.arange(S_.shape[2]) / (dt * nxseg), S_


def c13_sdest(inp):
    from pyoma2.functions import fdd
    rng = np.random.RandomState(2)
    n_ok = 0
    for method in ("per", "cor"):
        for nxseg in (16, 17, 64, 101, 256):
            for pov in (0.0, 0.25, 0.5, 0.75):
                if method == "per" and abs(nxseg * pov - round(nxseg * pov)) > 1e-12:
                    continue
                for fs in (1.0, 37.5):
                    # row counts: more data rows than references, as many (distinct records), a single pair, the data rows in another order
                    nall, nref_ = [(3, 2), (3, 3), (1, 1), (2, 4)][n_ok % 4]
                    Yall, Yref = rng.randn(nall, 4 * nxseg + 7), rng.randn(nref_, 4 * nxseg + 7)
                    if n_ok % 8 == 1:
                        Yref = Yall[::-1].copy()
                    try:
                        f, S_ = fdd.SD_est(Yall.copy(), Yref.copy(), 1 / fs, nxseg, method=method, pov=pov)
                    except Exception as e:      # noqa: BLE001
                        return {"reproduced": True, "detail": f"SD_est raised {type(e).__name__} ({e}) for {method}, nxseg={nxseg}, pov={pov}"}
                    fr, Sr = _sd_reference(Yall, Yref, 1 / fs, nxseg, method, pov)
                    grid = np.arange(nxseg // 2 + 1) * fs / nxseg
                    if f.shape != grid.shape or not np.allclose(f, grid, rtol=1e-12, atol=1e-12):
                        return {"reproduced": True, "detail": f"SD_est frequency grid is not k*fs/nxseg for method={method}, nxseg={nxseg}, fs={fs}: "
                                                              f"last line {f[-1]:.6g}, expected {grid[-1]:.6g}"}
                    if S_.shape != Sr.shape or not np.allclose(S_, Sr, rtol=1e-10, atol=1e-14):
                        return {"reproduced": True, "detail": f"SD_est differs from the prescribed scipy estimate for method={method}, nxseg={nxseg}, pov={pov}, fs={fs}"}
                    n_ok += 1
    return {"reproduced": False, "detail": f"SD_est equals the prescribed scipy estimate and grid on {n_ok} configurations"}


def c04_preger(inp):
    from pyoma2.functions import fdd
    rng = np.random.RandomState(4)
    n_ok = 0
    for trial in range(24):
        S = int(rng.randint(2, 4))
        n_ref = int(rng.randint(1, 4))
        nxseg = int(rng.choice([32, 64, 100, 75, 33]))       # odd segment lengths too: the last grid line is then below fs / 2
        pov = float(rng.choice([0.0, 0.25, 0.5, 0.75]))
        method = ("per", "cor")[trial % 2]
        fs = float(rng.choice([1.0, 50.0]))
        Y = []
        for s_ in range(S):
            nm = int(rng.randint(1, 4))
            nd = 6 * nxseg + int(rng.randint(0, 9))
            g = float(np.exp(rng.uniform(-2, 2)))
            Y.append({"ref": g * rng.randn(n_ref, nd), "mov": g * rng.randn(nm, nd)})
        try:
            f, Sy = fdd.SD_PreGER([{k: v.copy() for k, v in y.items()} for y in Y], fs, nxseg=nxseg, pov=pov, method=method)
        except Exception as e:      # noqa: BLE001
            return {"reproduced": True, "detail": f"SD_PreGER raised {type(e).__name__} ({e})"}
        G = []
        for y in Y:
            fr, Sr = _sd_reference(np.vstack((y["ref"], y["mov"])), y["ref"], 1 / fs, nxseg, method, pov)
            G.append(Sr)
        Gbar = sum(g[:n_ref, :n_ref] for g in G) / S
        want = []
        for k in range(G[0].shape[2]):
            blocks = [Gbar[:, :, k]]
            for g in G:
                blocks.append(g[n_ref:, :n_ref, k] @ np.linalg.inv(g[:n_ref, :n_ref, k]) @ Gbar[:, :, k])
            want.append(np.vstack(blocks))
        want = np.moveaxis(np.array(want), 0, 2)
        if Sy.shape != want.shape or not np.allclose(f, fr) or not np.allclose(Sy, want, rtol=1e-7, atol=1e-12):
            which = ""
            if np.shape(f) != np.shape(fr) or not np.allclose(f, fr):
                which = f"frequency vector differs from the estimator's grid (last line {np.asarray(f)[-1]:.6f} vs {fr[-1]:.6f})"
            elif Sy.shape == want.shape:
                d = np.argwhere(~np.isclose(Sy, want, rtol=1e-7, atol=1e-12))
                which = f"first differing entry row {int(d[0][0])} (reference rows: 0..{n_ref - 1})"
            return {"reproduced": True, "detail": f"SD_PreGER differs from [mean reference block; transmissibility x mean] for method={method}, "
                                                  f"nxseg={nxseg}, pov={pov}, setups={S}, n_ref={n_ref}: {which}"}
        n_ok += 1
    return {"reproduced": False, "detail": f"SD_PreGER has the prescribed block structure on {n_ok} random multi-setup records"}


# ----------------------------------------------------------------------------------
# C18: indicators against independent formulas
# ----------------------------------------------------------------------------------

def c18_indicators(inp):
    from pyoma2.functions import gen
    rng = np.random.RandomState(8)
    bad = []

    def mac_ref(x, a):
        x, a = x / np.linalg.norm(x), a / np.linalg.norm(a)
        return abs(np.vdot(x, a)) ** 2
    for trial in range(400):
        n = int(rng.randint(2, 20))
        x = rng.randn(n) + 1j * rng.randn(n)
        a = rng.randn(n) + 1j * rng.randn(n)
        if trial % 5 == 0:
            x[rng.randint(n)] = 0
        cfac = np.exp(rng.uniform(np.log(1e-6), np.log(1e6))) * np.exp(1j * rng.uniform(0, 2 * np.pi))
        r = rng.randn(n)
        if trial % 7 == 0:
            r[rng.randint(n)] = 0.0
        try:
            m = float(gen.MAC(x, a))
            if not (-1e-12 <= m <= 1 + 1e-9) or abs(m - mac_ref(x, a)) > 1e-9 or abs(float(gen.MAC(cfac * x, a)) - m) > 1e-8:
                bad.append(f"MAC: value/range/scale invariance fails for n={n}, |c|={abs(cfac):.3g}: {m}, {float(gen.MAC(cfac * x, a))}, ref {mac_ref(x, a)}")
            X, A = rng.randn(n, 3) + 1j * rng.randn(n, 3), rng.randn(n, 2) + 1j * rng.randn(n, 2)
            M = gen.MAC(X, A)
            if M.shape != (3, 2) or not np.allclose(gen.MAC(A, X), M.T, atol=1e-12) or abs(M[1, 0] - mac_ref(X[:, 1], A[:, 0])) > 1e-9:
                bad.append("MAC: table orientation / symmetry fails")
            if abs(float(gen.MAC(cfac * r, r.astype(complex))) - 1) > 1e-9:
                bad.append(f"MAC of a collinear pair is {float(gen.MAC(cfac * r, r.astype(complex)))}")
            # operands of different dtypes: an identified complex shape (set) against real reference shapes, and the reverse
            ra, RA = rng.randn(n), rng.randn(n, 2)
            for xx, aa, what in ((x, ra, "complex vector, real vector"), (ra, x, "real vector, complex vector"), (X, RA, "complex set, real set"),
                                 (RA, X, "real set, complex set"), (cfac * r, r, "collinear complex multiple of a real shape")):
                Mm = np.atleast_2d(np.asarray(gen.MAC(xx, aa), dtype=float))
                ref = np.array([[mac_ref(xc, ac) for ac in np.atleast_2d(aa.T)] for xc in np.atleast_2d(xx.T)])
                if Mm.shape != ref.shape or not np.allclose(Mm, ref, atol=1e-9) or not np.allclose(np.atleast_2d(np.asarray(gen.MAC(aa, xx), dtype=float)), Mm.T, atol=1e-9):
                    bad.append(f"MAC ({what}): {np.round(Mm, 6).tolist()} instead of {np.round(ref, 6).tolist()} (or not symmetric up to transposition)")
            # shapes whose real and imaginary parts are exactly orthogonal (Re.Im == 0.0) without either being zero
            for sh in (np.array([1, 1j, 0]), np.array([1 + 1j, 1 - 1j]), np.array([1, 0.5j, 0, -0.25j]), np.array([2.0, 0, 3j])):
                ref_ = 1 - abs(np.sum(sh * sh)) ** 2 / np.sum(np.abs(sh) ** 2) ** 2
                got_ = float(gen.MCF(sh)[0])
                both = np.column_stack([sh, (0.7 - 0.2j) * sh])
                if abs(got_ - ref_) > 1e-12 or not np.allclose(np.asarray(gen.MCF(both), dtype=float), [ref_, ref_], atol=1e-12):
                    bad.append(f"MCF of {sh.tolist()} (Re.Im = 0 exactly) is {got_}, independent value {ref_:.6f} (per column: {np.asarray(gen.MCF(both), dtype=float).tolist()})")
            mcf = float(gen.MCF(x)[0])
            if not (-1e-12 <= mcf <= 1 + 1e-12) or abs(float(gen.MCF(cfac * x)[0]) - mcf) > 1e-8 or abs(float(gen.MCF(cfac * r)[0])) > 1e-9:
                bad.append(f"MCF range/invariance/collinear fails: {mcf}, {float(gen.MCF(cfac * x)[0])}, {float(gen.MCF(cfac * r)[0])}")
            mpc = complex(gen.MPC(x)).real
            if not (-1e-12 <= mpc <= 1 + 1e-9) or abs(complex(gen.MPC(cfac * x)).real - mpc) > 1e-7:
                bad.append(f"MPC range/invariance fails: {mpc} vs {complex(gen.MPC(cfac * x)).real}")
            if np.std(r) > 1e-9 and abs(complex(gen.MPC(cfac * r)).real - 1) > 1e-7:
                bad.append(f"MPC of a collinear shape is {gen.MPC(cfac * r)}")
            mpd = float(gen.MPD(x))
            if not np.isfinite(mpd) or not (-1e-12 <= mpd <= np.pi / 2 + 1e-12):
                bad.append(f"MPD not finite / out of [0, pi/2] for a shape {'with a zero component' if (x == 0).any() else ''}: {mpd}")
            mpd0 = float(gen.MPD(cfac * r))
            if not np.isfinite(mpd0) or abs(mpd0) > 1e-6:
                bad.append(f"MPD of a collinear shape {'with a zero component ' if (r == 0).any() else ''}is {mpd0}")
            cc = float(rng.randn())
            if abs(float(gen.MSF(r, cc * r)[0]) - cc) > 1e-9 * max(1, abs(cc)):
                bad.append(f"MSF(v, c v) = {float(gen.MSF(r, cc * r)[0])} for c = {cc}")
        except Exception as e:      # noqa: BLE001
            bad.append(f"{type(e).__name__}: {e}")
        if bad:
            break
    if bad:
        return {"reproduced": True, "detail": bad[0]}
    return {"reproduced": False, "detail": "MAC/MCF/MPC/MPD/MSF agree with independent formulas, ranges, invariances and collinear values on 400 random shapes "
                                           "(MPC on constant real vectors excluded: recorded finding)"}


# ----------------------------------------------------------------------------------
# C20: the artists matplotlib receives, read back from an Agg figure
# ----------------------------------------------------------------------------------

def c20_plots(inp):
    import types
    import matplotlib
    matplotlib.use("Agg")
    import matplotlib.pyplot as plt
    from collections import Counter
    from pyoma2.functions import plot
    import pyoma2.algorithms.plscf as aplscf
    import pyoma2.algorithms.ssi as assi
    import pyoma2.algorithms.fdd as afdd
    rng = np.random.RandomState(11)

    def pairs(x, y):
        return Counter((round(float(a), 9), round(float(b), 9)) for a, b in zip(x, y) if np.isfinite(a) and np.isfinite(b))

    def stable_unstable(ax):
        st = Counter()
        for ln in ax.get_lines():
            if ln.get_marker() == "o" and ln.get_color() in ("g",):
                xy = ln.get_xydata()
                st += pairs(xy[:, 0], xy[:, 1])
        un = Counter()
        for col in ax.collections:
            if type(col).__name__ == "PathCollection":
                off = np.asarray(col.get_offsets())
                if off.size:
                    un += pairs(off[:, 0], off[:, 1])
        return st, un
    for trial in range(40):
        # odd trials leave every diagram of the trial open while the next ones are drawn (a notebook session): a diagram must not
        # depend on, or draw into, figures that earlier calls left behind
        plt.close("all")
        n0, n1 = int(rng.randint(2, 9)), int(rng.randint(2, 12))
        Fn, Xi, _, _ = crafted_tables(n0, n1, 2, trial)
        Lab = (rng.rand(n0, n1) < 0.5).astype(int)
        Lab[np.isnan(Fn)] = 0
        Fc = rng.rand(n0, n1) * 0.3 if trial % 3 == 0 else None
        for hide in (True, False):
            want_st = Counter((round(float(Fn[r, c_]), 9), float(c_)) for r in range(n0) for c_ in range(n1) if Lab[r, c_] == 1 and np.isfinite(Fn[r, c_]))
            want_un = Counter((round(float(Fn[r, c_]), 9), float(c_)) for r in range(n0) for c_ in range(n1) if Lab[r, c_] == 0 and np.isfinite(Fn[r, c_]))
            try:
                if trial % 4 == 1:
                    # the caller's own axes: the top panel of a two-panel figure (pyplot's current axes is the bottom one)
                    fig0, (ax0, ax_other) = plt.subplots(2, 1)
                    fig, ax = plot.stab_plot(Fn.copy(), Lab.copy(), 1, n1 - 1 if trial % 2 else n1 + 2, ordmin=0, hide_poles=hide, Fn_cov=Fc, fig=fig0, ax=ax0)
                    if ax is not ax0 or ax_other.get_lines() or ax_other.collections:
                        plt.close("all")
                        return {"reproduced": True, "detail": f"stab_plot(hide_poles={hide}) given the top panel of a two-panel figure: returned another axes or drew "
                                                              f"{len(ax_other.get_lines())} line(s) / {len(ax_other.collections)} marker collection(s) on the OTHER panel"}
                else:
                    fig, ax = plot.stab_plot(Fn.copy(), Lab.copy(), 1, n1 - 1 if trial % 2 else n1 + 2, ordmin=0, hide_poles=hide, Fn_cov=Fc)
                st, un = stable_unstable(ax)
                if trial % 2 == 0:
                    plt.close("all")
            except Exception as e:      # noqa: BLE001
                return {"reproduced": True, "detail": f"stab_plot raised {type(e).__name__}: {e}"}
            if st != want_st or (not hide and un != want_un) or (hide and sum(un.values())):
                return {"reproduced": True, "detail": f"stab_plot(hide_poles={hide}) on a {n0}x{n1} table: markers differ from one per pole at "
                                                      f"(Fn, order): stable ok={st == want_st}, unstable ok={un == want_un or hide}; e.g. "
                                                      f"{sorted((un - want_un).elements())[:2]} drawn, {sorted((want_un - un).elements())[:2]} missing"}
            want_st = Counter((round(float(Fn[r, c_]), 9), round(float(Xi[r, c_]), 9)) for r in range(n0) for c_ in range(n1) if Lab[r, c_] == 1 and np.isfinite(Fn[r, c_]))
            want_un = Counter((round(float(Fn[r, c_]), 9), round(float(Xi[r, c_]), 9)) for r in range(n0) for c_ in range(n1) if Lab[r, c_] == 0 and np.isfinite(Fn[r, c_]))
            try:
                # `ordmin` is documented as the first order of the stability check - it selects nothing: every pole labelled stable is drawn,
                # in whatever column the caller's tables hold it (pLSCF's tables start at order 1, so column ordmin - 1 may hold stable poles)
                fig, ax = plot.cluster_plot(Fn.copy(), Xi.copy(), Lab.copy(), hide_poles=hide, **({"ordmin": int(trial % 5)} if trial % 3 else {}))
                st, un = stable_unstable(ax)
                if trial % 2 == 0:
                    plt.close(fig)
            except Exception as e:      # noqa: BLE001
                return {"reproduced": True, "detail": f"cluster_plot raised {type(e).__name__}: {e}"}
            if st != want_st or (not hide and un != want_un):
                return {"reproduced": True, "detail": f"cluster_plot(hide_poles={hide}, ordmin={int(trial % 5) if trial % 3 else 'default'}): markers differ from (Fn, Xi) of the poles"}
        nc, nf = int(rng.randint(1, 5)), int(rng.randint(3, 30))
        Sv = np.zeros((nc + 1, nc, nf))
        for k in range(nc):
            Sv[k, k, :] = np.sort(rng.rand(nf) + 0.1)[::-1] / (k + 1)
        fr = np.linspace(0, 10, nf)
        for nsv in ["all"] + list(range(nc)):
            try:
                fig, ax = plot.CMIF_plot(Sv.copy(), fr.copy(), nSv=nsv)
                lines = [ln.get_xydata() for ln in ax.get_lines()]
                if trial % 2 == 0:
                    plt.close(fig)
            except Exception as e:      # noqa: BLE001
                return {"reproduced": True, "detail": f"CMIF_plot(nSv={nsv}) raised {type(e).__name__}: {e}"}
            n = nc if nsv == "all" else nsv
            ok = len(lines) == n and all(np.allclose(lines[k][:, 0], fr) and np.allclose(lines[k][:, 1], 10 * np.log10(Sv[k, k, :] / Sv[0, 0, :].max()))
                                         for k in range(min(n, len(lines))))
            if not ok:
                return {"reproduced": True, "detail": f"CMIF_plot(nSv={nsv}): {len(lines)} curves for {n} requested, or a curve is not 10 log10(S_k/max S_1) over the whole grid"}
            # a frequency window changes the visible range only: the 0 dB reference stays the maximum over the whole grid
            pk = float(fr[int(np.argmax(Sv[0, 0, :]))])
            for lim in ((float(fr[0]), float(fr[-1])), (pk + 0.3 * (fr[-1] - pk) + 1e-6, float(fr[-1])), (float(fr[0]), max(pk - 0.3 * (pk - fr[0]) - 1e-6, float(fr[0])))):
                if lim[1] <= lim[0]:
                    continue
                try:
                    fig, ax = plot.CMIF_plot(Sv.copy(), fr.copy(), freqlim=lim, nSv=nsv)
                    lines = [ln.get_xydata() for ln in ax.get_lines()]
                    plt.close(fig)
                except Exception as e:      # noqa: BLE001
                    return {"reproduced": True, "detail": f"CMIF_plot(nSv={nsv}, freqlim={lim}) raised {type(e).__name__}: {e}"}
                if len(lines) != n or not all(np.allclose(lines[k][:, 1], 10 * np.log10(Sv[k, k, :] / Sv[0, 0, :].max())) for k in range(n)):
                    return {"reproduced": True, "detail": f"CMIF_plot(nSv={nsv}, freqlim=({lim[0]:.3f}, {lim[1]:.3f})): curves are not in dB relative to the maximum of the first singular value "
                                                          f"(peak at {pk:.3f} Hz{' outside' if not lim[0] <= pk <= lim[1] else ' inside'} the window)"}
    # the classes' plot methods
    Fn, Xi, Phi, _ = crafted_tables(6, 7, 2, 1)
    Lab = (rng.rand(6, 7) < 0.5).astype(int)
    res = types.SimpleNamespace(Fn_poles=Fn, Xi_poles=Xi, Phi_poles=Phi, Lab=Lab, Fn_poles_cov=None, S_val=Sv, freq=fr)
    # rows that hold retained poles but no stable one, an empty row, a fully stable row: the tables must reach the diagram functions as stored
    Lab[1, :] = 0
    Lab[2, :] = np.where(np.isnan(Fn[2, :]), 0, 1)
    res.Fn_poles_cov = np.abs(rng.randn(6, 7)) * 0.01
    import inspect
    for cls, mod, meths in ((assi.SSIcov, assi, ("plot_stab", "plot_cluster")), (aplscf.pLSCF, aplscf, ("plot_stab", "plot_cluster")), (afdd.FDD, afdd, ("plot_CMIF",))):
        for m in meths:
            target = {"plot_stab": "stab_plot", "plot_cluster": "cluster_plot", "plot_CMIF": "CMIF_plot"}[m]
            for kw in ({}, {"freqlim": (0.5, 9.0)}) + (({"hide_poles": False}, {"hide_poles": False, "freqlim": (1.0, 5.0)}) if m != "plot_CMIF" else ()):
                seen, real = {}, getattr(mod.plot, target)

                def spy(*a, _real=real, **k):
                    ba = inspect.signature(_real).bind(*a, **k)
                    ba.apply_defaults()
                    seen.update(ba.arguments)
                    return _real(*a, **k)
                setattr(mod.plot, target, spy)
                try:
                    o = cls(name="a", br=4, ordmax=6) if cls is assi.SSIcov else (cls(name="a", ordmax=7) if cls is aplscf.pLSCF else cls(name="a"))
                    o.result = res
                    fig, ax = getattr(o, m)(**kw)
                except Exception as e:      # noqa: BLE001
                    return {"reproduced": True, "detail": f"{cls.__name__}.{m}({kw}) raised {type(e).__name__}: {e}"}
                finally:
                    setattr(mod.plot, target, real)
                ctx = f"{cls.__name__}.{m}({kw})"
                if len(plt.get_fignums()) > 12:     # earlier diagrams stay open while the next ones are drawn (as in a notebook session)
                    plt.close("all")
                if not seen:
                    return {"reproduced": True, "detail": f"{ctx} never called plot.{target}"}
                # what counts is what is DRAWN (a method may legitimately trim empty rows before calling the diagram function)
                hide = bool(kw.get("hide_poles", True))
                n0_, n1_ = Fn.shape
                if target == "stab_plot":
                    step_ = getattr(o.run_params, "step", 1) or 1
                    w_st = Counter((round(float(Fn[r, c_]), 9), float(c_ * step_)) for r in range(n0_) for c_ in range(n1_) if Lab[r, c_] == 1 and np.isfinite(Fn[r, c_]))
                    w_un = Counter((round(float(Fn[r, c_]), 9), float(c_ * step_)) for r in range(n0_) for c_ in range(n1_) if Lab[r, c_] == 0 and np.isfinite(Fn[r, c_]))
                elif target == "cluster_plot":
                    w_st = Counter((round(float(Fn[r, c_]), 9), round(float(Xi[r, c_]), 9)) for r in range(n0_) for c_ in range(n1_) if Lab[r, c_] == 1 and np.isfinite(Fn[r, c_]))
                    w_un = Counter((round(float(Fn[r, c_]), 9), round(float(Xi[r, c_]), 9)) for r in range(n0_) for c_ in range(n1_) if Lab[r, c_] == 0 and np.isfinite(Fn[r, c_]))
                if target in ("stab_plot", "cluster_plot"):
                    g_st, g_un = stable_unstable(ax)
                    if g_st != w_st or (not hide and g_un != w_un) or (hide and sum(g_un.values())):
                        return {"reproduced": True, "detail": f"{ctx}: the diagram does not show one stable marker per stable pole and "
                                                              f"{'no' if hide else 'one'} unstable marker per other retained pole of the stored tables: stable {sum(g_st.values())}/{sum(w_st.values())}, "
                                                              f"unstable {sum(g_un.values())}/{0 if hide else sum(w_un.values())}"}
                else:
                    for arg, tab in (("S_val", Sv), ("freq", fr)):
                        if np.shape(seen[arg]) != np.shape(tab) or not np.array_equal(np.asarray(seen[arg], dtype=float), np.asarray(tab, dtype=float), equal_nan=True):
                            return {"reproduced": True, "detail": f"{ctx}: plot.{target} did not receive the stored '{arg}' unchanged"}
                if "hide_poles" in seen and bool(seen["hide_poles"]) != bool(kw.get("hide_poles", True)):
                    return {"reproduced": True, "detail": f"{ctx}: hide_poles={seen['hide_poles']} reached plot.{target}"}
                if seen.get("freqlim") != kw.get("freqlim"):
                    return {"reproduced": True, "detail": f"{ctx}: freqlim={seen.get('freqlim')} reached plot.{target}"}
                rp = o.run_params
                for arg in ("step", "ordmax", "ordmin"):
                    if arg in seen and hasattr(rp, arg) and seen[arg] != getattr(rp, arg):
                        return {"reproduced": True, "detail": f"{ctx}: {arg}={seen[arg]} reached plot.{target}, run_params.{arg}={getattr(rp, arg)}"}
    return {"reproduced": False, "detail": "stabilisation / cluster / singular-value diagrams draw exactly the expected markers and curves on 40 random tables; the classes' plot methods draw one marker per pole of the stored tables (hide_poles on and off, with and without freqlim); on every second table and for all class methods the earlier diagrams were left open"}


# ----------------------------------------------------------------------------------
# C06: per-line SVD faithful; FDD picks the dominant line in the band
# ----------------------------------------------------------------------------------

def c06_fdd(inp):
    from pyoma2.functions import fdd
    rng = np.random.RandomState(6)
    for trial in range(60):
        nr = int(rng.randint(2, 6))
        nc = nr if trial % 3 else int(rng.randint(1, nr + 1))
        nf = int(rng.randint(3, 12))
        G = rng.randn(nr, nc, nf) + 1j * rng.randn(nr, nc, nf)
        if trial % 2 == 0 and nr == nc:          # Hermitian PSD (full spectrum); otherwise a half-spectrum-like general matrix
            G = np.einsum("ikf,jkf->ijf", G, G.conj())
        # the unit of the data is arbitrary: spectra of micro-unit records (entries ~1e-11) and of large-unit records decompose like any other
        amp = (1.0, 1e-11, 1e7)[(trial // 6) % 3]
        try:
            S_val, S_vec = fdd.SD_svalsvec((G * amp).copy())
        except Exception as e:      # noqa: BLE001
            return {"reproduced": True, "detail": f"SD_svalsvec raised {type(e).__name__}: {e}"}
        for f_ in range(nf):
            sv_true = np.sqrt(np.clip(np.sort(np.linalg.eigvalsh(G[:, :, f_] @ G[:, :, f_].conj().T))[::-1][:nc], 0, None))
            got = np.diag(S_val[:, :, f_])
            if amp != 1.0 and not np.allclose(got / amp, sv_true, rtol=1e-6, atol=1e-9):
                got = got / np.sqrt(amp)        # stored as square roots
            elif amp != 1.0:
                got = got / amp
            cand = [got, got ** 2]
            if not any(np.allclose(c_, sv_true, rtol=1e-6, atol=1e-9) for c_ in cand) or np.any(np.diff(got) > 1e-9) or np.any(got < -1e-12):
                return {"reproduced": True, "detail": f"SD_svalsvec: stored values at line {f_} are not the (square roots of the) singular values of the "
                                                      f"{'Hermitian' if trial % 2 == 0 and nr == nc else 'general'} {nr}x{nc} spectral matrix (entries scaled by {amp:g}): {np.round(got, 4).tolist()} vs sqrt-sv {np.round(np.sqrt(sv_true), 4).tolist()}"}
            U = S_vec[:, :, f_].conj().T
            if not np.allclose(U.conj().T @ U, np.eye(nr), atol=1e-8):
                return {"reproduced": True, "detail": "SD_svalsvec: stored vectors are not unitary"}
            u0 = np.linalg.svd(G[:, :, f_])[0][:, 0]
            if abs(abs(np.vdot(u0, U[:, 0])) - 1) > 1e-6:
                return {"reproduced": True, "detail": f"SD_svalsvec: first stored vector at line {f_} is not the dominant singular vector (|<u,v>| = {abs(np.vdot(u0, U[:, 0])):.4f})"}
    for trial in range(300):
        nch, nf = int(rng.randint(2, 6)), int(rng.randint(8, 40))
        delta = float(rng.choice([0.1, 0.5, 1.0]))
        freq = np.arange(nf) * delta
        Sval = np.zeros((nch, nch, nf))
        s1 = rng.rand(nf) + 0.5
        s2 = (rng.rand(nf) * 0.4 + 0.05)
        Sval[0, 0], Sval[1, 1] = s1, s2
        Svec = rng.randn(nch, nch, nf) + 1j * rng.randn(nch, nch, nf)
        sel = [float(rng.uniform(freq[0], freq[-1])) for _ in range(3)]
        DF = float(delta * rng.uniform(1.0, 3.5))
        try:
            Fn, Phi = fdd.FDD_mpe(Sval.copy(), Svec.copy(), freq.copy(), list(sel), DF)
        except Exception as e:      # noqa: BLE001
            return {"reproduced": True, "detail": f"FDD_mpe raised {type(e).__name__}: {e} (sel={sel}, DF={DF})"}
        for j, f0 in enumerate(sel):
            band = np.where((freq >= f0 - DF) & (freq <= f0 + DF))[0]
            ratio = s1[band] / s2[band]
            best = band[int(np.argmax(ratio))]
            if np.sum(np.isclose(ratio, ratio.max(), rtol=1e-12)) > 1:
                continue
            if abs(Fn[j] - freq[best]) > 1e-12:
                return {"reproduced": True, "detail": f"FDD_mpe: for f={f0:.4f}, DF={DF:.4f} on a grid of spacing {delta} the picked line is {Fn[j]:.4f} "
                                                      f"({'outside' if not (f0 - DF <= Fn[j] <= f0 + DF) else 'inside'} the band); the dominant line of the band is {freq[best]:.4f}"}
            v = Svec[0, :, best]
            want = v / v[np.argmax(np.abs(v))]
            if not np.allclose(Phi[:, j], want, atol=1e-12):
                return {"reproduced": True, "detail": "FDD_mpe: shape is not the stored first singular vector at the picked line, unity-normalised"}
    # EFDD / FSDD first stage: what EFDD_mpe hands to FDD_mpe (spy on the real call)
    seen = {}
    real = fdd.FDD_mpe

    def spy(*a, **k):
        seen["args"], seen["kw"] = a, k
        raise RuntimeError("stop after the first stage")
    y, fs = rng_data(6, n=2000, nch=3)
    freq, Sy = fdd.SD_est(y.T, y.T, 1 / fs, 256, method="per")
    fdd.FDD_mpe = spy
    try:
        for DF1 in (0.1, 0.55, 1.7):
            seen.clear()
            try:
                fdd.EFDD_mpe(Sy, freq, 1 / fs, [3.1, 7.7], "per", method="FSDD", DF1=DF1, DF2=1.0)
            except RuntimeError:
                pass
            got = seen.get("kw", {}).get("DF", seen["args"][4] if len(seen.get("args", ())) > 4 else 0.1) if seen else None
            if got is None or abs(float(got) - DF1) > 1e-12:
                return {"reproduced": True, "detail": f"EFDD_mpe(DF1={DF1}) runs its first stage (FDD_mpe) with the band DF={got}"}
    finally:
        fdd.FDD_mpe = real
    return {"reproduced": False, "detail": "SD_svalsvec is a faithful per-line decomposition on 60 matrices; FDD_mpe picks the dominant in-band line on 300 random spectra; EFDD_mpe forwards DF1"}


# ----------------------------------------------------------------------------------
# C11: modal parameter extraction at an explicit order / automatic order
# ----------------------------------------------------------------------------------

def _c11_tables(rng, with_missing=True):
    """crafted pole tables: physical modes near the requested frequencies (jittered, sometimes missing at an order),
    spurious poles elsewhere, NaN padding; every cell carries distinct Xi/Phi/cov tags so a mixture is visible"""
    nreq = int(rng.randint(1, 5))
    freq_ref = np.sort(rng.uniform(1.0, 40.0, nreq))
    while nreq > 1 and np.min(np.diff(freq_ref) / freq_ref[1:]) < 0.35:
        freq_ref = np.sort(rng.uniform(1.0, 40.0, nreq))
    rtol = float(rng.choice([0.01, 0.05, 0.1]))
    n1 = int(rng.randint(3, 9))
    n0 = int(rng.randint(nreq + 1, nreq + 6))
    L = int(rng.randint(2, 5))
    Fn = np.full((n0, n1), np.nan)
    Lab = np.zeros((n0, n1), dtype=int)
    for o in range(n1):
        rows = list(rng.permutation(n0))
        for j, f in enumerate(freq_ref):
            if with_missing and rng.rand() < 0.3:
                continue
            # inside the band most of the time, sometimes just outside
            dev = rng.uniform(-0.9, 0.9) * rtol * f if rng.rand() < 0.8 else rng.choice([-1, 1]) * rng.uniform(1.3, 3.0) * rtol * f
            r = rows.pop()
            Fn[r, o] = f + dev
            Lab[r, o] = 1 if rng.rand() < 0.8 else 0
        for _ in range(int(rng.randint(0, len(rows) + 1))):
            r = rows.pop()
            Fn[r, o] = rng.uniform(0.5, 45.0)       # spurious
            Lab[r, o] = 1 if rng.rand() < 0.3 else 0
        if np.all(np.isnan(Fn[:, o])):
            Fn[0, o] = rng.uniform(0.5, 45.0)
    tag = np.arange(n0 * n1, dtype=float).reshape(n0, n1)
    Xi = 0.001 * (tag + 1)
    Phi = (tag[:, :, None] * 10 + np.arange(L)[None, None, :]) * (1 + 0.5j)
    Fc, Xc, Pc = 1e-3 * (tag + 1), 1e-5 * (tag + 1), 1e-2 * (tag[:, :, None] * 10 + np.arange(L)[None, None, :] + 1)
    Xi = np.where(np.isnan(Fn), np.nan, Xi)
    return freq_ref, rtol, Fn, Xi, Phi, Lab, (Fc, Xc, Pc)


def _c11_expected(freq_ref, order_of, rtol, Fn, Xi, Phi, covs):
    """the property's reading at explicit orders"""
    out = {"Fn": [], "Xi": [], "Phi": [], "Fc": [], "Xc": [], "Pc": []}
    for j, f in enumerate(freq_ref):
        o = order_of(j)
        r = int(np.nanargmin(np.abs(Fn[:, o] - f)))
        if abs(Fn[r, o] - f) <= 1e-8 + rtol * abs(f):
            out["Fn"].append(Fn[r, o]); out["Xi"].append(Xi[r, o]); out["Phi"].append(Phi[r, o, :])
            if covs is not None:
                out["Fc"].append(covs[0][r, o]); out["Xc"].append(covs[1][r, o]); out["Pc"].append(covs[2][r, o, :])
    return out


def _c11_cmp(what, got, exp, ctx):
    Fn, Xi, Phi = got[0], got[1], got[2]
    eFn, eXi = np.array(exp["Fn"]), np.array(exp["Xi"])
    ePhi = np.array(exp["Phi"]).T if len(exp["Phi"]) else np.array([])
    if np.shape(Fn) != eFn.shape or not np.allclose(Fn, eFn, equal_nan=True):
        return f"{what}: returned frequencies {np.round(np.asarray(Fn, float), 4).tolist()} but the poles closest to and within tolerance of the requests are {np.round(eFn, 4).tolist()} ({ctx})"
    if np.shape(Xi) != eXi.shape or not np.allclose(Xi, eXi, equal_nan=True):
        return f"{what}: damping ratios are not those of the returned poles ({ctx})"
    if np.shape(Phi) != ePhi.shape or not np.allclose(Phi, ePhi, equal_nan=True):
        return f"{what}: mode shapes are not those of the returned poles ({ctx})"
    if len(got) > 4 and got[4] is not None:
        for nm, g, e in (("Fn_cov", got[4], np.array(exp["Fc"])), ("Xi_cov", got[5], np.array(exp["Xc"])),
                         ("Phi_cov", got[6], np.array(exp["Pc"]).T if len(exp["Pc"]) else np.array([]))):
            if np.shape(g) != e.shape or not np.allclose(g, e, equal_nan=True):
                return f"{what}: {nm} is not that of the returned poles ({ctx})"
    return None


def _c11_findmin_expected(freq_ref, rtol, band, Fn, Lab, stable):
    """lowest order at which every requested frequency has exactly one stable pole within its band"""
    for o in range(Fn.shape[1]):
        rows = []
        for f in freq_ref:
            lo, hi = band(f)
            cand = [r for r in range(Fn.shape[0]) if Lab[r, o] == stable and not np.isnan(Fn[r, o]) and lo <= Fn[r, o] <= hi]
            if len(cand) != 1:
                rows = None
                break
            rows.append(cand[0])
        if rows is not None:
            return o, rows
    return None, None


def c11_mpe(inp):
    from pyoma2.functions import plscf, ssi
    which = inp.get("which", "all")
    rng = np.random.RandomState(int(inp.get("seed", 11)))
    ntr = int(inp.get("trials", 400))
    for trial in range(ntr):
        freq_ref, rtol, Fn, Xi, Phi, Lab, covs = _c11_tables(rng)
        n1 = Fn.shape[1]
        o_int = int(rng.randint(0, n1))
        o_list = [int(x) for x in rng.randint(0, n1, len(freq_ref))]
        ctx = f"freq_ref={np.round(freq_ref, 4).tolist()}, rtol={rtol}, trial {trial}"
        if which in ("all", "ssi", "ssi_int"):
            for wc in (False, True):
                kw = dict(Fn_cov=covs[0], Xi_cov=covs[1], Phi_cov=covs[2]) if wc else {}
                try:
                    got = ssi.SSI_mpe(list(freq_ref), Fn, Xi, Phi, o_int, rtol=rtol, **kw)
                except Exception as e:      # noqa: BLE001
                    return {"reproduced": True, "detail": f"SSI_mpe(order={o_int}) raised {type(e).__name__}: {e} ({ctx})"}
                msg = _c11_cmp(f"SSI_mpe(order={o_int}{', cov' if wc else ''})", got, _c11_expected(freq_ref, lambda j: o_int, rtol, Fn, Xi, Phi, covs if wc else None), ctx + f", column={np.round(Fn[:, o_int], 4).tolist()}")
                if msg:
                    return {"reproduced": True, "detail": msg}
                if got[3] != o_int:
                    return {"reproduced": True, "detail": f"SSI_mpe(order={o_int}): order_out={got[3]}"}
        if which in ("all", "ssi", "ssi_list"):
            try:
                got = ssi.SSI_mpe(list(freq_ref), Fn, Xi, Phi, list(o_list), rtol=rtol, Fn_cov=covs[0], Xi_cov=covs[1], Phi_cov=covs[2])
            except Exception as e:      # noqa: BLE001
                return {"reproduced": True, "detail": f"SSI_mpe(order={o_list}) raised {type(e).__name__}: {e} ({ctx})"}
            msg = _c11_cmp(f"SSI_mpe(order={o_list})", got, _c11_expected(freq_ref, lambda j: o_list[j], rtol, Fn, Xi, Phi, covs), ctx)
            if msg:
                return {"reproduced": True, "detail": msg}
            if list(np.asarray(got[3]).tolist()) != o_list:
                return {"reproduced": True, "detail": f"SSI_mpe(order={o_list}): order_out={got[3]}"}
        if which in ("all", "plscf", "plscf_int"):
            try:
                got = plscf.pLSCF_mpe(list(freq_ref), Fn, Xi, Phi, o_int, rtol=rtol)
            except Exception as e:      # noqa: BLE001
                return {"reproduced": True, "detail": f"pLSCF_mpe(order={o_int}) raised {type(e).__name__}: {e} ({ctx})"}
            msg = _c11_cmp(f"pLSCF_mpe(order={o_int})", got, _c11_expected(freq_ref, lambda j: o_int, rtol, Fn, Xi, Phi, None), ctx + f", column={np.round(Fn[:, o_int], 4).tolist()}")
            if msg:
                return {"reproduced": True, "detail": msg}
            if got[3] != o_int:
                return {"reproduced": True, "detail": f"pLSCF_mpe(order={o_int}): order_out={got[3]}"}
        if which in ("all", "plscf", "plscf_list"):
            try:
                got = plscf.pLSCF_mpe(list(freq_ref), Fn, Xi, Phi, list(o_list), rtol=rtol)
            except Exception as e:      # noqa: BLE001
                return {"reproduced": True, "detail": f"pLSCF_mpe(order={o_list}) raised {type(e).__name__}: {e} ({ctx})"}
            msg = _c11_cmp(f"pLSCF_mpe(order={o_list})", got, _c11_expected(freq_ref, lambda j: o_list[j], rtol, Fn, Xi, Phi, None), ctx)
            if msg:
                return {"reproduced": True, "detail": msg}
            if [int(x) for x in np.asarray(got[3]).tolist()] != o_list:
                return {"reproduced": True, "detail": f"pLSCF_mpe(order={o_list}): order_out={got[3]}"}
        if which in ("all", "ssi", "ssi_findmin"):
            # SSI_mpe 'find_min': bands are [f - rtol, f + rtol] in the code; the property states a relative tolerance
            try:
                got = ssi.SSI_mpe(list(freq_ref), Fn, Xi, Phi, "find_min", Lab=Lab, rtol=rtol, Fn_cov=covs[0], Xi_cov=covs[1], Phi_cov=covs[2])
            except Exception as e:      # noqa: BLE001
                return {"reproduced": True, "detail": f"SSI_mpe('find_min') raised {type(e).__name__}: {e} ({ctx})"}
            o, rows = _c11_findmin_expected(freq_ref, rtol, lambda f: (f - rtol * abs(f) - 1e-8, f + rtol * abs(f) + 1e-8), Fn, Lab, 1)
            if o is None:
                if got[3] is not None or np.size(got[0]):
                    return {"reproduced": True, "detail": f"SSI_mpe('find_min'): no order qualifies but order_out={got[3]}, Fn={np.asarray(got[0]).tolist()} ({ctx})"}
            else:
                if got[3] != o:
                    return {"reproduced": True, "detail": f"SSI_mpe('find_min'): reported order {got[3]}, the lowest order with exactly one stable pole within rtol of every request is {o} ({ctx}, Fn_pol columns {got[3]}/{o}: "
                                                          f"{None if got[3] is None else np.round(Fn[:, got[3]], 3).tolist()} / {np.round(Fn[:, o], 3).tolist()}, Lab {Lab[:, o].tolist()})"}
                exp = {"Fn": [Fn[r, o] for r in rows], "Xi": [Xi[r, o] for r in rows], "Phi": [Phi[r, o, :] for r in rows],
                       "Fc": [covs[0][r, o] for r in rows], "Xc": [covs[1][r, o] for r in rows], "Pc": [covs[2][r, o, :] for r in rows]}
                msg = _c11_cmp("SSI_mpe('find_min')", got, exp, ctx)
                if msg:
                    return {"reproduced": True, "detail": msg}
    if which in ("all", "ssi", "ssi_findmin"):
        # "exactly one stable pole within tolerance": two stable poles of one order with the bit-identical frequency (different damping and
        # shape) are two poles - such an order does not qualify, the next one with a single pole does
        for n_dup in (2, 3):
            Fn = np.full((4, 4), np.nan); Xi = np.full((4, 4), np.nan); Phi = np.full((4, 4, 2), np.nan, dtype=complex); Lab = np.zeros((4, 4), int)
            for r in range(n_dup):
                Fn[r, 1], Xi[r, 1], Phi[r, 1], Lab[r, 1] = 5.0, 0.01 * (r + 1), [1.0, 0.5 - r], 1
            Fn[3, 1], Xi[3, 1], Phi[3, 1], Lab[3, 1] = 9.0, 0.02, [1.0, 0.3], 1
            Fn[0, 2], Xi[0, 2], Phi[0, 2], Lab[0, 2] = 5.0, 0.02, [1.0, 0.4], 1
            Fn[1, 2], Xi[1, 2], Phi[1, 2], Lab[1, 2] = 9.0, 0.03, [1.0, 0.2], 1
            for freq_ref in ([5.0], [5.0, 9.0]):
                got = ssi.SSI_mpe(list(freq_ref), Fn, Xi, Phi, "find_min", Lab=Lab, rtol=0.01)
                if got[3] != 2:
                    return {"reproduced": True, "failures": [{"claim": "find_min: two stable poles with the same frequency are two poles", "detail": f"order_out={got[3]}"}],
                            "detail": f"SSI_mpe('find_min'): reported order {got[3]} although order 1 holds {n_dup} stable poles at exactly 5.0 Hz inside the band of the "
                                      f"request 5.0 Hz (rtol 0.01); the lowest order with exactly one stable pole per request is 2 (freq_ref={freq_ref})"}
    return {"reproduced": False, "detail": f"extraction agrees with the property on {ntr} crafted tables ({which})"}



def c11_plscf_findmin(inp):
    """pLSCF_mpe(order='find_min'): named claims, each checked on its own crafted tables (bounded stand-in)"""
    from pyoma2.functions import plscf
    rng = np.random.RandomState(int(inp.get("seed", 12)))
    ntr = int(inp.get("trials", 300))
    fails = {}

    def run(freq_ref, Fn, Xi, Phi, Lab, rtol):
        deltaf = float(rtol * np.max(freq_ref) * 1.5)       # wide absolute band: the relative tolerance is the binding one
        return plscf.pLSCF_mpe(list(freq_ref), Fn, Xi, Phi, "find_min", Lab=Lab, deltaf=deltaf, rtol=rtol)

    def note(claim, detail):
        fails.setdefault(claim, detail)
    for trial in range(ntr):
        freq_ref, rtol, Fn, Xi, Phi, Lab, covs = _c11_tables(rng)
        ctx = f"freq_ref={np.round(freq_ref, 4).tolist()}, rtol={rtol}, trial {trial}"
        band = lambda f: (f - rtol * abs(f) - 1e-8, f + rtol * abs(f) + 1e-8)      # noqa: E731
        o, rows = _c11_findmin_expected(freq_ref, rtol, band, Fn, Lab, 1)
        n1 = Fn.shape[1]
        try:
            got1 = run(freq_ref, Fn, Xi, Phi, Lab, rtol)                      # labels as gen.SC_apply writes them (1 = stable)
            got = run(freq_ref, Fn, Xi, Phi, np.where(Lab == 1, 7, 0), rtol)  # the same poles relabelled 7
        except Exception as e:      # noqa: BLE001
            note("find_min does not raise", f"pLSCF_mpe('find_min') raised {type(e).__name__}: {e} ({ctx})")
            continue
        same = got1[3] == got[3] and all(np.shape(a) == np.shape(b) and np.allclose(a, b, equal_nan=True) for a, b in zip(got1[:3], got[:3]))
        if not same and o is not None:
            note("stable poles are those labelled 1 by SC_apply", f"with the labels of gen.SC_apply (1 = stable) order_out={got1[3]}, Fn={np.round(np.asarray(got1[0], float), 3).tolist()}; "
                 f"with the same poles relabelled 7 order_out={got[3]}, Fn={np.round(np.asarray(got[0], float), 3).tolist()} ({ctx})")
        # the remaining claims are checked in the routine's own label convention (7 = stable)
        if o is None:
            if got[3] is not None or np.size(got[0]):
                note("no order qualifies -> nothing returned", f"no order qualifies but order_out={got[3]}, Fn={np.round(np.asarray(got[0], float), 3).tolist()} ({ctx})")
            continue
        claim = "qualifying order is the last one" if o == n1 - 1 else "lowest qualifying order"
        if got[3] != o:
            note(claim, f"reported order {got[3]}, the lowest order with exactly one stable pole within rtol of every request is {o} of {n1} ({ctx})")
            continue
        exp = {"Fn": [Fn[r, o] for r in rows], "Xi": [Xi[r, o] for r in rows], "Phi": [Phi[r, o, :] for r in rows]}
        msg = _c11_cmp("pLSCF_mpe('find_min')", got, exp, ctx)
        if msg:
            note("parameters of the reported order", msg)
    fl = [{"claim": k, "detail": v} for k, v in sorted(fails.items())]
    return {"reproduced": bool(fl), "failures": fl,
            "detail": "; ".join(f"{x['claim']}: {x['detail']}" for x in fl)[:1500] if fl else f"pLSCF find_min agrees with the property on {ntr} crafted tables"}


# ----------------------------------------------------------------------------------
# C15: gating / isolation / determinism / persistence through a real SingleSetup; PoSER validation
# ----------------------------------------------------------------------------------

def _c15_algs():
    from pyoma2.algorithms import FDD, SSIcov, pLSCF
    return {"FDD": lambda nm: FDD(name=nm, nxseg=256, method_SD="per"),
            "SSIcov": lambda nm: SSIcov(name=nm, br=6, ordmax=10, calc_unc=False),
            "pLSCF": lambda nm: pLSCF(name=nm, ordmax=6, nxseg=256)}


def _c15_snapshot(alg):
    import copy
    rp = alg.run_params.model_dump() if alg.run_params is not None else None
    return {"rp": copy.deepcopy(rp), "result_id": id(alg.result), "result": None if alg.result is None else copy.deepcopy(alg.result.model_dump())}


def _c15_equal(a, b):
    if isinstance(a, dict) and isinstance(b, dict):
        return a.keys() == b.keys() and all(_c15_equal(a[k], b[k]) for k in a)
    if isinstance(a, (list, tuple)) and isinstance(b, (list, tuple)):
        return len(a) == len(b) and all(_c15_equal(x, y) for x, y in zip(a, b))
    if isinstance(a, np.ndarray) or isinstance(b, np.ndarray):
        try:
            return np.shape(a) == np.shape(b) and bool(np.array_equal(np.asarray(a), np.asarray(b), equal_nan=True))
        except Exception:
            return False
    try:
        return bool(a == b) or (a != a and b != b)
    except Exception:
        return a is b


def c15_gating(inp):
    """random sequences (length <= 5) of add / run_by_name / run_all / mpe over FDD, SSIcov, pLSCF on a real SingleSetup"""
    import os
    import tempfile

    from pyoma2.functions.gen import load_from_file, save_to_file
    from pyoma2.setup import SingleSetup
    rng = np.random.RandomState(int(inp.get("seed", 15)))
    ntr = int(inp.get("trials", 12))
    mk = _c15_algs()
    y, fs = rng_data(3, n=1500, nch=3)
    alone = {}

    def alone_result(kind, ver=0):
        if (kind, ver) not in alone:
            st = SingleSetup(y.copy(), fs)
            for _ in range(ver):
                st.decimate_data(q=2)
            a = mk[kind]("solo")
            st.add_algorithms(a)
            st.run_by_name("solo")
            alone[(kind, ver)] = a.result.model_dump()
        return alone[(kind, ver)]
    mpe_args = {"FDD": dict(sel_freq=[3.1, 7.7], DF=0.5), "SSIcov": dict(sel_freq=[3.1, 7.7], order=8), "pLSCF": dict(sel_freq=[3.1, 7.7], order=4)}
    for trial in range(ntr):
        data = y.copy()
        st = SingleSetup(data, fs)
        ref = data.copy()
        added, ran = {}, set()
        ops = []
        ver, bound = 0, {}
        for step in range(int(rng.randint(2, 6))):
            op = rng.choice(["add", "run", "run_all", "mpe", "run_missing", "mpe_unrun", "decimate"])
            if op == "decimate":
                if ver >= 1:
                    continue
                st.decimate_data(q=2)       # rebinds the setup's data; algorithms added before keep theirs
                ver += 1
                ops.append("decimate(q=2)")
                for n2, (k2, a2) in added.items():
                    if a2.data is not bound[n2][0] or a2.fs != bound[n2][1]:
                        return {"reproduced": True, "detail": f"decimating the setup re-bound the data of {n2} ({ops})"}
                continue
            kinds = list(mk)
            if op == "add" or not added:
                kind = kinds[int(rng.randint(len(kinds)))]
                nm = f"{kind}{len(added)}"
                a = mk[kind](nm)
                st.add_algorithms(a)
                added[nm] = (kind, a)
                bound[nm] = (st.data, st.fs, ver)
                ops.append(f"add {nm}")
                if a.data is not st.data or a.fs != st.fs:
                    return {"reproduced": True, "detail": f"add_algorithms did not bind the setup's data/fs ({ops})"}
                for n2, (k2, a2) in added.items():
                    if a2.data is not bound[n2][0] or a2.fs != bound[n2][1]:
                        return {"reproduced": True, "detail": f"adding {nm} re-bound the data / fs of the earlier algorithm {n2}: fs {bound[n2][1]} -> {a2.fs} ({ops})"}
                continue
            nm = list(added)[int(rng.randint(len(added)))]
            kind, a = added[nm]
            before = {n: _c15_snapshot(x[1]) for n, x in added.items()}
            ops.append(f"{op} {nm}")
            try:
                if op == "run":
                    st.run_by_name(nm)
                    ran.add(nm)
                    if not _c15_equal(a.result.model_dump(), alone_result(kind, bound[nm][2])):
                        return {"reproduced": True, "detail": f"result of {nm} differs from the same algorithm run alone on the same data ({ops})"}
                    for n2, (k2, a2) in added.items():
                        if n2 != nm and id(a2.result) != before[n2]["result_id"]:
                            return {"reproduced": True, "detail": f"running {nm} replaced the result of {n2} ({ops})"}
                elif op == "run_all":
                    st.run_all()
                    ran |= set(added)
                    for n2, (k2, a2) in added.items():
                        if not _c15_equal(a2.result.model_dump(), alone_result(k2, bound[n2][2])):
                            return {"reproduced": True, "detail": f"run_all: result of {n2} differs from the same algorithm run alone ({ops})"}
                elif op == "mpe":
                    if nm in ran:
                        kw = dict(mpe_args[kind])
                        if "order" in kw:       # an order column that holds retained poles, and two of its poles as requests
                            Fp = a.result.Fn_poles
                            cols = [j for j in range(Fp.shape[1]) if np.sum(~np.isnan(Fp[:, j])) >= 2]
                            if not cols:
                                continue
                            kw["order"] = int(cols[-1])
                            kw["sel_freq"] = sorted(set(np.round(Fp[~np.isnan(Fp[:, cols[-1]]), cols[-1]], 6).tolist()))[:2]
                        st.mpe(nm, **kw)
                        for n2, (k2, a2) in added.items():
                            if n2 != nm and not _c15_equal(_c15_snapshot(a2)["result"], before[n2]["result"]):
                                return {"reproduced": True, "detail": f"mpe of {nm} changed the result of {n2} ({ops})"}
                    else:
                        try:
                            st.mpe(nm, **mpe_args[kind])
                            return {"reproduced": True, "detail": f"mpe of {nm} before any run did not raise ({ops})"}
                        except Exception:
                            if not _c15_equal(_c15_snapshot(a), before[nm]):
                                return {"reproduced": True, "detail": f"mpe of {nm} before any run raised but stored something ({ops})"}
                elif op == "run_missing":
                    try:
                        st.run_by_name("no such algorithm")
                        return {"reproduced": True, "detail": "run_by_name of an unknown name did not raise"}
                    except KeyError:
                        pass
                elif op == "mpe_unrun":
                    b = mk[kind]("fresh")
                    b._set_data(data=st.data, fs=st.fs)
                    snap = _c15_snapshot(b)
                    try:
                        b.mpe(**mpe_args[kind])
                        return {"reproduced": True, "detail": f"{kind}.mpe without a run did not raise"}
                    except Exception:
                        if not _c15_equal(_c15_snapshot(b), snap):
                            return {"reproduced": True, "detail": f"{kind}.mpe without a run raised but stored something"}
            except Exception as e:      # noqa: BLE001
                return {"reproduced": True, "detail": f"unexpected {type(e).__name__}: {e} ({ops})"}
            if not np.array_equal(data, ref) or (ver == 0 and st.data is not data):
                return {"reproduced": True, "detail": f"the shared data array was modified ({ops})"}
        # persistence
        with tempfile.TemporaryDirectory() as d:
            fn = os.path.join(d, "s.pkl")
            save_to_file(st, fn)
            st2 = load_from_file(fn)
        for n, (k, a) in added.items():
            b = st2.algorithms.get(n)
            if b is None or not _c15_equal(_c15_snapshot(a)["rp"], _c15_snapshot(b)["rp"]) or not _c15_equal(_c15_snapshot(a)["result"], _c15_snapshot(b)["result"]):
                return {"reproduced": True, "detail": f"save/load round trip changed {n} ({ops})"}
    return {"reproduced": False, "detail": f"{ntr} random operation sequences: gates, isolation, determinism and the save/load round trip hold"}


def c15_poser(inp):
    from pyoma2.algorithms import FDD, SSIcov
    from pyoma2.algorithms.data.result import FDDResult, SSIResult
    from pyoma2.setup import MultiSetup_PoSER, SingleSetup
    import itertools
    rng = np.random.RandomState(int(inp.get("seed", 16)))
    y = np.zeros((64, 3))
    from pyoma2.algorithms import EFDD, SSIdat
    from pyoma2.algorithms.data.result import EFDDResult
    # F / E: FDD and its subclass EFDD; D / S: SSIdat and its subclass SSIcov - 'identical types' means the same class, not a subclass
    lists = [(), ("F",), ("S",), ("E",), ("D",), ("F", "S"), ("S", "F"), ("F", "F"), ("E", "S"), ("F", "D")]
    mk = {"F": lambda n_: FDD(name=n_, nxseg=16), "E": lambda n_: EFDD(name=n_, nxseg=16), "S": lambda n_: SSIcov(name=n_, br=2, ordmax=4),
          "D": lambda n_: SSIdat(name=n_, br=2, ordmax=4)}
    rs = {"F": FDDResult, "E": EFDDResult, "S": SSIResult, "D": SSIResult}

    def build(types, states):
        st = SingleSetup(y.copy(), 10.0)
        algs = []
        for i, (t, s_) in enumerate(zip(types, states)):
            a = mk[t](f"a{i}")
            if s_ >= 1:
                a.result = rs[t]()
            if s_ == 2:
                a.result.Fn = np.array([1.0])
            algs.append(a)
        if algs:
            st.add_algorithms(*algs)
        else:
            st.algorithms = {}
        return st
    cases = []
    for n in range(0, 4):
        for combo in itertools.product(lists, repeat=n):
            cases.append(combo)
    rng.shuffle(cases)
    cases = cases[: int(inp.get("cases", 400))] + [(("F", "S"),) * 4, (("F", "S"), ("F", "S"), ("S", "F"), ("F", "S")),
                                                    (("F",), ("E",)), (("E",), ("F",)), (("D",), ("S",)), (("F", "D"), ("E", "S")), (("E", "S"), ("E", "S"), ("F", "S"))]
    n_checked = 0
    for combo in cases:
        for variant in range(3):
            states = [[2] * len(t) for t in combo]
            if variant == 1 and any(len(t) for t in combo):
                s_i = int(rng.randint(len(combo)))
                if combo[s_i]:
                    states[s_i][int(rng.randint(len(combo[s_i])))] = int(rng.randint(0, 2))
            n_names = len(combo[0]) if combo else 0
            if variant == 2:
                n_names += int(rng.choice([-1, 1]))
            n_names = max(n_names, 0)
            # "one name per algorithm" counts names, not distinct names: every third assignment repeats a name (['n0', 'n1', 'n0'], ['n0', 'n0'])
            dup_mod = max(n_names - 1, 1) if rng.rand() < 0.34 else max(n_names, 1)
            setups = [build(t, s_) for t, s_ in zip(combo, states)]
            valid = (len(combo) >= 2 and all(len(t) >= 1 for t in combo) and all(t == combo[0] for t in combo)
                     and n_names == len(combo[0]) and all(x == 2 for s_ in states for x in s_))
            n_checked += 1
            try:
                ms = MultiSetup_PoSER(ref_ind=[[0]] * max(len(combo), 1), single_setups=setups, names=[f"n{i % dup_mod}" for i in range(n_names)])
                if not valid:
                    return {"reproduced": True, "detail": f"PoSER accepted invalid inputs: class lists {combo}, states {states}, {n_names} names"}
                if list(ms.setups) != setups:
                    return {"reproduced": True, "detail": "PoSER did not keep the setups in order"}
            except ValueError:
                if valid:
                    return {"reproduced": True, "detail": f"PoSER rejected valid inputs: class lists {combo}, {n_names} names"}
            except Exception as e:      # noqa: BLE001
                return {"reproduced": True, "detail": f"PoSER raised {type(e).__name__} (not ValueError): {e}; class lists {combo}, states {states}, {n_names} names"}
    return {"reproduced": False, "detail": f"PoSER constructor agrees with the validity predicate on {n_checked} input assignments"}


# ----------------------------------------------------------------------------------
# C19: geometry tables (validation, alignment to the sensor order, zero-based indices, mapping)
# ----------------------------------------------------------------------------------

def _c19_names(rng, multi):
    """-> (names argument as list / list of lists, ref_ind, expected flat order)"""
    if not multi:
        n = int(rng.randint(1, 6))
        names = [f"s{i}" for i in rng.permutation(n)]
        return names, None, list(names)
    nset = int(rng.randint(2, 4))
    k = int(rng.randint(1, 3))
    rows, refs, flat = [], [], [f"REF{i + 1}" for i in range(k)]
    for s_ in range(nset):
        nch = k + int(rng.randint(1, 4))
        ref = [int(x) for x in rng.permutation(nch)[:k]]
        row = [f"u{s_}_{j}" for j in range(nch)]
        rows.append(row)
        refs.append(ref)
        flat += [row[j] for j in range(nch) if j not in ref]
    return rows, refs, flat


def _c19_forms(names, multi):
    import pandas as pd
    if multi:
        return {"list of lists": names, "multi-row table": pd.DataFrame(names)}
    return {"list": list(names), "one-row table": pd.DataFrame([names]), "array": np.array(names)}


def c19_geo(inp):
    import itertools

    import pandas as pd

    from pyoma2.functions import gen
    rng = np.random.RandomState(int(inp.get("seed", 19)) + 1000 * int(inp.get("seed_offset", 0)))
    ntr = int(inp.get("trials", 150))
    fails = {}

    def note(claim, detail):
        fails.setdefault(claim, detail)

    def call(claim, fn, *a, **k):
        try:
            return True, fn(*a, **k)
        except ValueError as e:
            return False, e
        except Exception as e:      # noqa: BLE001
            note(claim, f"{type(e).__name__}: {e}")
            return None, e
    for trial in range(ntr):
        multi = trial % 3 == 2
        names, ref_ind, flat = _c19_names(rng, multi)
        n = len(flat)
        # ---- flatten_sns_names on every documented form -----------------------------------------
        for form, val in _c19_forms(names, multi).items():
            ok, got = call(f"flatten_sns_names accepts a {form}", gen.flatten_sns_names, val, ref_ind)
            if ok and list(got) != flat:
                note(f"flatten_sns_names order ({form})", f"got {list(got)}, expected {flat} (ref_ind={ref_ind})")
            elif ok is False:
                note(f"flatten_sns_names accepts a {form}", f"ValueError: {got}")
        # ---- geometry 1 ---------------------------------------------------------------------------
        perm = rng.permutation(n)
        extra = int(rng.randint(0, 2))
        idx = [flat[i] for i in perm] + [f"spare{j}" for j in range(extra)]
        coord = pd.DataFrame(rng.rand(len(idx), 3).round(3), index=idx, columns=["x", "y", "z"])
        dirs = pd.DataFrame(rng.randint(-1, 2, (len(idx), 3)), index=idx, columns=["x", "y", "z"])
        lines1 = pd.DataFrame(rng.randint(1, n + 1, (int(rng.randint(1, 4)), 2)))
        bgn = pd.DataFrame(rng.rand(4, 3))
        bgl = pd.DataFrame(rng.randint(1, 5, (3, 2)))
        bgs = pd.DataFrame(rng.randint(1, 5, (2, 3)))
        opt = {"sensors lines": lines1, "BG nodes": bgn, "BG lines": bgl, "BG surfaces": bgs}
        present = [k_ for k_ in opt if rng.rand() < 0.5]
        nm_tab = pd.DataFrame(names) if multi else pd.DataFrame([names])

        def fd1():
            d = {"sensors names": nm_tab.copy(), "sensors coordinates": coord.copy(), "sensors directions": dirs.copy()}
            d.update({k_: opt[k_].copy() for k_ in present})
            return d
        ok, r = call("check_on_geo1 accepts a valid table set (any subset of optional sheets)", gen.check_on_geo1, fd1(), ref_ind)
        if ok is False:
            note("check_on_geo1 accepts a valid table set (any subset of optional sheets)", f"ValueError: {r} (sheets {present})")
        if ok:
            sn, sc, sd, sl, bn, bl, bs = r
            if list(sn) != flat or list(sc.index) != flat or not np.array_equal(sc.to_numpy(), coord.loc[flat].to_numpy()) \
                    or not np.array_equal(np.asarray(sd), dirs.loc[flat].to_numpy()):
                note("geo1: coordinates and directions follow the sensor-name order", f"names {flat}, coordinate index {list(sc.index)}")
            for key, got, one_based in (("sensors lines", sl, True), ("BG nodes", bn, False), ("BG lines", bl, True), ("BG surfaces", bs, True)):
                if key not in present:
                    if got is not None:
                        note("geo1: an omitted optional sheet gives None", f"{key}: {got!r}")
                else:
                    want = opt[key].to_numpy() - (1 if one_based else 0)
                    if got is None or not np.array_equal(np.asarray(got), want):
                        note(f"geo1: {key} is {'zero-based' if one_based else 'kept'}", f"got {None if got is None else np.asarray(got).tolist()}, want {want.tolist()}")
        # single faults
        faults1 = {
            "missing required sheet": lambda d: d.pop(rng.choice(["sensors names", "sensors coordinates", "sensors directions"])),
            "unknown sheet": lambda d: d.update({"sensor lines": lines1.copy()}),
            "coordinates with 2 columns": lambda d: d.update({"sensors coordinates": coord.iloc[:, :2].copy(), "sensors directions": dirs.iloc[:, :2].copy()}),
            "directions of another shape": lambda d: d.update({"sensors directions": dirs.iloc[:-1].copy()}) if len(idx) > 1 else d.pop("sensors directions"),
            "directions with another index": lambda d: d.update({"sensors directions": dirs.rename(index={idx[0]: "zz"})}),
            # same labels, another row order: the two indices differ as sequences (a function that pairs the tables row by row must
            # refuse them; one that aligns by label would have to return the directions of the right sensors - checked below)
            "directions rows in another order than the coordinates": lambda d: d.update({"sensors directions": dirs.iloc[np.roll(np.arange(len(idx)), 1)].copy()}) if len(idx) > 1 else d.pop("sensors directions"),
            "BG lines with 3 columns": lambda d: d.update({"BG lines": bgs.copy()}),
            "BG nodes with 2 columns": lambda d: d.update({"BG nodes": bgl.copy().astype(float)}),
            "BG surfaces with 2 columns": lambda d: d.update({"BG surfaces": bgl.copy()}),
            "sensor name absent from the coordinates": lambda d: d.update({"sensors coordinates": coord.rename(index={flat[-1]: "zz"}), "sensors directions": dirs.rename(index={flat[-1]: "zz"})}),
        }
        for fname, mut in faults1.items():
            d = fd1()
            mut(d)
            ok, r = call(f"geo1 fault '{fname}' raises ValueError", gen.check_on_geo1, d, ref_ind)
            if ok:
                note(f"geo1 fault '{fname}' raises ValueError", "accepted")
        # ---- geometry 2 ---------------------------------------------------------------------------
        npts = int(rng.randint(max(1, (n + 2) // 3), n + 2))
        cells = [(p_, c_) for p_ in range(npts) for c_ in range(3)]
        while len(cells) < n:
            npts += 1
            cells = [(p_, c_) for p_ in range(npts) for c_ in range(3)]
        order = rng.permutation(len(cells))
        mp = np.full((npts, 3), 0, dtype=object)
        for sname, ci in zip(flat, order[:n]):
            mp[cells[ci]] = sname
        rest = [cells[ci] for ci in order[n:]]
        use_cstr = bool(rest) and rng.rand() < 0.6
        cstr_tab = None
        if use_cstr:
            mp[rest[0]] = "link"
            cols = [flat[i] for i in rng.permutation(n)[: int(rng.randint(1, n + 1))]]
            cstr_tab = pd.DataFrame([rng.randint(-2, 3, len(cols)).astype(float)], index=["link"], columns=cols)
            if rng.rand() < 0.3:
                cstr_tab.iloc[0, 0] = np.nan
        for cell in rest[1:]:
            if rng.rand() < 0.3:
                mp[cell] = np.nan
        pts = pd.DataFrame(rng.rand(npts, 3).round(3), columns=["x", "y", "z"])
        mapping = pd.DataFrame(mp, columns=["x", "y", "z"])
        sign = pd.DataFrame(rng.choice([-1, 1], (npts, 3)), columns=["x", "y", "z"])
        surf = pd.DataFrame(rng.randint(1, npts + 1, (2, 3)))
        lines2 = pd.DataFrame(rng.randint(1, npts + 1, (2, 2)))
        opt2 = {"sensors sign": sign, "sensors lines": lines2, "sensors surfaces": surf, "BG nodes": bgn, "BG lines": bgl, "BG surfaces": bgs}
        if cstr_tab is not None:
            opt2["constraints"] = cstr_tab
        present2 = [k_ for k_ in opt2 if rng.rand() < 0.5 or k_ == "constraints"]

        def fd2():
            d = {"sensors names": nm_tab.copy(), "points coordinates": pts.copy(), "mapping": mapping.copy()}
            d.update({k_: opt2[k_].copy() for k_ in present2})
            return d
        want_map = None
        ok, r = call("check_on_geo2 accepts a valid table set (any subset of optional sheets)", gen.check_on_geo2, fd2(), ref_ind)
        if ok is False:
            note("check_on_geo2 accepts a valid table set (any subset of optional sheets)", f"ValueError: {r} (sheets {present2})")
        if ok:
            sn, pc, sm, cs, sg, sl, ss_, bn, bl, bs = r
            if list(sn) != flat:
                note("geo2: sensor names in the documented order", f"{list(sn)} vs {flat}")
            if "sensors sign" not in present2 and (sg is None or not np.array_equal(sg.to_numpy(), np.ones((npts, 3)))):
                note("geo2: an omitted sign sheet means +1 everywhere", repr(sg))
            for key, got in (("sensors lines", sl), ("sensors surfaces", ss_), ("BG lines", bl), ("BG surfaces", bs)):
                if key in present2:
                    want = opt2[key].to_numpy() - 1
                    if got is None or not np.array_equal(np.asarray(got), want):
                        note(f"geo2: {key} is zero-based", f"got {None if got is None else np.asarray(got).tolist()}, want {want.tolist()}")
                elif got is not None:
                    note("geo2: an omitted optional sheet gives None", f"{key}: {got!r}")
            # mapping of a mode shape to the points
            phi = rng.randn(n).round(3)
            try:
                want = np.zeros((npts, 3))
                want_map = (phi, want)
                dm = gen.dfphi_map_func(phi, sn, sm, cstrn=cs).to_numpy()
                val = dict(zip(flat, phi))
                for p_ in range(npts):
                    for c_ in range(3):
                        v = mp[p_, c_]
                        if isinstance(v, str) and v in val:
                            want[p_, c_] = val[v]
                        elif v == "link" and cstr_tab is not None:
                            want[p_, c_] = sum((0.0 if np.isnan(cstr_tab.iloc[0][c2]) else cstr_tab.iloc[0][c2]) * val[c2] for c2 in cstr_tab.columns)
                if not np.allclose(dm, want, atol=1e-12):
                    note("mapping places each sensor's component at the cells naming it (constraint: linear combination; else 0)",
                         f"names {flat}, mapping {mp.tolist()}, got {np.round(dm, 3).tolist()}, want {np.round(want, 3).tolist()}")
            except Exception as e:      # noqa: BLE001
                note("dfphi_map_func maps a valid geometry", f"{type(e).__name__}: {e}")
        faults2 = {
            "missing required sheet": lambda d: d.pop(rng.choice(["sensors names", "points coordinates", "mapping"])),
            "unknown sheet": lambda d: d.update({"constraint": pd.DataFrame([[1.0]])}),
            "points with 2 columns": lambda d: d.update({"points coordinates": pts.iloc[:, :2].copy(), "mapping": mapping.iloc[:, :2].copy()}),
            "mapping of another shape": lambda d: d.update({"mapping": pd.concat([mapping, mapping.iloc[:1]], ignore_index=True)}),
            "sign of another shape": lambda d: d.update({"sensors sign": pd.concat([sign, sign.iloc[:1]], ignore_index=True)}),
            "sensor name absent from the mapping": lambda d: d.update({"mapping": mapping.replace({flat[0]: "zz" if not use_cstr else 0})}),
            "constraint naming an unknown sensor": lambda d: d.update({"constraints": pd.DataFrame([[1.0]], index=["link"], columns=["nobody"])}) if use_cstr else d.update({"constraints": pd.DataFrame([[1.0]], index=["link"], columns=["nobody"])}),
            "constraint the mapping never uses": lambda d: d.update({"constraints": pd.DataFrame([[1.0]], index=["unused"], columns=[flat[0]])}),
        }
        for fname, mut in faults2.items():
            d = fd2()
            mut(d)
            ok, r = call(f"geo2 fault '{fname}' raises ValueError", gen.check_on_geo2, d, ref_ind)
            if ok:
                note(f"geo2 fault '{fname}' raises ValueError", "accepted")
        # ---- documented argument forms through the setup classes ------------------------------------
        if trial < 25 and not multi:
            from pyoma2.setup import SingleSetup
            st = SingleSetup(np.zeros((20, n)), 10.0)
            for form, val in _c19_forms(names, False).items():
                try:
                    st.def_geo1(val, coord.copy(), dirs.to_numpy().copy(), sens_lines=lines1.to_numpy().copy() if "sensors lines" in present else None)
                    g = st.geo1
                    if list(g.sens_names) != flat or list(g.sens_coord.index) != flat or not np.array_equal(np.asarray(g.sens_dir), dirs.loc[flat].to_numpy()):
                        note("def_geo1 (documented argument forms): aligned to the sensor order", f"{form}: {list(g.sens_coord.index)} vs {flat}")
                    if "sensors lines" in present and not np.array_equal(np.asarray(g.sens_lines), lines1.to_numpy() - 1):
                        note("def_geo1 (documented argument forms): lines zero-based", f"{form}")
                except Exception as e:      # noqa: BLE001
                    note(f"def_geo1 accepts the documented argument forms (names as {form}, coordinates table, direction/line arrays)", f"{type(e).__name__}: {e}")
                try:
                    st.def_geo2(val, pts.copy(), mapping.copy(), cstr=cstr_tab.copy() if cstr_tab is not None else None,
                                sens_sign=sign.copy() if "sensors sign" in present2 else None,
                                sens_lines=lines2.to_numpy().copy() if "sensors lines" in present2 else None)
                    g = st.geo2
                    if list(g.sens_names) != flat:
                        note("def_geo2 (documented argument forms): names", f"{form}")
                    if "sensors lines" in present2 and not np.array_equal(np.asarray(g.sens_lines), lines2.to_numpy() - 1):
                        note("def_geo2 (documented argument forms): lines zero-based", f"{form}")
                    if want_map is not None:
                        # the geometry the setup HOLDS maps a shape as the checked tables do (constraint columns by sensor name)
                        dm2 = gen.dfphi_map_func(want_map[0], g.sens_names, g.sens_map, cstrn=g.cstrn).to_numpy()
                        if not np.allclose(dm2, want_map[1], atol=1e-12):
                            note("def_geo2 (documented argument forms): the stored geometry maps a shape as the checked tables do",
                                 f"{form}: constraint columns {None if cstr_tab is None else list(cstr_tab.columns)}, names {flat}: got {np.round(dm2, 3).tolist()}, want {np.round(want_map[1], 3).tolist()}")
                except Exception as e:      # noqa: BLE001
                    note(f"def_geo2 accepts the documented argument forms (names as {form}, tables, line arrays)", f"{type(e).__name__}: {e}")
    fl = [{"claim": k, "detail": str(v)[:400]} for k, v in sorted(fails.items())]
    return {"reproduced": bool(fl), "failures": fl,
            "detail": "; ".join(f"{x['claim']}: {x['detail']}" for x in fl)[:1500] if fl else f"geometry tables agree with the property on {ntr} crafted table sets"}


# ----------------------------------------------------------------------------------
# C01 / C03 / C05: exact recovery on noise-free data (bounded stand-ins) and the modal-parameter formulas
# ----------------------------------------------------------------------------------

def _mac1(a, b):
    a, b = np.asarray(a).reshape(-1), np.asarray(b).reshape(-1)
    return abs(np.vdot(a, b)) ** 2 / (np.vdot(a, a).real * np.vdot(b, b).real)


def _free_system(rng, m, nch, fs, complex_shapes=False):
    f = np.sort(rng.uniform(0.04, 0.40, m)) * fs
    while m > 1 and np.min(np.diff(f)) < 0.03 * fs:
        f = np.sort(rng.uniform(0.04, 0.40, m)) * fs
    xi = rng.uniform(0.004, 0.05, m)
    lam = -xi * 2 * np.pi * f + 1j * 2 * np.pi * f * np.sqrt(1 - xi ** 2)
    phi = rng.randn(nch, m) + (1j * 0.4 * rng.randn(nch, m) if complex_shapes else 0)
    return f, xi, lam, phi


def _free_response(rng, lam, phi, n, fs, gain=1.0):
    t = np.arange(n) / fs
    amp = (rng.uniform(0.5, 2.0, len(lam)) * np.exp(1j * rng.uniform(0, 2 * np.pi, len(lam)))) * gain
    y = np.zeros((n, phi.shape[0]))
    for k in range(len(lam)):
        y += 2 * np.real(np.outer(np.exp(lam[k] * t) * amp[k], phi[:, k]))
    return y


def _match_modes(f_true, xi_true, phi_true, Fn, Xi, Phi, tag, ftol=1e-6, xtol=1e-5, mactol=1e-6):
    """every true mode appears exactly once among the poles with positive imaginary part; returns error string or None"""
    Fn, Xi = np.asarray(Fn, float), np.asarray(Xi, float)
    for k, f in enumerate(f_true):
        hits = [j for j in range(len(Fn)) if np.isfinite(Fn[j]) and abs(Fn[j] - f) <= ftol * f]
        if not hits:
            return f"{tag}: no pole at f={f:.6f} Hz (poles {np.round(Fn[np.isfinite(Fn)], 5).tolist()})"
        j = hits[0]
        if abs(Xi[j] - xi_true[k]) > xtol:
            return f"{tag}: damping of the pole at {f:.4f} Hz is {Xi[j]:.6f}, the system's is {xi_true[k]:.6f}"
        mac = _mac1(Phi[j], phi_true[:, k])
        if abs(mac - 1) > mactol:
            return f"{tag}: MAC of the shape at {f:.4f} Hz with the system's shape is {mac:.6f}"
    return None


def c01_exact(inp):
    from pyoma2.algorithms import SSIcov, SSIdat
    from pyoma2.functions import ssi
    from pyoma2.setup import SingleSetup
    rng = np.random.RandomState(int(inp.get("seed", 1)))
    ntr = int(inp.get("trials", 12))
    for trial in range(ntr):
        m = int(rng.randint(1, 5))
        nch = int(rng.randint(max(2, m), 7))
        fs = float(rng.choice([50.0, 100.0, 256.0]))
        f, xi, lam, phi = _free_system(rng, m, nch, fs, complex_shapes=bool(trial % 2))
        n = int(rng.choice([600, 900]))
        y = _free_response(rng, lam, phi, n, fs)
        br = 2 * m + int(rng.randint(2, 6))
        ctx = f"m={m}, Nch={nch}, fs={fs}, br={br}, f={np.round(f, 4).tolist()}, xi={np.round(xi, 4).tolist()}, trial {trial}"
        # ---- realisation step alone on an exact rank-2m Hankel matrix (fast and legacy) ----------------------
        mu = np.exp(np.concatenate([lam, lam.conj()]) / fs)
        V = np.concatenate([phi, phi.conj()], axis=1)
        Obs_t = np.vstack([V * mu ** i for i in range(br + 1)])
        # rectangular on every other trial: fewer reference channels (block columns of width r < Nch) than channels
        r_ref = nch if trial % 2 == 0 else int(rng.randint(1, nch))
        Ctr = np.vstack([(rng.randn(2 * m) + 1j * rng.randn(2 * m))[None, :] * 0 + (mu ** j)[None, :] for j in range((br + 1) * r_ref)]).T
        g = rng.randn(m) + 1j * rng.randn(m)
        Ctr = Ctr * np.concatenate([g, g.conj()])[:, None]
        H = np.real(Obs_t @ Ctr)
        for name, fn_ in (("SSI_fast", lambda: ssi.SSI_fast(H, br, 2 * m + 2, step=1)[1:3]), ("SSI", lambda: ssi.SSI(H, br, 2 * m + 2, step=1))):
            try:
                A, C = fn_()
                r = ssi.ac2mp(A[2 * m], C[2 * m], 1 / fs)
            except Exception as e:      # noqa: BLE001
                return {"reproduced": True, "detail": f"{name} raised {type(e).__name__}: {e} ({ctx})"}
            keep = np.imag(r[3]) > 0
            if int(np.sum(keep)) != m:
                return {"reproduced": True, "detail": f"{name}: order {2 * m} holds {int(np.sum(keep))} conjugate pole pairs instead of {m} ({ctx})"}
            err = _match_modes(f, xi, phi, r[0][keep], r[1][keep], r[2][keep], f"{name} on an exact rank-{2 * m} Hankel matrix", 1e-6, 1e-6, 1e-6)
            if err:
                return {"reproduced": True, "detail": err + f" ({ctx})"}
        # ---- through a single setup, both Hankel methods ----------------------------------------------------------
        refs = None if trial % 3 else sorted(rng.choice(nch, size=max(1, nch - 1), replace=False).tolist())
        if refs is not None and np.linalg.matrix_rank(phi[refs, :]) < min(m, len(refs)):
            refs = None
        for cls, meth in ((SSIcov, "cov_mm"), (SSIdat, "dat")):
            st = SingleSetup(y.copy(), fs)
            alg = cls(name="a", br=br, ordmax=2 * m + 2, method=meth, ref_ind=refs, calc_unc=False,
                      hc=dict(conj=True, xi_max=0.2, mpc_lim=0.0, mpd_lim=10.0, cov_max=1e9))
            st.add_algorithms(alg)
            try:
                st.run_by_name("a")
            except Exception as e:      # noqa: BLE001
                return {"reproduced": True, "detail": f"{cls.__name__}({meth}).run raised {type(e).__name__}: {e} ({ctx})"}
            res = alg.result
            col = 2 * m
            Fn, Xi, Phi, Lam = res.Fn_poles[:, col], res.Xi_poles[:, col], res.Phi_poles[:, col, :], res.Lambds[:, col]
            fin = np.isfinite(Fn)
            tol = 1e-5 if meth == "cov_mm" else 1e-6
            keep = fin & (np.imag(Lam) > 0)
            if int(np.sum(fin)) != 2 * m or int(np.sum(keep)) != m:
                return {"reproduced": True, "detail": f"{cls.__name__}({meth}): order {col} holds {int(np.sum(fin))} poles / {int(np.sum(keep))} with positive imaginary part instead of {2 * m} / {m} ({ctx}, refs={refs})"}
            err = _match_modes(f, xi, phi, Fn[keep], Xi[keep], Phi[keep], f"{cls.__name__}({meth}) at order {col}", tol * 10, tol * 10, tol * 10)
            if err:
                return {"reproduced": True, "detail": err + f" ({ctx}, refs={refs})"}
            # extraction at that order returns those values
            try:
                st.mpe("a", sel_freq=[float(x) for x in f], order=col, rtol=1e-3)
            except Exception as e:      # noqa: BLE001
                return {"reproduced": True, "detail": f"mpe at order {col} raised {type(e).__name__}: {e} ({ctx})"}
            r2 = alg.result
            if np.shape(r2.Fn) != (m,) or not np.allclose(r2.Fn, f, rtol=tol * 10) or not np.allclose(r2.Xi, xi, atol=tol * 10) \
                    or any(abs(_mac1(r2.Phi[:, k], phi[:, k]) - 1) > tol * 10 for k in range(m)):
                return {"reproduced": True, "detail": f"{cls.__name__}({meth}).mpe at order {col}: Fn={np.round(r2.Fn, 5).tolist()}, Xi={np.round(r2.Xi, 5).tolist()} vs the system's ({ctx})"}
    return {"reproduced": False, "detail": f"{ntr} noise-free systems: realisation (fast and legacy), SSIcov(cov_mm) and SSIdat through a single setup recover f, xi and shapes at order 2m"}


def c01_modal(inp):
    """ac2mp / ac2mp_poly against numpy's eig on random state matrices (replay of the formula contracts)"""
    from pyoma2.functions import plscf, ssi
    rng = np.random.RandomState(int(inp.get("seed", 2)))
    for trial in range(int(inp.get("trials", 60))):
        n, nch = int(rng.randint(1, 7)), int(rng.randint(1, 5))
        A = rng.randn(n, n) * 0.6
        Cm = rng.randn(nch, n)
        dt = float(rng.choice([0.01, 0.1, 1.0]))
        w, v = np.linalg.eig(A)
        lam = np.log(w) / dt
        fn, xi, phi, lam_c = ssi.ac2mp(A, Cm, dt)[:4]
        w2 = np.exp(np.asarray(lam_c) * dt)
        order = [int(np.argmin(np.abs(w - x))) for x in w2]
        if sorted(order) != list(range(n)):
            return {"reproduced": True, "detail": "ac2mp: poles are not the eigenvalues of A mapped to continuous time"}
        for j, k in enumerate(order):
            raw = Cm @ v[:, k]
            want = raw / raw[np.argmax(np.abs(raw))]
            if abs(fn[j] - abs(lam[k]) / (2 * np.pi)) > 1e-9 * max(1, abs(lam[k])) or abs(xi[j] + lam[k].real / abs(lam[k])) > 1e-9 \
                    or abs(_mac1(phi[j], want) - 1) > 1e-9 or abs(np.max(np.abs(phi[j])) - 1) > 1e-9:
                return {"reproduced": True, "detail": f"ac2mp: mode {j}: fn={fn[j]:.6f}, xi={xi[j]:.6f}, max|phi|={np.max(np.abs(phi[j])):.6f}; from eig: fn={abs(lam[k]) / (2 * np.pi):.6f}, xi={-lam[k].real / abs(lam[k]):.6f}"}
        for meth in ("per", "cor"):
            nxseg = 128
            fn, xi, phi, lam_c = plscf.ac2mp_poly(A, Cm, dt, meth, nxseg)
            for j in range(n):
                k = int(np.argmin(np.abs(w - np.linalg.eig(A)[0][j])))
                unstable = lam[k].real > 0
                if unstable:
                    if not (np.isnan(fn[j]) and np.isnan(xi[j]) and np.all(np.isnan(phi[j])) and np.isnan(lam_c[j])):
                        return {"reproduced": True, "detail": f"ac2mp_poly({meth}): a root with positive real part ({lam[k]:.4f}) is reported"}
                    continue
                # correlogram estimator: the exponential lag window (time constant tau samples = tau * dt seconds) added 1 / (tau dt) of decay
                lk = lam[k] + (1 / ((-(nxseg - 1) / np.log(0.01)) * dt) if meth == "cor" else 0)
                raw = Cm @ v[:, k]
                want = raw / raw[np.argmax(np.abs(raw))]
                if abs(fn[j] - abs(lk) / (2 * np.pi)) > 1e-9 * max(1, abs(lk)) or abs(xi[j] + lk.real / abs(lk)) > 1e-9 or abs(_mac1(phi[j], want) - 1) > 1e-9 \
                        or abs(np.max(np.abs(phi[j])) - 1) > 1e-9:
                    return {"reproduced": True, "detail": f"ac2mp_poly({meth}): root {j}: fn={fn[j]:.6f}, xi={xi[j]:.6f}, max|phi|={np.max(np.abs(phi[j])):.6f}; expected fn={abs(lk) / (2 * np.pi):.6f}, xi={-lk.real / abs(lk):.6f}"}
    return {"reproduced": False, "detail": "ac2mp and ac2mp_poly agree with numpy's eigen-decomposition and the property's formulas on random state matrices"}



def c05_exact(inp):
    """pLSCF on an exactly rational spectrum H(f) = B(x_f) A(x_f)^-1, x_f = exp(sgn i w_f dt): coefficients and poles"""
    from pyoma2.functions import plscf
    rng = np.random.RandomState(int(inp.get("seed", 5)))
    ntr = int(inp.get("trials", 25))
    for trial in range(ntr):
        n = int(rng.randint(1, 5))
        nch = int(rng.randint(2, 5))
        nref = int(rng.randint(1, nch + 1))
        sgn = -1 if trial % 2 == 0 else 1
        dt = float(rng.choice([0.01, 0.05, 0.2]))
        nf = int(4 * (n + 1) + rng.randint(0, 30))
        A = [rng.randn(nch, nch) * 0.5 for _ in range(n + 1)]
        B = [rng.randn(nref, nch) for _ in range(n + 1)]
        if sgn == -1:
            A[0] = np.eye(nch)
        else:
            A[n] = np.eye(nch)
        A[n if sgn == -1 else 0] = A[n if sgn == -1 else 0] + 2.0 * np.eye(nch) * (1 if rng.rand() < 0.5 else -1)   # well conditioned leading/trailing block
        fs = 1 / dt
        freq = np.linspace(0.0, fs / 2, nf)
        x = np.exp(sgn * 1j * 2 * np.pi * freq * dt)
        Sy = np.zeros((nref, nch, nf), dtype=complex)
        ok = True
        for k in range(nf):
            Ax = sum(A[r] * x[k] ** r for r in range(n + 1))
            Bx = sum(B[r] * x[k] ** r for r in range(n + 1))
            if np.linalg.cond(Ax) > 1e6:
                ok = False
                break
            Sy[:, :, k] = Bx @ np.linalg.inv(Ax)
        if not ok:
            continue
        ordmax = n + int(rng.randint(0, 2))
        ctx = f"order {n}, Nch={nch}, Nref={nref}, Nf={nf}, dt={dt}, sgn_basf={sgn}, ordmax={ordmax}, trial {trial}"
        try:
            Ad, Bn = plscf.pLSCF(Sy, dt, ordmax, sgn_basf=sgn)
        except np.linalg.LinAlgError:
            if ordmax > n:
                continue        # exact order-n data fitted at order n+1: exactly rank-deficient normal equations (not a well-conditioned case)
            return {"reproduced": True, "detail": f"pLSCF raised LinAlgError at the data's own order ({ctx})"}
        except Exception as e:      # noqa: BLE001
            return {"reproduced": True, "detail": f"pLSCF raised {type(e).__name__}: {e} ({ctx})"}
        Ae, Be = np.asarray(Ad[n - 1]), np.asarray(Bn[n - 1])
        if Ae.shape != (n + 1, nch, nch) or Be.shape != (n + 1, nref, nch):
            return {"reproduced": True, "detail": f"pLSCF: order-{n} model has shapes {Ae.shape}, {Be.shape} ({ctx})"}
        sc = max(1.0, max(np.abs(a).max() for a in A))
        # (a broken estimator misses by 1e-1 and more; 1e-4 leaves room for the conditioning of the normal equations)
        if max(np.abs(Ae[r] - A[r]).max() for r in range(n + 1)) > 1e-4 * sc or max(np.abs(Be[r] - B[r]).max() for r in range(n + 1)) > 1e-4 * sc * 10:
            return {"reproduced": True, "detail": f"pLSCF: the order-{n} model does not reproduce the denominator/numerator coefficients of the exact right matrix fraction "
                                                  f"(max |dA| = {max(np.abs(Ae[r] - A[r]).max() for r in range(n + 1)):.2e}, max |dB| = {max(np.abs(Be[r] - B[r]).max() for r in range(n + 1)):.2e}; {ctx})"}
        # poles: roots of det A(x) = 0 mapped to continuous time
        comp = np.zeros((n * nch, n * nch))
        comp[nch:, :-nch] = np.eye((n - 1) * nch)
        Ainv = np.linalg.inv(A[n])
        for i in range(n):
            comp[:nch, i * nch:(i + 1) * nch] = -Ainv @ A[n - 1 - i]
        roots = np.linalg.eigvals(comp)
        lam = np.log(roots) / dt
        keep = lam[np.real(lam) <= 0]
        try:
            # orders up to the data's own order: a model of higher order fitted to exact order-n data is rank deficient
            # (its leading coefficient block may be singular) - outside "well-conditioned"
            Ad0, Bn0 = [np.array(x, copy=True) for x in Ad[:n]], [np.array(x, copy=True) for x in Bn[:n]]
            Fn, Xi, Phi, Lam = plscf.pLSCF_poles(Ad[:n], Bn[:n], dt, "per", 2 * (nf - 1))
        except Exception as e:      # noqa: BLE001
            return {"reproduced": True, "detail": f"pLSCF_poles raised {type(e).__name__}: {e} ({ctx})"}
        # the model the caller holds (pLSCF.run stores it in the result after computing the poles) is still the fitted model
        for o, (a0, a1, b0, b1) in enumerate(zip(Ad0, Ad[:n], Bn0, Bn[:n])):
            if not (np.array_equal(a0, np.asarray(a1)) and np.array_equal(b0, np.asarray(b1))):
                return {"reproduced": True, "detail": f"pLSCF_poles changed the order-{o + 1} model it was given (max |dA| = {np.abs(a0 - np.asarray(a1)).max():.2e}, "
                                                      f"max |dB| = {np.abs(b0 - np.asarray(b1)).max():.2e}): the returned model no longer reproduces the coefficients ({ctx})"}
        col = n - 1
        got = Lam[:, col]
        fin = ~np.isnan(got)
        if Fn.shape != Xi.shape or Fn.shape != Lam.shape or Fn.shape[1] != n or Phi.shape != Fn.shape + (nref,) \
                or not (np.array_equal(np.isnan(Fn[:, col]), ~fin) and np.array_equal(np.isnan(Xi[:, col]), ~fin)
                        and np.array_equal(np.all(np.isnan(Phi[:, col, :]), axis=1), ~fin)):
            return {"reproduced": True, "detail": f"pLSCF_poles: table shapes {Fn.shape}/{Xi.shape}/{Phi.shape}/{Lam.shape} or the NaN patterns of the tables differ at order {n} ({ctx})"}
        if int(np.sum(fin)) != len(keep):
            return {"reproduced": True, "detail": f"pLSCF_poles: order {n} reports {int(np.sum(fin))} poles, det A(x) has {len(keep)} of {n * nch} roots with non-positive real part ({ctx})"}
        for lk in keep:
            j = int(np.argmin(np.where(fin, np.abs(got - lk), np.inf)))
            if abs(got[j] - lk) > 1e-4 * max(1, abs(lk)):
                return {"reproduced": True, "detail": f"pLSCF_poles: root {lk:.5f} of det A is not reported at order {n} (nearest {got[j]:.5f}) ({ctx})"}
            if abs(Fn[j, col] - abs(lk) / (2 * np.pi)) > 1e-4 * max(1, abs(lk)) or abs(Xi[j, col] + lk.real / abs(lk)) > 1e-4:
                return {"reproduced": True, "detail": f"pLSCF_poles: pole {lk:.5f}: fn={Fn[j, col]:.6f}, xi={Xi[j, col]:.6f}, expected {abs(lk) / (2 * np.pi):.6f}, {-lk.real / abs(lk):.6f} ({ctx})"}
    return {"reproduced": False, "detail": f"pLSCF recovers the coefficients and reports the roots of det A on {ntr} exact right matrix fractions"}



def c03_exact(inp):
    """multi-setup (PreGER) SSI on noise-free free-vibration data of one global system seen by several setups"""
    from pyoma2.algorithms import SSIcov_MS, SSIdat_MS
    from pyoma2.setup import MultiSetup_PreGER
    rng = np.random.RandomState(int(inp.get("seed", 3)))
    ntr = int(inp.get("trials", 8))
    for trial in range(ntr):
        m = int(rng.randint(1, 4))
        nset = int(rng.randint(2, 4))
        nref = int(rng.randint(max(1, min(m, 2)), 4))
        nmov = [int(rng.randint(1, 4)) for _ in range(nset)]
        fs = float(rng.choice([50.0, 100.0]))
        ndof = nref + sum(nmov)
        f, xi, lam, phi = _free_system(rng, m, ndof, fs, complex_shapes=False)
        if np.linalg.matrix_rank(phi[:nref, :]) < min(m, nref) or (nref < m):
            continue
        n = 800
        br = 2 * m + int(rng.randint(2, 5))
        datasets, ref_ind, g_rows = [], [], []
        start = nref
        for s_ in range(nset):
            rows_glob = list(range(nref)) + list(range(start, start + nmov[s_]))
            start += nmov[s_]
            gain = 10.0 ** rng.uniform(-2, 2)
            # records of different lengths (two trials out of three): nothing in the merge may depend on which setup is the longest
            n_s = n if trial % 3 == 0 else int(rng.randint(600, 1200))
            y = _free_response(rng, lam, phi[rows_glob, :], n_s, fs, gain=gain)
            nch = len(rows_glob)
            # references at arbitrary positions of the channel list, listed in arbitrary order
            pos = rng.permutation(nch)[:nref]
            order = [None] * nch
            rov_pos = [p_ for p_ in range(nch) if p_ not in pos]
            for k, p_ in enumerate(pos):
                order[p_] = k
            for k, p_ in enumerate(rov_pos):
                order[p_] = nref + k
            datasets.append(y[:, order])
            ref_ind.append([int(p_) for p_ in pos])
        ctx = f"m={m}, setups={nset}, refs={nref}, roving={nmov}, ref_ind={ref_ind}, br={br}, f={np.round(f, 3).tolist()}, trial {trial}"
        # every other trial: ONE multi-setup object carries all the runs (a run must leave the datasets it was given as they were), in either order
        shared = MultiSetup_PreGER(fs=fs, ref_ind=ref_ind, datasets=[d.copy() for d in datasets]) if trial % 2 else None
        seq = ((SSIcov_MS, "cov_mm"), (SSIdat_MS, "dat"), (SSIcov_MS, "cov_mm")) if trial % 4 != 1 else ((SSIdat_MS, "dat"), (SSIcov_MS, "cov_mm"), (SSIdat_MS, "dat"))
        for k_run, (cls, meth) in enumerate(seq):
            try:
                ms = shared if shared is not None else MultiSetup_PreGER(fs=fs, ref_ind=ref_ind, datasets=[d.copy() for d in datasets])
                alg = cls(name=f"a{k_run}", br=br, ordmax=2 * m + 2, method=meth, hc=dict(conj=True, xi_max=0.2, mpc_lim=0.0, mpd_lim=10.0, cov_max=1e9))
                ms.add_algorithms(alg)
                ms.run_by_name(f"a{k_run}")
            except Exception as e:      # noqa: BLE001
                return {"reproduced": True, "detail": f"{cls.__name__}({meth}) raised {type(e).__name__}: {e} ({ctx})"}
            if shared is not None:
                ctx = ctx.split(" [run ")[0] + f" [run {k_run + 1} on one multi-setup object: {[c_.__name__ for c_, _ in seq[:k_run + 1]]}]"
            res = alg.result
            col = 2 * m
            Fn, Xi, Phi, Lam = res.Fn_poles[:, col], res.Xi_poles[:, col], res.Phi_poles[:, col, :], res.Lambds[:, col]
            fin = np.isfinite(Fn)
            keep = fin & (np.imag(Lam) > 0)
            if Phi.shape[1] != ndof:
                return {"reproduced": True, "detail": f"{cls.__name__}({meth}): shapes have {Phi.shape[1]} components, the global system has {ndof} sensors ({ctx})"}
            if int(np.sum(keep)) != m:
                return {"reproduced": True, "detail": f"{cls.__name__}({meth}): order {col} holds {int(np.sum(keep))} conjugate pairs instead of {m} ({ctx})"}
            tol = 1e-4
            err = _match_modes(f, xi, phi, Fn[keep], Xi[keep], Phi[keep], f"{cls.__name__}({meth}) at order {col}", tol, tol, tol)
            if err:
                return {"reproduced": True, "detail": err + f" ({ctx})"}
    return {"reproduced": False, "detail": f"{ntr} noise-free multi-setup systems: SSIcov_MS(cov_mm) and SSIdat_MS recover the global f, xi and shapes (references first, then roving per setup) at order 2m, independent of per-setup gains and record lengths"}



# ----------------------------------------------------------------------------------
# C17: covariance factor of build_hank and first-order propagation of the frequency variance
# ----------------------------------------------------------------------------------

def c17_factor(inp):
    from pyoma2.functions import ssi
    claim = inp.get("claim", "form")
    rng = np.random.RandomState(int(inp.get("seed", 17)))
    for trial in range(int(inp.get("trials", 12))):
        l, br, nb = int(rng.randint(1, 4)), int(rng.randint(2, 5)), int(rng.randint(2, 12))
        r = int(rng.randint(1, l + 1))
        Nd = 2 * br + 1 + int(rng.randint(2 * nb + 3, 40 * nb))
        Y = rng.randn(l, Nd)
        Yref = Y[rng.permutation(l)[:r]]
        H, T = ssi.build_hank(Y, Yref, br, "cov_mm", calc_unc=True, nb=nb)
        p, q = br, br + 1
        N = Nd - p - q
        Nb = N // nb
        Yf = np.vstack([Y[:, q + 1 + i:N + q + i] for i in range(p + 1)])
        Yp = np.vstack([Yref[:, q + i:N + q - 1 + i] for i in range(0, -q, -1)])
        Hk = [Yf[:, k * Nb:(k + 1) * Nb] @ Yp[:, k * Nb:(k + 1) * Nb].T / Nb for k in range(nb)]      # block estimates on the scale of H

        def build(colmajor, on_scale):
            vec = (lambda M: M.reshape(-1, order="F")) if colmajor else (lambda M: M.reshape(-1))
            return np.stack([(vec(hk if on_scale else hk / N) - vec(H)) / np.sqrt(nb * (nb - 1)) for hk in Hk], axis=1)
        ctx = f"l={l}, r={r}, br={br}, nb={nb}, Ndat={Nd}, trial {trial}"
        want = build(True, True)          # the property's form: column-stacked deviations of block estimates on the scale of H
        if T.shape != want.shape:
            return {"reproduced": True, "detail": f"build_hank's factor has shape {T.shape}, expected {want.shape} ({ctx})"}
        if claim == "scale" and not np.allclose(T, want, rtol=1e-9, atol=1e-12) and np.allclose(T, build(True, False), rtol=1e-9, atol=1e-12):
            return {"reproduced": True, "detail": f"block estimates are H_k / N instead of H_k (N = {N}): the factor's Gram matrix is not the sample covariance of the mean "
                                                  f"(max |T| = {np.abs(T).max():.3e}, expected {np.abs(want).max():.3e}; {ctx})"}
        if claim == "vec" and not np.allclose(T, want, rtol=1e-9, atol=1e-12) and np.allclose(T, build(False, True), rtol=1e-9, atol=1e-12):
            return {"reproduced": True, "detail": f"deviations are stacked row by row (C order), not column by column ({ctx})"}
        if not np.allclose(T, want, rtol=1e-9, atol=1e-12):
            return {"reproduced": True, "detail": f"build_hank's factor is not the column-stacked vec(H_k - H)/sqrt(nb(nb-1)) with H_k on the scale of H "
                                                  f"(max |T - expected| = {np.abs(T - want).max():.3e}; {ctx})"}
    return {"reproduced": False, "detail": "factor = column-stacked vec(H_k - H)/sqrt(nb(nb-1)), block estimates on the scale of H"}


def c17_fd(inp):
    """reported frequency variance at EVERY model order vs the sum over the factor's columns of squared central finite differences of
    the identification itself (column-stacked factor; guards as in the property: two step sizes agree, simple singular values and
    eigenvalues)"""
    from pyoma2.functions import ssi
    rng = np.random.RandomState(int(inp.get("seed", 18)))
    worst = None
    n_cases = n_cmp = 0
    for trial in range(int(inp.get("trials", 6))):
        try:
            l = int(rng.randint(1, 4)); r = int(rng.randint(1, l + 1)); br = int(rng.randint(2, 6)); m = int(rng.randint(1, 3))
            fs = 20.0; dt = 1 / fs
            f = np.sort(rng.uniform(1.0, 8.0, m))
            if m > 1 and np.min(np.diff(f)) < 1.0:
                continue
            xi = rng.uniform(0.01, 0.05, m)
            lam = -xi * 2 * np.pi * f + 1j * 2 * np.pi * f * np.sqrt(1 - xi ** 2)
            mu = np.exp(np.concatenate([lam, lam.conj()]) * dt)
            phi = rng.randn(l, m)
            V = np.concatenate([phi, phi], axis=1).astype(complex)
            g = rng.randn(m) + 1j * rng.randn(m)
            G = np.concatenate([g, g.conj()])
            # every second case also has REAL poles (an over-damped and an aliased one): eig lists them next to each other, with
            # imaginary parts +0.0 / -0.0 - each has its own variance like any other pole
            nreal = 2 if trial % 2 == 1 else 0
            if nreal:
                mu = np.concatenate([mu, [rng.uniform(0.5, 0.9), -rng.uniform(0.3, 0.8)]])
                V = np.concatenate([V, rng.randn(l, nreal)], axis=1)
                G = np.concatenate([G, rng.randn(nreal) + 0j])
            Obs_t = np.vstack([V * mu ** i for i in range(br + 1)])
            Ctr = np.vstack([(mu ** j) * G for j in range((br + 1) * r)]).T
            shape = ((br + 1) * l, (br + 1) * r)
            H0 = np.real(Obs_t @ Ctr) + 1e-2 * np.abs(np.real(Obs_t @ Ctr)).max() * rng.randn(*shape)
            ordmax = min(2 * m + nreal + int(rng.randint(0, 3)), min(shape) - 1, 8)
            if ordmax < 2:
                continue
            sv = np.linalg.svd(H0, compute_uv=False)[:ordmax + 1]
            if np.min(np.abs(np.diff(sv)) / sv[:-1]) < 1e-3:
                continue
            ncol = int(rng.randint(1, 4))
            Ds = [rng.randn(*shape) for _ in range(ncol)]

            def poles(H):
                Obs, A, C, *_ = ssi.SSI_fast(H, br, ordmax, step=1)
                Fn, Xi, Phi, Lam, *_ = ssi.SSI_poles(Obs, A, C, ordmax, dt, step=1)
                return Fn, Lam
            Fn0, Lam0 = poles(H0)
            fd = {}
            for eps in (1e-6, 1e-7):
                acc = np.zeros((ordmax, ordmax + 1))
                for D in Ds:
                    Fp, Lp = poles(H0 + eps * D)
                    Fm, Lm = poles(H0 - eps * D)
                    for n in range(2, ordmax + 1):
                        for j in range(n):
                            if np.isnan(Lam0[j, n]):
                                acc[j, n] = np.nan
                                continue
                            jp = np.nanargmin(np.abs(Lp[:, n] - Lam0[j, n]))
                            jm = np.nanargmin(np.abs(Lm[:, n] - Lam0[j, n]))
                            acc[j, n] += ((Fp[jp, n] - Fm[jm, n]) / (2 * eps)) ** 2
                fd[eps] = acc
            T = np.hstack([D.reshape(-1, 1, order="F") for D in Ds])        # column-stacked, as the property states
            Obs, A, C, Q1, Q2, Q3, Q4 = ssi.SSI_fast(H0, br, ordmax, step=1, calc_unc=True, T=T, nb=ncol)
            out = ssi.SSI_poles(Obs, A, C, ordmax, dt, step=1, calc_unc=True, Q1=Q1, Q2=Q2, Q3=Q3, Q4=Q4)
        except Exception:      # noqa: BLE001  (ill-conditioned synthetic case: not a guarded case)
            continue
        n_cases += 1
        Fcov = out[4]
        for n in range(2, ordmax + 1):
            lamn = Lam0[:n, n]
            for j in range(n):
                a, b_ = fd[1e-6][j, n], fd[1e-7][j, n]
                if not np.isfinite(a) or not np.isfinite(b_) or not np.isclose(a, b_, rtol=1e-3, atol=1e-14):
                    continue        # derivative not trustworthy at these step sizes: guarded
                others = np.delete(lamn, j)
                if others.size and np.nanmin(np.abs(others - lamn[j])) < 0.05:
                    continue        # eigenvalues not simple enough: guarded
                n_cmp += 1
                rel = abs(Fcov[j, n] - a) / max(abs(a), 1e-300)
                if rel > 1e-3 and (worst is None or rel > worst[1]):
                    worst = (f"l={l}, r={r}, br={br}, ordmax={ordmax}, order {n}, pole {j}, {ncol} factor column(s), trial {trial}", rel, Fcov[j, n], a)
    if worst:
        return {"reproduced": True, "failures": [{"claim": "frequency variance = squared directional derivative (single direction)",
                "detail": f"reported Fn variance {worst[2]:.6e} vs sum of squared central finite differences {worst[3]:.6e} "
                          f"(relative error {worst[1]:.2e}; {worst[0]}; {n_cmp} variances compared on {n_cases} guarded cases)"}],
                "detail": f"first-order propagation disagrees with finite differences: relative error {worst[1]:.2e} ({worst[0]})"}
    if n_cmp == 0:
        raise RuntimeError("c17_fd compared nothing (every case was guarded)")
    return {"reproduced": False, "detail": f"reported variances equal the sum of squared directional derivatives at every order: {n_cmp} variances on {n_cases} guarded cases"}



# ----------------------------------------------------------------------------------
# C08: covariance of the identification under gain, channel permutation and time unit (metamorphic, bounded stand-in)
# ----------------------------------------------------------------------------------

def _c08_tables(alg):
    r = alg.result
    out = {}
    for k in ("Fn_poles", "Xi_poles", "Phi_poles", "freq", "S_val", "S_vec", "Fn", "Xi", "Phi"):
        v = getattr(r, k, None)
        if v is not None:
            out[k] = np.asarray(v)
    return out


def _c08_same_tables(a, b, tol, what):
    """pole tables column by column as sets of (fn, xi, shape) - order inside a column is not part of the statement"""
    for key in ("freq", "Fn", "Xi"):
        if key in a:
            if a[key].shape != b[key].shape or not np.allclose(a[key], b[key], rtol=tol, atol=tol * 1e-3, equal_nan=True):
                return f"{what}: {key} differs (max rel. dev. {np.nanmax(np.abs(a[key] - b[key]) / np.maximum(np.abs(a[key]), 1e-300)):.2e})"
    if "Fn_poles" in a:
        A, B = a["Fn_poles"], b["Fn_poles"]
        if A.shape != B.shape:
            return f"{what}: pole tables of shapes {A.shape} / {B.shape}"
        for col in range(A.shape[1]):
            ia, ib = np.where(~np.isnan(A[:, col]))[0], np.where(~np.isnan(B[:, col]))[0]
            if len(ia) != len(ib):
                return f"{what}: order column {col} holds {len(ia)} / {len(ib)} poles"
            used = set()
            for i in ia:
                cand = [j for j in ib if j not in used and abs(B[j, col] - A[i, col]) <= tol * max(1.0, abs(A[i, col]))
                        and abs(b["Xi_poles"][j, col] - a["Xi_poles"][i, col]) <= tol * 10
                        and abs(_mac1(b["Phi_poles"][j, col], a["Phi_poles"][i, col]) - 1) <= tol * 10]
                if not cand:
                    return f"{what}: pole fn={A[i, col]:.6f}, xi={a['Xi_poles'][i, col]:.6f} of order column {col} has no counterpart (same frequency, damping and shape)"
                used.add(cand[0])
    if "Phi" in a and a["Phi"].ndim == 2:
        for m_ in range(a["Phi"].shape[1]):
            if abs(_mac1(a["Phi"][:, m_], b["Phi"][:, m_]) - 1) > tol * 10 or abs(np.max(np.abs(b["Phi"][:, m_])) - 1) > 1e-9:
                return f"{what}: extracted shape {m_} differs or is not unit-normalised (max |phi| = {np.max(np.abs(b['Phi'][:, m_])):.6f})"
    return None


def c08_meta(inp):
    from pyoma2.algorithms import EFDD, EFDD_MS, FDD, FDD_MS, FSDD, SSIcov, SSIcov_MS, SSIdat, SSIdat_MS, pLSCF, pLSCF_MS
    from pyoma2.setup import MultiSetup_PreGER, SingleSetup
    rng = np.random.RandomState(int(inp.get("seed", 8)))
    ntr = int(inp.get("trials", 2))
    hc = dict(conj=True, xi_max=0.5, mpc_lim=0.0, mpd_lim=10.0, cov_max=1e9)

    def algs():
        return {"FDD": lambda: FDD(name="a", nxseg=256, method_SD="per"), "FDDcor": lambda: FDD(name="a", nxseg=256, method_SD="cor"),
                "EFDD": lambda: EFDD(name="a", nxseg=256, method_SD="per"), "FSDD": lambda: FSDD(name="a", nxseg=256, method_SD="per"),
                "SSIcov": lambda: SSIcov(name="a", br=8, ordmax=8, hc=hc), "SSIcov_R": lambda: SSIcov(name="a", br=8, ordmax=8, method="cov_R", hc=hc),
                "SSIdat": lambda: SSIdat(name="a", br=8, ordmax=8, hc=hc), "pLSCF": lambda: pLSCF(name="a", ordmax=5, nxseg=256, hc=hc),
                # every spectral estimation method, not just the default one
                "EFDDcor": lambda: EFDD(name="a", nxseg=256, method_SD="cor"), "FSDDcor": lambda: FSDD(name="a", nxseg=256, method_SD="cor"),
                "pLSCFcor": lambda: pLSCF(name="a", ordmax=5, nxseg=256, method_SD="cor", hc=hc)}

    def run(kind, y, fs, sel, perm=None):
        st = SingleSetup(y.copy(), fs)
        a = algs()[kind]()
        st.add_algorithms(a)
        st.run_by_name("a")
        if kind.startswith("FDD"):
            st.mpe("a", sel_freq=sel, DF=0.08 * fs / 20.0)
        elif kind[:4] in ("EFDD", "FSDD"):
            st.mpe("a", sel_freq=sel, DF1=0.08 * fs / 20.0, DF2=1.0 * fs / 20.0, sppk=1, npmax=6)
        return _c08_tables(a)
    ran, skipped = set(), {}
    for trial in range(ntr):
        nch = int(rng.randint(3, 6))
        fs = 20.0
        f, xi, lam, phi = _free_system(rng, 3, nch, fs)
        n = 4096
        # random response: free decays re-excited by noise bursts (well-conditioned modes plus noise)
        y = sum(_free_response(rng, lam, phi, n, fs) * (np.arange(n)[:, None] >= s0) * 0 for s0 in (0,)) + 0
        e = rng.randn(n + 200, 3)
        t = np.arange(200) / fs
        y = np.zeros((n, nch))
        for k in range(3):
            h = np.real(np.exp(lam[k] * t))
            y += np.outer(np.convolve(e[:, k], h)[200:200 + n], phi[:, k])
        y += 0.01 * np.std(y) * rng.randn(n, nch)
        sel = [float(x) for x in f]
        for kind in algs():
            try:
                base = run(kind, y, fs, sel)
            except Exception as ex:      # noqa: BLE001
                skipped.setdefault(kind, f"{type(ex).__name__}: {ex}")
                continue        # the untransformed run itself fails on this data set (not a covariance statement): guarded case
            ran.add(kind)
            # (a) gain: a power of two scales every floating-point operation exactly
            # (the property ranges over every data set and gains in [1e-6, 1e6]: a record of r.m.s. 1e-4 at gain 1e-6 is 2^-34 here)
            for gain in (2.0 ** -20, 2.0 ** 20, 2.0 ** -34, 2.0 ** 30, 3.7e-6, 4.2e5):
                exact = float(np.log2(gain)).is_integer()
                try:
                    got = run(kind, y * gain, fs, sel)
                except Exception as ex:      # noqa: BLE001
                    return {"reproduced": True, "detail": f"{kind}: data multiplied by {gain:g} raises {type(ex).__name__}: {ex} (the unscaled run succeeds)"}
                tol = 1e-9 if exact else 1e-5
                err = _c08_same_tables(base, got, tol, f"{kind}: data multiplied by {gain:g}")
                if err:
                    return {"reproduced": True, "detail": err}
            # (c) time unit: the same samples declared at kappa * fs
            for kappa in (2.0 ** -5, 2.0 ** 6):
                try:
                    got = run(kind, y, fs * kappa, [x * kappa for x in sel])
                except Exception as ex:      # noqa: BLE001
                    return {"reproduced": True, "detail": f"{kind}: sampling frequency x {kappa:g} raises {type(ex).__name__}: {ex} (the original run succeeds)"}
                want = {k_: (v * kappa if k_ in ("Fn_poles", "freq", "Fn") else v) for k_, v in base.items()}
                # EFDD / FSDD fit a line through the extrema of the free decay (np.polyfit on a time axis): the fit is not exactly
                # scale-free in floating point, its rounding noise is ~1e-9 relative; the frequency grid k * fs / nxseg times dt is not
                # exactly the same product either, and an ill-conditioned (spurious) pLSCF root amplifies that ulp to ~1e-9 (seed 23)
                err = _c08_same_tables(want, got, 1e-6 if kind[:4] in ("EFDD", "FSDD") else 1e-7, f"{kind}: sampling frequency declared {kappa:g} times higher")
                if err:
                    return {"reproduced": True, "detail": err}
            # (b) channel permutation: frequencies and damping unchanged, shape rows permuted
            perm = rng.permutation(nch)
            try:
                got = run(kind, y[:, perm], fs, sel)
            except Exception as ex:      # noqa: BLE001
                return {"reproduced": True, "detail": f"{kind}: permuted channels raise {type(ex).__name__}: {ex} (the original run succeeds)"}
            want = dict(base)
            for k_ in ("Phi_poles",):
                if k_ in want:
                    want[k_] = want[k_][:, :, perm]
            if "Phi" in want and want["Phi"].ndim == 2:
                want["Phi"] = want["Phi"][perm, :]
                # re-normalise to the largest component (unchanged set of components)
            err = _c08_same_tables(want, got, 1e-5, f"{kind}: channels permuted {perm.tolist()}")
            if err:
                return {"reproduced": True, "detail": err}
            # (d) orthogonal mixing y -> y Q^T: frequencies and damping unchanged, every shape rotated by Q (compared by MAC, which
            # does not see the re-normalisation to the new largest component)
            Q = np.linalg.qr(rng.randn(nch, nch))[0]
            try:
                got = run(kind, y @ Q.T, fs, sel)
            except Exception as ex:      # noqa: BLE001
                return {"reproduced": True, "detail": f"{kind}: orthogonally mixed channels raise {type(ex).__name__}: {ex} (the original run succeeds)"}
            want = dict(base)
            if "Phi_poles" in want:
                want["Phi_poles"] = want["Phi_poles"] @ Q.T
            if "Phi" in want and want["Phi"].ndim == 2:
                want["Phi"] = Q @ want["Phi"]
                want["Phi"] = want["Phi"] / want["Phi"][np.argmax(np.abs(want["Phi"]), axis=0), np.arange(want["Phi"].shape[1])]
            for k_ in ("S_vec",):
                want.pop(k_, None)
            err = _c08_same_tables(want, got, 1e-5, f"{kind}: channels mixed by a random orthogonal matrix")
            if err:
                return {"reproduced": True, "detail": err}
        # ---- the multi-setup variants (two setups sharing two reference channels): gain and time unit --------------------
        def ms_algs():
            return {"FDD_MS": lambda: FDD_MS(name="a", nxseg=256, method_SD="per"), "EFDD_MS": lambda: EFDD_MS(name="a", nxseg=256, method_SD="per"),
                    "EFDD_MScor": lambda: EFDD_MS(name="a", nxseg=256, method_SD="cor"),
                    "SSIcov_MS": lambda: SSIcov_MS(name="a", br=8, ordmax=8, hc=hc), "SSIdat_MS": lambda: SSIdat_MS(name="a", br=8, ordmax=8, hc=hc),
                    "pLSCF_MS": lambda: pLSCF_MS(name="a", ordmax=5, nxseg=256, hc=hc), "pLSCF_MScor": lambda: pLSCF_MS(name="a", ordmax=5, nxseg=256, method_SD="cor", hc=hc)}

        def run_ms(kind, yy, fs_, sel_):
            sets = [yy[:, [0, 1] + list(range(2, 2 + (nch - 2 + 1) // 2))].copy(), yy[:, [0, 1] + list(range(2 + (nch - 2 + 1) // 2, nch))].copy()]
            if sets[1].shape[1] == 2:
                sets[1] = yy[:, [0, 1, nch - 1]].copy()
            ms = MultiSetup_PreGER(fs=fs_, ref_ind=[[0, 1], [0, 1]], datasets=sets)
            a = ms_algs()[kind]()
            ms.add_algorithms(a)
            ms.run_by_name("a")
            if kind.startswith("FDD"):
                ms.mpe("a", sel_freq=sel_, DF=0.08 * fs_ / 20.0)
            elif kind.startswith("EFDD"):
                ms.mpe("a", sel_freq=sel_, DF1=0.08 * fs_ / 20.0, DF2=1.0 * fs_ / 20.0, sppk=1, npmax=6)
            return _c08_tables(a)
        for kind in ms_algs():
            try:
                base = run_ms(kind, y, fs, sel)
            except Exception as ex:      # noqa: BLE001
                skipped.setdefault(kind, f"{type(ex).__name__}: {ex}")
                continue
            ran.add(kind)
            for gain in (2.0 ** -20, 2.0 ** 20):
                try:
                    got = run_ms(kind, y * gain, fs, sel)
                except Exception as ex:      # noqa: BLE001
                    return {"reproduced": True, "detail": f"{kind}: data multiplied by {gain:g} raises {type(ex).__name__}: {ex} (the unscaled run succeeds)"}
                err = _c08_same_tables(base, got, 1e-9, f"{kind}: data multiplied by {gain:g}")
                if err:
                    return {"reproduced": True, "detail": err}
            for kappa in (2.0 ** -5, 2.0 ** 6):
                try:
                    got = run_ms(kind, y, fs * kappa, [x * kappa for x in sel])
                except Exception as ex:      # noqa: BLE001
                    return {"reproduced": True, "detail": f"{kind}: sampling frequency x {kappa:g} raises {type(ex).__name__}: {ex} (the original run succeeds)"}
                want = {k_: (v * kappa if k_ in ("Fn_poles", "freq", "Fn") else v) for k_, v in base.items()}
                err = _c08_same_tables(want, got, 1e-6 if kind[:4] == "EFDD" else 1e-7, f"{kind}: sampling frequency declared {kappa:g} times higher")
                if err:
                    return {"reproduced": True, "detail": err}
    never = sorted((set(algs()) | set(ms_algs())) - ran)
    if never:
        # a variant whose untransformed run never succeeds was not examined at all: the driver says so instead of passing silently
        raise RuntimeError(f"c08_meta explored nothing for {never}: {[skipped.get(k_) for k_ in never]}")
    return {"reproduced": False, "detail": f"{ntr} data sets x 11 single-setup algorithm variants (periodogram and correlogram spectra; cov_mm / cov_R / data-driven Hankel matrices) and 7 multi-setup variants (gain and time unit only): pole tables and extracted modes covariant under gain (2^-34 .. 2^30 exact, 3.7e-6, 4.2e5), time unit (2^-5, 2^6), a channel permutation and a random orthogonal mixing; shapes unit-normalised"}



# ----------------------------------------------------------------------------------
# C16 hand-over: what the mpe_from_plot methods pass from the dialog to the extraction routine (spy on the real call)
# ----------------------------------------------------------------------------------

def c16_handover(inp):
    import pyoma2.algorithms.fdd as afdd
    import pyoma2.algorithms.plscf as aplscf
    import pyoma2.algorithms.ssi as assi
    from pyoma2.algorithms.data.result import FDDResult, pLSCFResult, SSIResult
    rng = np.random.RandomState(int(inp.get("seed", 16)))

    class FakeDialog:
        next_result = None

        def __init__(self, *a, **k):
            self.result = FakeDialog.next_result
    for trial in range(40):
        n = int(rng.randint(1, 6))
        freqs = sorted(rng.uniform(1, 20, n).round(3).tolist())
        orders = [int(x) for x in rng.randint(1, 30, n)]
        if n >= 2 and trial % 2 == 0:          # the same pole picked twice, other picks at other orders
            j = int(rng.randint(0, n - 1))
            freqs[j + 1], orders[j + 1] = freqs[j], orders[j]
            order_idx = np.argsort(freqs, kind="stable")
            freqs, orders = [freqs[i] for i in order_idx], [orders[i] for i in order_idx]
        if n >= 3 and trial % 4 == 1:          # lowest and highest pick at the same order, another order in between
            orders[-1] = orders[0]
            orders[1] = orders[0] + 1
        if n >= 2 and trial % 8 == 3:          # every pick at one order
            orders = [orders[0]] * n
        for name, mod, clsname, fn_name, res in (("SSIcov", assi, "SSIcov", "SSI_mpe", SSIResult), ("pLSCF", aplscf, "pLSCF", "pLSCF_mpe", pLSCFResult)):
            seen = {}
            kern = getattr(mod, "ssi" if name == "SSIcov" else "plscf")
            real_mpe, real_dlg = getattr(kern, fn_name), mod.SelFromPlot

            def spy(*a, **k):
                seen["a"], seen["k"] = a, k
                raise RuntimeError("stop")
            setattr(kern, fn_name, spy)
            mod.SelFromPlot = FakeDialog
            FakeDialog.next_result = (list(freqs), list(orders))
            try:
                alg = getattr(mod, clsname)(name="a", br=4, ordmax=30) if name == "SSIcov" else getattr(mod, clsname)(name="a", ordmax=30)
                alg.result = res(Fn_poles=np.zeros((2, 2)), Xi_poles=np.zeros((2, 2)), Phi_poles=np.zeros((2, 2, 1)), Lab=np.zeros((2, 2)))
                alg.fs, alg.dt, alg.data = 10.0, 0.1, np.zeros((10, 1))
                try:
                    alg.mpe_from_plot(freqlim=(0, 5), rtol=0.05)
                except RuntimeError:
                    pass
            finally:
                setattr(kern, fn_name, real_mpe)
                mod.SelFromPlot = real_dlg
            if not seen:
                return {"reproduced": True, "detail": f"{name}.mpe_from_plot never reached the extraction routine"}
            got_f = list(seen["a"][0]) if seen["a"] else list(seen["k"].get("sel_freq", seen["k"].get("freq_ref", [])))
            got_o = seen["a"][4] if len(seen["a"]) > 4 else seen["k"].get("order")
            got_ol = list(got_o) if isinstance(got_o, (list, tuple, np.ndarray)) else got_o
            if isinstance(got_ol, (int, np.integer)) and orders and all(o == int(got_ol) for o in orders):
                got_ol = list(orders)          # one order for every pick handed over as a single number: the same pairs
            if got_f != list(freqs) or got_ol != list(orders):
                return {"reproduced": True, "detail": f"{name}.mpe_from_plot: the dialog handed over frequencies {freqs} with orders {orders}, the extraction routine received {got_f} with {got_ol!r}"}
    return {"reproduced": False, "detail": "mpe_from_plot passes the dialog's frequencies and per-mode orders unchanged and paired (SSI, pLSCF; duplicates included)"}


def c02_results(inp):
    """PoSER merge_results with two algorithms per setup registered under names in arbitrary (non-alphabetical) order"""
    from pyoma2.algorithms import FSDD, SSIcov
    from pyoma2.algorithms.data.result import EFDDResult, SSIResult
    from pyoma2.setup import MultiSetup_PoSER, SingleSetup
    rng = np.random.RandomState(int(inp.get("seed", 2)))
    for trial in range(30):
        S_ = int(rng.randint(2, 4))
        nref, nm = int(rng.randint(1, 3)), [int(rng.randint(1, 4)), int(rng.randint(1, 4))]
        nrov = [int(rng.randint(1, 4)) for _ in range(S_)]
        ntot = nref + sum(nrov)
        G = [rng.randn(ntot, nm[0]), rng.randn(ntot, nm[1])]
        fn0 = [np.sort(rng.uniform(1, 20, nm[0])), np.sort(rng.uniform(1, 20, nm[1]))]
        setups, off = [], nref
        names_per_setup = [rng.permutation(["zeta", "Alpha"]).tolist() if trial % 2 else ["zeta", "Alpha"] for _ in range(S_)]
        fn_all, xi_all = [[], []], [[], []]
        ref_lists, expect_rows = [], list(range(nref))
        for s_ in range(S_):
            rows = list(range(nref)) + list(range(off, off + nrov[s_]))
            off += nrov[s_]
            if trial % 3:
                # the setup's own channel order: references anywhere, listed so that position j of every list is the same physical sensor
                # (the lists are then in general NOT ascending)
                rows = [rows[i] for i in rng.permutation(len(rows))]
            ref_lists.append([rows.index(j) for j in range(nref)])
            expect_rows += [r_ for r_ in rows if r_ >= nref]           # roving sensors in the setup's own channel order
            st = SingleSetup(np.zeros((50, len(rows))), 10.0)
            a0 = SSIcov(name=names_per_setup[s_][0] + str(s_), br=3, ordmax=6)       # position 0: always the SSIcov system
            a1 = FSDD(name=names_per_setup[s_][1] + str(s_), nxseg=16)               # position 1: always the FSDD system
            for k, (a, R) in enumerate(((a0, SSIResult), (a1, EFDDResult))):
                fn = fn0[k] * (1 + 0.01 * rng.randn(nm[k]))
                xi = 0.02 * (1 + 0.1 * rng.randn(nm[k]))
                a.result = R()
                a.result.Fn, a.result.Xi, a.result.Phi = fn, xi, G[k][rows, :] * rng.choice([-2.0, 0.5, 3.0])
                fn_all[k].append(fn)
                xi_all[k].append(xi)
            st.add_algorithms(a0, a1)
            setups.append(st)
        try:
            ms = MultiSetup_PoSER(ref_ind=[list(x) for x in ref_lists], single_setups=setups, names=["first", "second"])
            out = ms.merge_results()
        except Exception as e:      # noqa: BLE001
            return {"reproduced": True, "detail": f"merge_results raised {type(e).__name__}: {e} (names per setup {names_per_setup})"}
        for k, key in enumerate(("first", "second")):
            r = out[key]
            if np.shape(r.Fn) != (nm[k],) or not np.allclose(r.Fn, np.mean(fn_all[k], axis=0)) or not np.allclose(r.Xi, np.mean(xi_all[k], axis=0)) \
                    or not np.allclose(r.Fn_cov, np.std(fn_all[k], axis=0) / np.mean(fn_all[k], axis=0)):
                return {"reproduced": True, "detail": f"merge_results: group '{key}' (algorithms at position {k} of every setup) does not hold the mean / population std-over-mean of that position's "
                                                      f"results (algorithm names per setup: {names_per_setup})"}
            if r.Phi.shape != (ntot, nm[k]) or any(abs(_mac1(r.Phi[:, m_], G[k][expect_rows, m_]) - 1) > 1e-8 for m_ in range(nm[k])):
                return {"reproduced": True, "detail": f"merge_results: group '{key}' merged shape is not the global shape of the algorithms at position {k} (references in the listed order, "
                                                      f"then each setup's roving sensors; reference lists {ref_lists}; names per setup: {names_per_setup})"}
    return {"reproduced": False, "detail": "merge_results groups by position whatever the algorithms are called; means, std/mean and merged shapes per group agree on 30 layouts"}



# ----------------------------------------------------------------------------------
# data-flow fallbacks: what the algorithm classes hand to the estimators / extraction routines (spies on the real calls)
# ----------------------------------------------------------------------------------

def flow_spectral(inp):
    """FDD / pLSCF (.run) -> SD_est and FDD_MS / EFDD_MS / pLSCF_MS (.run) -> SD_PreGER: data, dt / fs, nxseg, method, pov"""
    import pyoma2.algorithms.fdd as afdd
    import pyoma2.algorithms.plscf as aplscf
    from pyoma2.setup import MultiSetup_PreGER, SingleSetup
    rng = np.random.RandomState(int(inp.get("seed", 13)))
    y = rng.randn(600, 3)
    for trial in range(12):
        nxseg = int(rng.choice([64, 128, 100]))
        pov = float(rng.choice([0.0, 0.25, 0.5, 0.75]))
        meth = str(rng.choice(["per", "cor"]))
        fs = float(rng.choice([10.0, 50.0]))
        for mod, clsname, multi in ((afdd, "FDD", False), (aplscf, "pLSCF", False), (afdd, "FDD_MS", True), (afdd, "EFDD_MS", True), (aplscf, "pLSCF_MS", True)):
            target = "SD_PreGER" if multi else "SD_est"
            seen = {}
            real = getattr(mod.fdd, target)

            def spy(*a, **k):
                seen["a"], seen["k"] = a, k
                raise RuntimeError("stop")
            setattr(mod.fdd, target, spy)
            try:
                kw = dict(name="a", nxseg=nxseg, method_SD=meth, pov=pov)
                if "pLSCF" in clsname:
                    kw["ordmax"] = 4
                alg = getattr(mod, clsname)(**kw)
                if multi:
                    st = MultiSetup_PreGER(fs=fs, ref_ind=[[0], [0]], datasets=[y[:300].copy(), y[300:].copy()])
                else:
                    st = SingleSetup(y.copy(), fs)
                st.add_algorithms(alg)
                try:
                    st.run_by_name("a")
                except RuntimeError:
                    pass
            finally:
                setattr(mod.fdd, target, real)
            if not seen:
                return {"reproduced": True, "detail": f"{clsname}.run never called {target}"}
            import inspect
            ba = inspect.signature(real).bind(*seen["a"], **seen["k"])
            ba.apply_defaults()
            g = ba.arguments
            ctx = f"{clsname}.run(nxseg={nxseg}, method_SD={meth}, pov={pov}, fs={fs})"
            if int(g["nxseg"]) != nxseg or g["method"] != meth or abs(float(g["pov"]) - pov) > 1e-12:
                return {"reproduced": True, "detail": f"{ctx}: {target} received nxseg={g['nxseg']}, method={g['method']}, pov={g['pov']}"}
            if multi:
                if abs(float(g["fs"]) - fs) > 1e-12 or g["Y"] is not alg.data:
                    return {"reproduced": True, "detail": f"{ctx}: {target} received fs={g['fs']} / other data than the algorithm's"}
            else:
                if abs(float(g["dt"]) - 1 / fs) > 1e-12 or not np.array_equal(g["Yall"], y.T) or not np.array_equal(g["Yref"], y.T):
                    return {"reproduced": True, "detail": f"{ctx}: {target} received dt={g['dt']} or data other than data.T for both arguments"}
    return {"reproduced": False, "detail": "run() of FDD, pLSCF, FDD_MS, EFDD_MS, pLSCF_MS hand data, dt / fs, nxseg, method and pov to the estimator unchanged"}


def flow_mpe(inp):
    """FDD.mpe -> FDD_mpe, SSIdat.mpe -> SSI_mpe, pLSCF.mpe -> pLSCF_mpe: stored tables in, results stored under their own names"""
    import pyoma2.algorithms.fdd as afdd
    import pyoma2.algorithms.plscf as aplscf
    import pyoma2.algorithms.ssi as assi
    from pyoma2.algorithms.data.result import FDDResult, pLSCFResult, SSIResult

    def tagged(n):
        return [np.full((2, 2), float(i + 1)) for i in range(n)]
    for mod, kern, clsname, fn_name, res_cls, ins, outs, call in (
            (afdd, "fdd", "FDD", "FDD_mpe", FDDResult, {"Sval": "S_val", "Svec": "S_vec", "freq": "freq"}, ("Fn", "Phi"), dict(sel_freq=[1.0, 2.0], DF=0.3)),
            (assi, "ssi", "SSIcov", "SSI_mpe", SSIResult, {"Fn_pol": "Fn_poles", "Xi_pol": "Xi_poles", "Phi_pol": "Phi_poles", "Lab": "Lab", "Fn_cov": "Fn_poles_cov",
                                                           "Xi_cov": "Xi_poles_cov", "Phi_cov": "Phi_poles_cov"},
             ("Fn", "Xi", "Phi", "order_out", "Fn_cov", "Xi_cov", "Phi_cov"), dict(sel_freq=[1.0, 2.0], order=3, rtol=0.07)),
            (aplscf, "plscf", "pLSCF", "pLSCF_mpe", pLSCFResult, {"Fn_pol": "Fn_poles", "Xi_pol": "Xi_poles", "Phi_pol": "Phi_poles", "Lab": "Lab"},
             ("Fn", "Xi", "Phi", "order_out"), dict(sel_freq=[1.0, 2.0], order=3, rtol=0.07))):
        k_mod = getattr(mod, kern)
        real = getattr(k_mod, fn_name)
        seen = {}
        ret = tuple(np.full(2, 100.0 + i) for i in range(len(outs)))

        def spy(*a, **k):
            seen["a"], seen["k"] = a, k
            return ret
        setattr(k_mod, fn_name, spy)
        try:
            alg = getattr(mod, clsname)(name="a", br=3, ordmax=6) if clsname == "SSIcov" else (getattr(mod, clsname)(name="a", ordmax=6) if clsname == "pLSCF" else getattr(mod, clsname)(name="a", nxseg=64))
            alg._set_data(data=np.zeros((640, 2)), fs=64.0)        # what add_algorithms binds: data, fs, dt
            fields = sorted(set(ins.values()))
            vals = dict(zip(fields, tagged(len(fields))))
            alg.result = res_cls(**{f: v for f, v in vals.items() if f in res_cls.model_fields})
            for f, v in vals.items():
                setattr(alg.result, f, v)
            alg.mpe(**call)
        except Exception as e:      # noqa: BLE001
            return {"reproduced": True, "detail": f"{clsname}.mpe raised {type(e).__name__}: {e}"}
        finally:
            setattr(k_mod, fn_name, real)
        import inspect
        ba = inspect.signature(real).bind(*seen["a"], **seen["k"])
        ba.apply_defaults()
        g = ba.arguments
        for arg, fld in ins.items():
            if g[arg] is not vals[fld]:
                return {"reproduced": True, "detail": f"{clsname}.mpe: {fn_name} received something else than result.{fld} as {arg}"}
        freq_arg = "sel_freq" if "sel_freq" in g else "freq_ref"
        if list(g[freq_arg]) != call["sel_freq"] or any(abs(float(g[k_]) - v) > 1e-12 for k_, v in call.items() if k_ in ("DF", "rtol")) or ("order" in call and g["order"] != call["order"]):
            return {"reproduced": True, "detail": f"{clsname}.mpe: the caller's frequencies / order / tolerance did not reach {fn_name} unchanged"}
        for i, o in enumerate(outs):
            if getattr(alg.result, o) is not ret[i]:
                return {"reproduced": True, "detail": f"{clsname}.mpe: result.{o} is not the value {fn_name} returned at position {i}"}
    return {"reproduced": False, "detail": "mpe of FDD, SSIcov, pLSCF hand the stored tables and the caller's arguments to the extraction routine and store every returned value under its own name"}


def _spy_all(mod, names):
    """replace mod.<name> by recorders that call the real function; returns (seen, restore)"""
    import inspect
    seen, real = {}, {n: getattr(mod, n) for n in names}

    def mk(n):
        def spy(*a, **k):
            ba = inspect.signature(real[n]).bind(*a, **k)
            ba.apply_defaults()
            out = real[n](*a, **k)
            seen[n] = (dict(ba.arguments), out)
            return out
        return spy
    for n in names:
        setattr(mod, n, mk(n))

    def restore():
        for n in names:
            setattr(mod, n, real[n])
    return seen, restore


def flow_ssi(inp):
    """SSIdat / SSIcov (.run) -> build_hank, SSI_fast, SSI_poles and SSIdat_MS / SSIcov_MS (.run) -> SSI_multi_setup, SSI_poles: data
    orientation, the reference rows in the LISTED order, block rows, method, orders, dt; the kernels' outputs stored under their names"""
    import pyoma2.algorithms.ssi as assi
    from pyoma2.setup import MultiSetup_PreGER, SingleSetup
    rng = np.random.RandomState(int(inp.get("seed", 12)))
    y = rng.randn(400, 4)
    hc = dict(conj=False, xi_max=1.0, mpc_lim=0.0, mpd_lim=10.0, cov_max=1e9)
    for clsname, meth in (("SSIdat", None), ("SSIcov", None), ("SSIcov", "cov_R"), ("SSIcov", "cov_mm")):
        for refs in (None, [2, 0], [1, 0, 2], [3, 1], [0, 1], [3], [2, 0, 3, 1], [0, 1, 2, 3], [1, 0]):
            br, ordmax, fs = int(rng.randint(3, 6)), int(rng.randint(3, 7)), float(rng.choice([10.0, 64.0]))
            ordmax = min(ordmax, (br + 1) * (4 if refs is None else len(refs)) - 1)      # no more orders than the Hankel matrix has columns
            seen, restore = _spy_all(assi.ssi, ("build_hank", "SSI_fast", "SSI_poles"))
            try:
                kw = dict(name="a", br=br, ordmax=ordmax, ref_ind=refs, hc=hc)
                if meth:
                    kw["method"] = meth
                alg = getattr(assi, clsname)(**kw)
                st = SingleSetup(y.copy(), fs)
                st.add_algorithms(alg)
                st.run_by_name("a")
            except Exception as e:      # noqa: BLE001
                return {"reproduced": True, "detail": f"{clsname}(ref_ind={refs}, method={meth}).run raised {type(e).__name__}: {e}"}
            finally:
                restore()
            ctx = f"{clsname}.run(br={br}, ordmax={ordmax}, ref_ind={refs}, method={meth}, fs={fs})"
            if set(seen) != {"build_hank", "SSI_fast", "SSI_poles"}:
                return {"reproduced": True, "detail": f"{ctx}: kernels called: {sorted(seen)}"}
            g, (H, T) = seen["build_hank"]
            want_ref = y.T if refs is None else y.T[refs, :]
            if not np.array_equal(g["Y"], y.T):
                return {"reproduced": True, "detail": f"{ctx}: build_hank did not receive data.T as Y"}
            if np.shape(g["Yref"]) != want_ref.shape or not np.array_equal(g["Yref"], want_ref):
                return {"reproduced": True, "detail": f"{ctx}: build_hank's Yref (shape {np.shape(g['Yref'])}) is not the listed reference channels in the listed order"}
            want_m = meth or ("dat" if clsname == "SSIdat" else "cov_mm")
            if int(g["br"]) != br or g["method"] != want_m:
                return {"reproduced": True, "detail": f"{ctx}: build_hank received br={g['br']}, method={g['method']}"}
            f, fout = seen["SSI_fast"]
            if f["H"] is not H or int(f["br"]) != br or int(f["ordmax"]) != ordmax:
                return {"reproduced": True, "detail": f"{ctx}: SSI_fast did not receive build_hank's matrix / br / ordmax"}
            p_, _ = seen["SSI_poles"]
            if p_["Obs"] is not fout[0] or p_["AA"] is not fout[1] or p_["CC"] is not fout[2] or abs(float(p_["dt"]) - 1 / fs) > 1e-15 or int(p_["ordmax"]) != ordmax:
                return {"reproduced": True, "detail": f"{ctx}: SSI_poles did not receive SSI_fast's Obs, A, C with dt = 1/fs and ordmax"}
            R = alg.result
            if R.H is not H and not np.array_equal(R.H, H):
                return {"reproduced": True, "detail": f"{ctx}: result.H is not build_hank's matrix"}
    for clsname, meth in (("SSIdat_MS", None), ("SSIcov_MS", None), ("SSIcov_MS", "cov_R")):
        br, ordmax, fs = 4, 5, 20.0
        seen, restore = _spy_all(assi.ssi, ("SSI_multi_setup", "SSI_poles"))
        try:
            kw = dict(name="a", br=br, ordmax=ordmax, hc=hc)
            if meth:
                kw["method"] = meth
            alg = getattr(assi, clsname)(**kw)
            ms = MultiSetup_PreGER(fs=fs, ref_ind=[[1, 0], [0, 2]], datasets=[y[:200, :3].copy(), y[200:, :].copy()])
            ms.add_algorithms(alg)
            ms.run_by_name("a")
        except Exception as e:      # noqa: BLE001
            return {"reproduced": True, "detail": f"{clsname}(method={meth}).run raised {type(e).__name__}: {e}"}
        finally:
            restore()
        g, out = seen.get("SSI_multi_setup", ({}, None))
        want_m = meth or ("dat" if clsname == "SSIdat_MS" else "cov_mm")
        if not g or g["Y"] is not alg.data or abs(float(g["fs"]) - fs) > 1e-12 or int(g["br"]) != br or int(g["ordmax"]) != ordmax or g["method_hank"] != want_m:
            return {"reproduced": True, "detail": f"{clsname}.run(method={meth}): SSI_multi_setup did not receive the algorithm's datasets, fs, br, ordmax and Hankel method"}
        p_, _ = seen.get("SSI_poles", ({}, None))
        if not p_ or p_["Obs"] is not out[0] or p_["AA"] is not out[1] or p_["CC"] is not out[2] or abs(float(p_["dt"]) - 1 / fs) > 1e-15:
            return {"reproduced": True, "detail": f"{clsname}.run(method={meth}): SSI_poles did not receive SSI_multi_setup's Obs, A, C with dt = 1/fs"}
    return {"reproduced": False, "detail": "run() of SSIdat, SSIcov (cov_mm, cov_R), SSIdat_MS, SSIcov_MS hands data.T, the listed reference rows, br, method, ordmax, dt to the kernels and chains their outputs (9 reference selections, among them every channel listed in another order)"}


def flow_plscf(inp):
    """pLSCF / pLSCF_MS (.run) -> plscf.pLSCF, pLSCF_poles: the estimator's spectrum, dt, ordmax, the basis-function sign that belongs to the estimator"""
    import pyoma2.algorithms.plscf as aplscf
    from pyoma2.setup import MultiSetup_PreGER, SingleSetup
    rng = np.random.RandomState(int(inp.get("seed", 5)))
    y = rng.randn(900, 3)
    hc = dict(conj=False, xi_max=1.0, mpc_lim=0.0, mpd_lim=10.0, cov_max=1e9)
    for clsname, multi in (("pLSCF", False), ("pLSCF_MS", True)):
        for meth in ("per", "cor"):
            nxseg, ordmax, fs = int(rng.choice([64, 128])), int(rng.randint(2, 5)), float(rng.choice([10.0, 50.0]))
            seen, restore = _spy_all(aplscf.plscf, ("pLSCF", "pLSCF_poles"))
            seen2, restore2 = _spy_all(aplscf.fdd, ("SD_PreGER",) if multi else ("SD_est",))
            try:
                alg = getattr(aplscf, clsname)(name="a", ordmax=ordmax, nxseg=nxseg, method_SD=meth, hc=hc)
                st = MultiSetup_PreGER(fs=fs, ref_ind=[[0], [0]], datasets=[y[:450].copy(), y[450:].copy()]) if multi else SingleSetup(y.copy(), fs)
                st.add_algorithms(alg)
                st.run_by_name("a")
            except Exception as e:      # noqa: BLE001
                return {"reproduced": True, "detail": f"{clsname}(method_SD={meth}).run raised {type(e).__name__}: {e}"}
            finally:
                restore()
                restore2()
            ctx = f"{clsname}.run(method_SD={meth}, nxseg={nxseg}, ordmax={ordmax}, fs={fs})"
            if set(seen) != {"pLSCF", "pLSCF_poles"} or not seen2:
                return {"reproduced": True, "detail": f"{ctx}: kernels called: {sorted(seen)} / {sorted(seen2)}"}
            Sy = list(seen2.values())[0][1][1]
            g, out = seen["pLSCF"]
            want = -1 if meth == "per" else 1
            if g["Sy"] is not Sy or abs(float(g["dt"]) - 1 / fs) > 1e-15 or int(g["ordmax"]) != ordmax:
                return {"reproduced": True, "detail": f"{ctx}: plscf.pLSCF did not receive the estimator's spectrum, dt = 1/fs and ordmax"}
            if float(g["sgn_basf"]) != want:
                return {"reproduced": True, "detail": f"{ctx}: plscf.pLSCF received sgn_basf={g['sgn_basf']}, the estimator '{meth}' needs {want}"}
            p_, _ = seen["pLSCF_poles"]
            if p_["Ad"] is not out[0] or p_["Bn"] is not out[1] or abs(float(p_["dt"]) - 1 / fs) > 1e-15 or p_["methodSy"] != meth or int(p_["nxseg"]) != nxseg:
                return {"reproduced": True, "detail": f"{ctx}: pLSCF_poles did not receive the fitted model with dt, the estimator's name and nxseg"}
    return {"reproduced": False, "detail": "run() of pLSCF and pLSCF_MS hands the estimator's spectrum, dt, ordmax and the sign belonging to the estimator to plscf.pLSCF and the fitted model to pLSCF_poles"}


def c12_complex(inp):
    """build_hank on COMPLEX records (covariance methods): bilinearity over the complex numbers reduces them to the real case, which the
    deductive contracts decide: H(Y1 + iY2, R1 + iR2) = H(Y1,R1) - H(Y2,R2) + i (H(Y1,R2) + H(Y2,R1)) for real Y1, Y2, R1, R2"""
    from pyoma2.functions import ssi
    rng = np.random.RandomState(int(inp.get("seed", 12)))
    n = 0
    for trial in range(int(inp.get("trials", 24))):
        l = int(rng.randint(1, 5)); br = int(rng.randint(1, 6)); N = int(rng.randint(4 * br + 8, 90))
        refs = sorted(rng.permutation(l)[:int(rng.randint(1, l + 1))].tolist(), key=lambda _: rng.rand())
        Y1, Y2 = rng.randn(l, N), rng.randn(l, N)
        for method in ("cov_mm", "cov_R"):
            H = lambda A, B: np.asarray(ssi.build_hank(A, B, br, method=method)[0])      # noqa: E731
            R1, R2 = Y1[refs, :], Y2[refs, :]
            try:
                got = H(Y1 + 1j * Y2, R1 + 1j * R2)
                want = H(Y1, R1) - H(Y2, R2) + 1j * (H(Y1, R2) + H(Y2, R1))
            except Exception as e:      # noqa: BLE001
                return {"reproduced": True, "detail": f"build_hank({method}) raised {type(e).__name__}: {e} on complex records (l={l}, refs={refs}, br={br}, N={N})"}
            n += 1
            if got.shape != want.shape or not np.allclose(got, want, rtol=1e-9, atol=1e-12):
                return {"reproduced": True, "detail": f"build_hank({method}) is not bilinear on complex records: H(Y1 + iY2, R1 + iR2) differs from its expansion over the real "
                                                      f"parts by {np.max(np.abs(np.asarray(got, dtype=complex) - want)):.3e} (l={l}, refs={refs}, br={br}, N={N}; imaginary part kept: {bool(np.iscomplexobj(got))})"}
    return {"reproduced": False, "detail": f"build_hank(cov_mm / cov_R) on complex records equals its bilinear expansion over real records in {n} cases"}


DRIVERS = {"c12_complex": c12_complex, "flow_spectral": flow_spectral, "flow_ssi": flow_ssi, "flow_plscf": flow_plscf, "flow_mpe": flow_mpe, "c16_handover": c16_handover, "c02_results": c02_results, "c08_meta": c08_meta, "c17_factor": c17_factor, "c17_fd": c17_fd, "c03_exact": c03_exact, "c05_exact": c05_exact, "c01_exact": c01_exact, "c01_modal": c01_modal, "c19_geo": c19_geo, "c15_gating": c15_gating, "c15_poser": c15_poser, "c11_plscf_findmin": c11_plscf_findmin, "c11_mpe": c11_mpe, "c06_fdd": c06_fdd, "c20_plots": c20_plots, "c18_indicators": c18_indicators, "c13_sdest": c13_sdest, "c04_preger": c04_preger, "c03_split": c03_split, "c14_sequences": c14_sequences, "c16_dialog": c16_dialog, "c02_merge": c02_merge, "c09_run": c09_run, "c10_run": c10_run, "c10_fn": c10_fn}


def main():
    name = sys.argv[1]
    inp = json.load(sys.stdin)
    try:
        out = DRIVERS[name](inp)
    except Exception as e:      # noqa: BLE001
        import traceback
        out = {"reproduced": None, "detail": "driver crashed: " + traceback.format_exc()[-1500:]}
    print(json.dumps(out))


if __name__ == "__main__":
    main()
