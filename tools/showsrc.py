#!/usr/bin/env python3
"""Print functions/methods of a repo module without docstrings (reading aid)."""
import ast,sys
path=sys.argv[1]; only=set(sys.argv[2:])
src=open(path).read(); t=ast.parse(src); lines=src.split('\n')
def show(n,prefix=""):
    body=n.body
    start=body[1].lineno if (isinstance(body[0],ast.Expr) and isinstance(getattr(body[0],'value',None),ast.Constant) and len(body)>1) else body[0].lineno
    print(f"### {prefix}{n.name} (def at {n.lineno})", ast.unparse(n.args))
    for i in range(start-1,n.end_lineno):
        print(f"{i+1}: {lines[i]}")
for n in t.body:
    if isinstance(n,(ast.FunctionDef,)) and (not only or n.name in only):
        show(n)
    if isinstance(n,ast.ClassDef):
        print(f"## class {n.name}({', '.join(ast.unparse(b) for b in n.bases)}) at {n.lineno}")
        for m in n.body:
            if isinstance(m,ast.FunctionDef) and (not only or m.name in only or n.name in only):
                show(m,n.name+".")
            elif not isinstance(m,(ast.FunctionDef,ast.Expr)):
                print(f"{m.lineno}: {ast.unparse(m)}")
