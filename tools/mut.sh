#!/bin/bash
# usage: mut.sh <file-relative-to-src/pyoma2> <python-regex> <replacement> -- <command...>
# copies the repo source to a scratch tree, applies one substitution (must match exactly once), runs the command with PYOMA2_TREE
set -e
f="$1"; pat="$2"; rep="$3"; shift 4
T=$(mktemp -d /tmp/pyvcmut.XXXXXX)
mkdir -p $T/src && cp -r /repo/src/pyoma2 $T/src/
python3 - "$T/src/pyoma2/$f" "$pat" "$rep" <<'PY'
import re,sys
p,pat,rep=sys.argv[1:4]
s=open(p).read()
n=len(re.findall(pat,s))
if n!=1:
    print(f"pattern matched {n} times",file=sys.stderr); sys.exit(9)
open(p,'w').write(re.sub(pat,rep,s))
PY
PYOMA2_TREE=$T "$@" || true
rm -rf $T
