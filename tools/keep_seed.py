#!/usr/bin/env python3
"""keep_seed.py <seed-id> <worktree> <prop> <needs_to_manifest> <detected_by>: confirm (tests + demo) and record meta, then remove the worktree"""
import json, subprocess, sys
sid, wt, prop, needs, det = sys.argv[1:6]
r = subprocess.run(["python3", "/verif/tools/confirm_seed.py", sid, wt, prop], capture_output=True, text=True)
print(r.stdout[-400:], r.stderr[-300:])
p = f"/verif/seeded/{sid}/meta.json"
m = json.load(open(p)); m["needs_to_manifest"] = needs; m["detected_by"] = det
json.dump(m, open(p, "w"), indent=1)
if m["confirmed"]:
    subprocess.run(["git", "-C", "/repo", "worktree", "remove", "--force", wt])
    print("kept", sid)
