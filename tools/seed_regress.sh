#!/bin/bash
# re-check every kept seed against the current machinery: apply its patch to a scratch worktree of /repo's HEAD, run the
# property's quick check on it, expect exit 1 (a seed whose meta says "neutralised" is expected to stay green)
# usage: tools/seed_regress.sh [jobs]
cd "$(dirname "$0")/.." && V=$PWD
J=${1:-4}
one() {
  d=$1; id=$(basename $d); prop=${id%%_*}
  wt=$(mktemp -d /tmp/seedrg.XXXXXX); rmdir $wt
  git -C /repo worktree add -q --detach $wt HEAD 2>/dev/null || { echo "$id: worktree failed"; return; }
  if (cd $wt && git apply $d/patch.diff 2>/dev/null); then
    out=$(PYOMA2_TREE=$wt timeout 1500 ./check $prop --tier quick --no-evidence 2>&1); rc=$?
    how=$(echo "$out" | grep -c "^VIOLATION")
    echo "$id: exit=$rc violations=$how $(echo "$out" | grep -E "^VIOLATION" | head -1 | grep -o "no-failing-input-found")"
  else
    echo "$id: patch does not apply to HEAD"
  fi
  git -C /repo worktree remove --force $wt
}
export -f one; export V
ls -d seeded/*/ | sed 's:/$::' | xargs -P $J -I{} bash -c 'one $V/{}'
