#!/bin/bash
# usage: try_seed.sh <prop> <worktree>: run the property's quick check against a seeded worktree (no evidence written)
cd /verif
PYOMA2_TREE=$2 ./check $1 --tier quick --no-evidence 2>&1 | grep -v "^KNOWN" | tail -${3:-6} | cut -c1-500
echo "exit ${PIPESTATUS[0]}"
