#!/bin/bash
# every stored behaviour-preserving refactoring (harmless/<id>/patch.diff) against EVERY property whose contracts may look at the files it
# touches: expect exit 0 everywhere.  usage: tools/harmless_all.sh [jobs]
cd "$(dirname "$0")/.." && V=$PWD
J=${1:-3}
one() {
  d=$1; id=$(basename $d)
  wt=$(mktemp -d /tmp/harm.XXXXXX); rmdir $wt
  git -C /repo worktree add -q --detach $wt HEAD 2>/dev/null || { echo "$id: worktree failed"; return; }
  if ! (cd $wt && git apply $d/patch.diff 2>/dev/null); then echo "$id: patch does not apply to HEAD"; git -C /repo worktree remove --force $wt; return; fi
  props=""
  files=$(grep '^+++ b/' $d/patch.diff | sed 's:^+++ b/::')
  for f in $files; do case $f in
    src/pyoma2/functions/ssi.py) props="$props C01 C03 C11 C12 C17";;
    src/pyoma2/functions/plscf.py) props="$props C05 C08 C11";;
    src/pyoma2/functions/gen.py) props="$props C02 C03 C09 C10 C18 C19";;
    src/pyoma2/functions/fdd.py) props="$props C04 C06 C08 C13";;
    src/pyoma2/functions/plot.py) props="$props C20";;
    src/pyoma2/algorithms/ssi.py) props="$props C01 C03 C09 C10 C11 C12 C15 C16 C20";;
    src/pyoma2/algorithms/plscf.py) props="$props C04 C05 C09 C10 C11 C13 C15 C16 C20";;
    src/pyoma2/algorithms/fdd.py) props="$props C04 C06 C13 C15 C16 C20";;
    src/pyoma2/support/sel_from_plot.py) props="$props C16";;
    *) props="$props C02 C03 C14 C15";;
  esac; done
  props=$(echo $props | tr ' ' '\n' | sort -u | tr '\n' ' ')
  res=""
  for p in $props; do
    out=$(PYOMA2_TREE=$wt timeout 1500 ./check $p --tier quick --no-evidence 2>&1); rc=$?
    res="$res $p=$rc"
    if [ $rc -ne 0 ]; then echo "   $id under $p: exit $rc :: $(echo "$out" | grep -E '^(VIOLATION|CHECKER-ERROR|UNDECIDED)' | head -2 | cut -c1-220)"; fi
  done
  echo "$id:$res"
  git -C /repo worktree remove --force $wt
}
export -f one; export V
ls -d harmless/*/ | sed 's:/$::' | xargs -P $J -I{} bash -c 'one $V/{}'
