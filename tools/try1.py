import sys, time
sys.path.insert(0, "/verif")
from pyvc.frontend import Repo
from pyvc.contract import REGISTRY, verify, discharge_all
import importlib
for m in sys.argv[1].split(","):
    importlib.import_module("contracts." + m)
repo = Repo()
only = sys.argv[2:] 
for q, lst in REGISTRY.items():
    for k in lst:
        if only and not any(o in k.ident for o in only): continue
        if not getattr(k,'verify_body',True) or getattr(k,'bounded_only',False) or (getattr(k,'thorough_only',False) and '-t' not in sys.argv): continue
        r = verify(k, repo)
        print("==", k.ident, "paths", r.n_paths, "aux", r.n_aux, "infeasible", r.n_infeasible, "obls", len(r.obligations), f"{r.seconds:.2f}s", "ERROR: "+r.error if r.error else "")
        discharge_all(r.obligations)
        for o in r.obligations:
            if o.status != "proved":
                print("   ", o.status, o.oid, o.path, o.meta, f"{o.seconds:.2f}s")
                if o.model is not None and "-m" in sys.argv:
                    print("      model:", str(o.model)[:1500])
        print("   proved", sum(o.status == "proved" for o in r.obligations), "/", len(r.obligations))
