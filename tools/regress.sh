#!/bin/bash
# run every claimed check (quick tier) on the unchanged tree; print one summary line per property
cd /verif
for p in $(python3 -c "import json;print(' '.join(c['property_id'] for c in json.load(open('MANIFEST.json'))['checks']))"); do
  s=$(date +%s)
  out=$(./check $p --tier ${1:-quick} 2>&1); rc=$?
  echo "$p exit=$rc $(( $(date +%s) - s ))s :: $(echo "$out" | tail -1)"
  echo "$out" | grep -E "^(VIOLATION|CHECKER-ERROR|UNDECIDED)" | head -5
done
