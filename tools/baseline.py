#!/usr/bin/env python3
"""Run the repository's test suite and compare with the 75 stable passes of /root/.vp/BASELINE.json."""
import json, subprocess, sys, tempfile, os, xml.etree.ElementTree as ET
b = json.load(open('/root/.vp/BASELINE.json'))
want = set(b['stable_pass'])
with tempfile.TemporaryDirectory() as d:
    x = os.path.join(d, 'j.xml')
    subprocess.run(['/venv/bin/python', '-m', 'pytest', '-ra', '-q', '-p', 'no:cacheprovider', '--timeout=900',
                    '--continue-on-collection-errors', f'--junitxml={x}'], cwd='/repo', capture_output=True)
    passed = set()
    for tc in ET.parse(x).getroot().iter('testcase'):
        if not any(ch.tag in ('failure', 'error', 'skipped') for ch in tc):
            passed.add(f"{tc.get('classname')}::{tc.get('name')}")
missing = sorted(want - passed)
print(f"baseline: {len(want & passed)}/{len(want)} stable tests pass; newly passing: {len(passed - want)}")
for m in missing:
    print("  MISSING", m)
sys.exit(1 if missing else 0)
