#!/usr/bin/env python3
"""Regenerate MANIFEST.json from the table below (kept valid against the schema)."""
import json, sys
ids = [json.loads(l)['id'] for l in open('/verif/properties.jsonl')]
CLAIMS = {
 "C09": dict(
   text="Deductive proof, for all pole tables / thresholds / NaN patterns and unbounded table sizes, that the hard-criteria "
        "helpers (HC_conj, HC_damp, HC_phi_comp, HC_cov, applymask) meet functional contracts taken from the property and that the "
        "four run() methods, executed from the real source after the identification kernels, leave exactly the poles satisfying every "
        "enabled criterion, unchanged, with one NaN pattern across all tables. Verification conditions are generated from the AST of "
        "/repo's current source on every run and discharged by z3; refutations are replayed on the real code.",
   note="Trusted: the pyvc executor and its NumPy models; havoc contracts for the identification kernels at run()'s call sites "
        "(any tables of one shape and one NaN pattern); MPC/MPD as abstract functions of the mode-shape vector (values: C18); reals for floats.",
   design="6 (C09)", technique="contract-based deductive verification: AST->VC generation (pyvc) + z3, loop invariants for symbolic loops, native replay"),
 "C10": dict(
   text="Deductive proof that gen.SC_apply, executed from the real source with inductive invariants for its two symbolic loops, "
        "returns exactly the property's label function (order window, not-first-order, retained pole, non-empty previous order, "
        "nearest previous pole by frequency, three strict relative tolerances) for every table shape, NaN pattern and tolerance triple, "
        "and that the four run() methods hand it the filtered tables and the column window that corresponds to [ordmin, ordmax] in model orders.",
   note="Trusted: pyvc executor and NumPy models; gen.MAC as an abstract function in [0,1] of the two vectors (value: C18); havoc contracts of "
        "the identification kernels at run()'s call sites; step == 1 (columns = model orders) as in the property's quantifier.",
   design="6 (C10)", technique="contract-based deductive verification: AST->VC generation (pyvc) + z3, loop invariants, native replay"),
 "C12": dict(
   text="Deductive proof from the real source of ssi.build_hank, for symbolic channel/reference counts, block rows and record length: "
        "block/channel layout ((br+1) x l rows, (br+1) x r columns as structured indices, no div/mod), every entry of the covariance "
        "matrices is weight * sum of products Y[a, s+lag+t]*Yref[b, s+t] over one window with the single lag i+j+1 (cov_mm) / br+i-j with the "
        "reference leading (cov_R), the weight being non-zero and independent of data, channel and summation index (hence bilinear, uniform); "
        "for 'dat' the matrix is the pinned block of the transposed R factor of qr([Yp;Yf]^T) with the split exactly after the past-reference rows; "
        "the raising paths. A function body that leaves the supported subset is checked by a bounded stand-in (labelled bounded, never counted as proved).",
   note="Trusted: pyvc executor, NumPy models, lazy-sum calculus with its congruence lemma, qr as an uninterpreted kernel, the LQ projection lemma; reals for floats.",
   design="6 (C12)", technique="contract-based deductive verification: AST->VC generation (pyvc) + z3 over structured block indices and lazy sums; bounded concrete stand-in only when the body is unsupported"),
 "C02": dict(
   text="Deductive proof from the real source that gen.MSF returns Re(b(phi2,phi1)/b(phi1,phi1)) (non-conjugated form; loop invariant for the mode loop), "
        "that gen.merge_mode_shapes - under the property's hypothesis that every setup is the global shape restricted to its sensors times a non-zero real factor per "
        "setup and mode - returns c[0,k]*G in the row order references (first setup's listed order) then each setup's roving channels in ascending order, for symbolic sensor "
        "counts, reference positions/orders, mode counts and factors (number of setups enumerated: 2, 3), and that merge_results groups algorithms by position, passes the per-setup "
        "shapes in setup order with the stored reference lists, and reports arithmetic means and population std / mean.",
   note="Trusted: pyvc executor and NumPy models, lazy-sum calculus, np.delete as complement enumeration; reals for floats; complex shapes need a non-vanishing non-conjugated reference self-product.",
   design="6 (C02)", technique="contract-based deductive verification: AST->VC generation (pyvc) + z3 (NRA over lazy sums), loop invariants, native replay"),
 "C16": dict(
   text="Deductive proof, on selection lists of arbitrary (symbolic) length and arbitrary pole tables / grids, that every handler of the dialog "
        "(key press/release, on_click_SSI, on_click_FDD, get_closest_pole, get_closest_freq, sort_selected_poles) equals a functional specification taken from "
        "the property: the modifier gates every action; a pick selects the retained pole nearest in frequency at the nearest order and inserts frequency and order "
        "under ONE sorting permutation; deselect-one removes the same position from both lists; deselect-nearest removes the entry nearest in frequency from both lists; "
        "no other state changes. Because each operation's contract holds from every state, the history clause follows by induction over the action sequence. "
        "__init__ hands over exactly the final lists and the three mpe_from_plot methods pass those lists (frequencies and per-mode orders) to the extraction routine.",
   note="Trusted: pyvc executor, argsort/argmin/nanargmin contracts, list lemmas on permutations, Tk/matplotlib event delivery, plot_* abstracted (syntactic frame check), extraction routines havoc'ed at the hand-over (C11).",
   design="6 (C16)", technique="contract-based deductive verification: per-operation contracts + representation invariant (pyvc AST->VC, z3), native replay against a list-of-pairs model"),
 "C14": dict(
   text="Deductive proof of per-operation contracts over a representation invariant for SingleSetup (Inv_S: dt=1/fs, Ndat/Nch = array extents, T = Ndat*dt) and "
        "MultiSetup_PreGER (Inv_M: data = reference/roving split of datasets, per-dataset counts and durations): __init__, decimate_data (every documented keyword combination), "
        "detrend_data, filter_data (current fs), rollback, add_algorithms are executed from the real source with scipy as uninterpreted pure functions; each starts from an arbitrary "
        "state satisfying the invariant, yields exactly the scipy term of the property on the current data and re-establishes the invariant, so the claim for every history follows "
        "by induction. Frame: no array reachable from the pre-state is written in place; the initial copies stay the same objects. gen.pre_multisetup is proved against the "
        "enumeration specification (listed order for references, ascending for roving).",
   note="Trusted: pyvc executor, scipy signatures/shape behaviour as uninterpreted functions, deepcopy, enumeration lemmas. One open finding (duration T after decimation) is pinned by existing tests and listed in known_findings.jsonl.",
   design="6 (C14)", technique="contract-based deductive verification: representation invariant + per-operation contracts (pyvc AST->VC, z3), native replay of histories against a scipy model"),
 "C13": dict(
   text="Deductive proof from the real source of fdd.SD_est, for symbolic channel counts, record length, nxseg, overlap and dt, that the result is exactly the prescribed scipy "
        "estimate: 'per' = csd(x = data rows, y = reference rows (pairing/conjugation), fs = 1/dt, Hann, nperseg = nxseg, noverlap = nxseg*pov) returned unchanged with scipy's grid; "
        "'cor' = boxcar csd of half segments zero-padded to nxseg -> irfft -> one-sided exponential window (1 % at the end) -> rfft with the grid k/(dt*nxseg) and nxseg//2+1 lines; "
        "and that FDD.run / pLSCF.run hand it data.T, dt, nxseg, method and pov unchanged. Bilinearity/gain^2 follow from csd's bilinearity.",
   note="Proof modulo scipy: csd, rfft, irfft, windows.exponential are uninterpreted functions of their operands and parameters (assumption A6 says what csd is); reals for floats.",
   design="6 (C13)", technique="contract-based deductive verification: AST->VC generation (pyvc) + z3 with foreign kernels as uninterpreted functions; native replay against direct scipy calls"),
 "C04": dict(
   text="Deductive proof from the real source of fdd.SD_PreGER (2 setups enumerated; reference/roving counts, lengths, nxseg, pov, fs symbolic; loop invariant over the frequency lines): "
        "the frequency vector is the estimator's, the reference block is the mean over setups of the reference auto/cross spectra, each roving block is that setup's "
        "roving-to-reference spectra times the inverse of its own reference block times the mean block, stacked references first then setups in order, every spectrum estimated by SD_est "
        "with the caller's nxseg, overlap and estimator; and FDD_MS/EFDD_MS/pLSCF_MS.run forward data, fs, nxseg, method and pov.",
   note="Proof modulo scipy/numpy.linalg (uninterpreted kernels, matrix-term level) and modulo the SD_est contract proved under C13; the identical-reference corollary is a lemma over this structure.",
   design="6 (C04)", technique="contract-based deductive verification: AST->VC generation (pyvc) + z3, matrix terms with an extensionality lemma, loop invariant; native replay"),
 "C18": dict(
   text="Deductive proof over the reals, for shapes of arbitrary (symbolic) length: gen.MAC (vectors and matrices, loop invariants), gen.MCF, gen.MPC, gen.MSF equal their defining "
        "formulas over lazy sums, executed from the real source; the property's clauses are lemma obligations over those formulas - MAC, MCF, MPC in [0,1], MAC table orientation and "
        "MAC(A,X) = MAC(X,A)^T, invariance of MAC/MCF/MPC under any non-zero complex factor, MAC = 1 / MCF = 0 / MPC = 1 on collinear shapes, MSF(v, c v) = c; for gen.MPD the real code's "
        "result is proved finite and in [0, pi/2] for every non-zero shape (zero components included) and equal to 0 on complex multiples of real vectors.",
   note="Trusted: Cauchy-Schwarz for sums, svd/eigvals/cov contracts, arccos/sqrt as axiomatised uninterpreted functions, lazy-sum calculus. Reals for floats. One open finding (MPC of a "
        "constant real vector times a complex number is NaN) is listed in known_findings.jsonl.",
   design="6 (C18)", technique="contract-based deductive verification: functional contracts + lemma obligations (pyvc AST->VC, z3 NRA with staged universal lemmas)"),
 "C20": dict(
   text="Deductive proof from the real source of plot.stab_plot (hide_poles on/off, with/without covariance error bars, with/without frequency limits), plot.cluster_plot and "
        "plot.CMIF_plot ('all' and integer nSv; loop invariant over the recorded calls) for symbolic table shapes: the Axes receive exactly one stable-marker sequence with, for "
        "p = c*n_rows + r, x[p] = Fn[r,c] where the pole is labelled stable else NaN and y[p] = c (the column index extraction accepts; Xi[r,c] for the cluster diagram), one unstable "
        "sequence for label 0 when poles are shown and none otherwise, error-bar widths paired with their poles, and one curve per requested singular value over the whole grid equal to "
        "10 log10(S_val[k,k,:]/max S_val[0,0,:]); ValueError iff too many curves are requested. The classes' plot methods pass the result tables and run parameters (call signatures checked).",
   note="Proof modulo matplotlib (A10); step == 1 scope for the order axis; reals for floats.",
   design="6 (C20)", technique="contract-based deductive verification: effect-recorder contracts on matplotlib Axes (pyvc AST->VC, z3 incl. integer division), native replay reading back Agg artists"),
 "C06": dict(
   text="Deductive proof from the real source: fdd.SD_svalsvec (loop invariant over the lines) stores, for every line, sqrt(sigma) on the diagonal and conj(U^T) of the SVD of the spectral "
        "matrix at that line (values non-negative, non-increasing); fdd.FDD_mpe (loop invariant over the selected frequencies, staged proof steps) returns for each selected frequency the "
        "grid line inside [f-DF, f+DF] at which sigma1/sigma2 is largest (first such line) and the stored first singular vector at that line divided by its largest-magnitude component, "
        "for symbolic channel counts, grid length and spacing, bands and spectra; the band is non-empty under the property's preconditions; FDD.mpe hands the stored tables to it.",
   note="Proof modulo numpy.linalg.svd (uninterpreted kernel with its contract); reals for floats; uniform ascending grid, sigma2 > 0.",
   design="6 (C06)", technique="contract-based deductive verification: loop invariants + hand-instantiated reduction contracts (pyvc AST->VC, z3), native replay on random spectra"),
 "C11": dict(
   text="Deductive proof from the real source of ssi.SSI_mpe (one order; one order per mode; one order with covariances) and plscf.pLSCF_mpe (one order; one order per mode), "
        "with inductive invariants for the request loops over symbolic table shapes, request counts, orders and rtol: the outputs are exactly, for each requested frequency in order, "
        "the retained pole of its order column nearest in frequency (first minimiser), kept iff |pole - f_j| <= 1e-8 + rtol*|f_j| for THAT request, with frequency, damping, mode shape "
        "and covariances all read from that one table cell; order_out echoes the order(s). SSIdat.mpe / pLSCF.mpe hand the stored tables, the request list, order and rtol to the routine "
        "and store each returned parameter under its own name. Automatic order selection ('find_min') is outside the verifier's reach: a bounded stand-in (seeded crafted tables on the real "
        "functions) is labelled bounded and not counted as proved.",
   note="Trusted: pyvc executor, nanargmin contract, list-enumeration lemma A7, isclose formula; reals for floats. pLSCF_mpe's find_min branch has five open findings (known_findings.jsonl).",
   design="6 (C11)", technique="contract-based deductive verification: loop invariants over lockstep list appends (pyvc AST->VC, z3); bounded native stand-in for find_min only"),
 "C15": dict(
   text="Deductive proof of per-operation contracts executed from the real source: BaseAlgorithm._pre_run raises ValueError iff data, fs or run parameters are missing and changes nothing; "
        "BaseSetup.run_by_name refuses unknown names (KeyError), refuses behind a closed gate, propagates run()'s exception, and in all three cases stores nothing; otherwise stores exactly "
        "run()'s value in the named algorithm and touches nothing else (other algorithms, the shared data, the registry order); run_all is that, in registration order; BaseSetup.mpe dispatches "
        "to the named algorithm with the caller's arguments; mpe and mpe_from_plot of FDD, EFDD/FSDD, SSIdat/SSIcov and pLSCF raise before storing anything when no run preceded; "
        "MultiSetup_PoSER.__init__ accepts iff >= 2 setups, every setup has algorithms, class lists identical in order, one name per algorithm, every algorithm run and extracted - ValueError otherwise, "
        "no other exception - and keeps setups, names and reference indices. Which inputs are missing, class identities, run/mpe states and name count are symbolic; setup and algorithm counts enumerated. "
        "run() bodies of all seven classes pass a syntactic frame check (isolation). Persistence and bit-identical reruns are covered only by a bounded stand-in (labelled bounded).",
   note="Trusted: pyvc executor, pydantic/dict behaviour, havoc contracts of run()/mpe at BaseSetup's call sites, A4 for the numerical kernels. Enumerated sizes: see assumptions.",
   design="6 (C15)", technique="contract-based deductive verification: per-operation contracts with symbolic optional fields over enumerated container sizes (pyvc AST->VC, z3), syntactic frame checks, bounded native stand-in for pickle"),
 "C19": dict(
   text="Deductive proof from the real source of gen.flatten_sns_names for the list forms: a list of names is returned as it is; a list of lists with reference indices gives REF1..REFk "
        "(k = references of the first setup) followed by every setup's names at non-reference positions in listed order (loop invariants over symbolic list lengths and reference "
        "positions, setups enumerated: 2); AttributeError without reference indices; ValueError for other types. Deductive proof, over abstract tables (shapes, emptiness, labels and provenance symbolic; sheet layouts enumerated), of the validation skeleton of "
        "gen.check_on_geo1 and gen.check_on_geo2: ValueError exactly for the malformed table sets of the statement (missing required or unknown sheet, wrong column counts, mismatched shapes or row labels, sensor names absent from "
        "the coordinate index / the mapping cells, constraint columns that are not sensors, constraint names the mapping never uses) and no other exception, every optional sheet may be omitted; coordinates and directions are "
        "the reindex of their sheets by the sensor names, line / surface sheets pass through sub(1), background nodes do not, empty or omitted sheets give None, constraints are re-ordered to one column per sensor with zero "
        "columns added, an omitted sign sheet becomes +1. What those pandas operations compute, and everything else that goes through pandas - "
        "re-ordering of coordinates/directions to the sensor order, zero-based line/surface indices, None for omitted sheets, mapping of a mode shape to points, def_geo1/def_geo2 with the "
        "documented argument forms - is outside the verifier's reach and is checked by a bounded stand-in on crafted table sets with single-fault corruptions (labelled bounded, not counted as proved).",
   note="Mixed level: proof for the name order and the validation / data-flow skeleton over abstract tables; bounded for pandas' own semantics and the mapping values. Two defects found by the stand-in were repaired in /repo.",
   design="6 (C19)", technique="contract-based deductive verification (pyvc AST->VC, z3) for flatten_sns_names; bounded native stand-in for the pandas-dependent functions"),
 "C01": dict(
   text="Deductive proof from the real source, with the eigen-decomposition as an uninterpreted kernel, of ssi.ac2mp (poles = log(eigenvalue)/dt, frequency = |lambda|/2pi, damping = -Re lambda/|lambda|, "
        "shape i = C v_i divided by its largest-magnitude component, that component reported as exactly 1) for symbolic state dimension and channel count, and of ssi.SSI_poles (loop invariant over symbolic "
        "ordmax; step 1, no uncertainty): column c of the frequency, damping, shape and pole tables holds, row by row, the parameters of ONE eigenvalue of the order-c model, complex shapes kept complex, NaN below and in "
        "column 0; and of both realisation routines at the matrix-term level (ssi.SSI_fast without uncertainty, ssi.SSI; loop invariants over symbolic ordmax, block rows, channel and reference counts): "
        "Obs = U[:, :n] sqrt(diag sigma), the order-ii state matrix is the solve between Obs without its LAST block row and Obs without its FIRST block row - a shift by exactly one block of l output "
        "rows - and C is the first block row. The clause 'order 2m contains exactly the system's m conjugate pairs, and extraction returns them' is a numerical theorem about SVD/QR and is checked only by a bounded stand-in on noise-free "
        "synthetic systems through SingleSetup (labelled bounded, not counted as proved).",
   note="Mixed level: proof for the modal-parameter formulas and the table layout, bounded for exact recovery. Trusted: eig kernel, complex log / sqrt axioms, argmax contract.",
   design="6 (C01)", technique="contract-based deductive verification (pyvc AST->VC, z3; kernels uninterpreted, loop invariant over the order loop); bounded native stand-in for the exact-recovery theorem"),
 "C05": dict(
   text="Deductive proof from the real source of plscf.rmfd2ac (block companion form: first block row -A_n^-1 A_{n-1..0} then a zero block, shifted identity below, C = B_i - B_n A_n^-1 A_i; loop invariant over symbolic "
        "block count and channel counts), of plscf.ac2mp_poly for both estimators (poles = log(eigenvalue)/dt, roots with positive real part blanked in the pole, frequency, damping and shape tables, frequency and damping "
        "formulas, shapes normalised to a largest component of exactly 1) and of plscf.pLSCF_poles (orders enumerated 2 and 3: one companion form and one eigen-analysis per order from that order's own coefficient blocks, "
        "column c = the poles of order c+1, NaN padding below, same NaN pattern in all tables). That pLSCF's normal equations reproduce the coefficients of an exactly rational spectrum is a least-squares theorem checked only by a "
        "bounded stand-in (labelled bounded, not counted as proved).",
   note="Mixed level: proof for companion form, pole map, blanking and table layout; bounded for coefficient recovery. Trusted: eig/solve kernels, complex log / sqrt axioms, lazy-sum calculus.",
   design="6 (C05)", technique="contract-based deductive verification (pyvc AST->VC, z3; kernels uninterpreted, structured block indices, loop invariants); bounded native stand-in for coefficient recovery"),
 "C03": dict(
   text="Deductive proof from the real source of gen.pre_multisetup (the reference/roving split made when a PreGER object is built and after every preprocessing step): every dataset is split into "
        "'ref' = the listed reference channels in the listed order and 'mov' = the remaining channels in ascending order, every channel's samples intact (enumeration lemmas; datasets enumerated: 2; channel counts, "
        "reference lists and lengths symbolic). In the thorough tier additionally the structure of ssi.SSI_multi_setup at the matrix-term level (2 setups, everything else symbolic, about ten minutes): "
        "one Hankel matrix per setup of [references; roving] with that setup's references, reference / roving rows of each observability matrix selected with that setup's own stride, "
        "roving part re-based on the first setup's reference block, global observability matrix interleaved per block as references then each setup's roving rows in setup order, realisation by the "
        "one-block shift. The identification clause (multi-setup SSI returns the global frequencies, damping and shapes - references first, then each setup's roving sensors - independent of "
        "per-setup gains) is a numerical theorem and is checked only by a bounded stand-in on noise-free multi-setup data through MultiSetup_PreGER (labelled bounded, not counted as proved).",
   note="Mixed level: proof for the split clause, bounded for the identification clause.",
   design="6 (C03)", technique="contract-based deductive verification (pyvc AST->VC, z3) for the split; bounded native stand-in for the identification theorem"),
 "C17": dict(
   text="Factor clause: deductive proof from the real source of ssi.build_hank(method='cov_mm', calc_unc=True), with a loop invariant over a symbolic number of data blocks, that the "
        "covariance factor's column k is exactly the COLUMN-STACKED (vec(H_k) - vec(H)) / sqrt(nb (nb - 1)) with H_k the lagged-product sum over data block k divided by the block length - "
        "the estimator of H on that block, i.e. on the scale of H (lemma: the two 1/sqrt(N) weights and the factor N cancel) - with the same lags and window offsets as the Hankel matrix "
        "(block [k Nb, (k+1) Nb) clamped to the available columns). The property's two demands (scale, vectorisation) are separate named obligations; both failed on the tree as found and "
        "were repaired in /repo (6ca5341, dc75618). The main clause (reported variance = first-order propagation of the factor, at every model order, summed over the factor's columns) is a "
        "finite-difference statement about the floating-point pipeline: bounded stand-in only; it failed on the tree as found (SSI_fast used the columns of V^T as right singular vectors, "
        "repaired in 9cb106e) and holds now on every guarded case tried.",
   note="Mixed level: proof for the factor clause, bounded (finite differences) for the propagation clause. Three defects found and repaired (known_findings.jsonl: fixed).",
   design="A.6 / 6 (C17)", technique="contract-based deductive verification of the factor (pyvc AST->VC, z3: lazy sums over data blocks, structured index splitting, loop invariant); bounded finite-difference stand-in for the propagation"),
 "C08": dict(
   text="Deductive proof, at the modal-parameter stage shared by all SSI and pLSCF variants (ssi.ac2mp, plscf.ac2mp_poly executed from the real source, eigen-decomposition uninterpreted), of two clauses: every "
        "reported shape is C v_i divided by its largest-magnitude component, which is therefore reported as exactly 1; and declaring the same samples at kappa times the sampling frequency (dt -> dt/kappa, kappa > 0 symbolic) "
        "multiplies every pole and every frequency by kappa and leaves every damping ratio unchanged. The whole-pipeline clauses - gain invariance, channel-permutation equivariance and time-unit covariance of the complete "
        "pole tables for FDD, EFDD, FSDD, SSIcov, SSIdat and pLSCF - are relational statements over floating-point kernels and are checked only by a metamorphic bounded stand-in through SingleSetup (labelled bounded, "
        "not counted as proved).",
   note="Mixed level: proof for normalisation and the time-unit law of the pole map; bounded for the pipeline-level covariances. The scaling-law checker of DESIGN section 3 was not built.",
   design="A.6 / 3", technique="contract-based deductive verification (relational lemma obligations over the ac2mp / ac2mp_poly contracts, z3 NRA) + metamorphic bounded stand-in"),
}
NOT_APPLICABLE = {
 "C07": "accuracy tolerance (2.5 % / 15 %) of a floating-point FFT/peak-picking/regression pipeline: no contract over exact reals can state or discharge it (DESIGN.md section 8); its scale-invariance clause is covered under C08",
}
checks = []
_HANDOVER = (" The algorithm classes' run() methods are under hand-over contracts as well (contracts/handover.py): the kernels receive data.T, the listed "
             "reference rows in the listed order, block rows, method, orders and dt, and their outputs are chained and stored under their own names; "
             "build_hank's contracts (including the frame clause that the records handed in are left unchanged) are part of this check.")
for _p in ("C01", "C03", "C12"):
    CLAIMS[_p]["text"] += _HANDOVER
CLAIMS["C05"]["text"] += (" pLSCF.run / pLSCF_MS.run are under hand-over contracts (contracts/handover.py): the estimator's spectrum, dt, ordmax and the basis-function "
                          "sign that belongs to the estimator (library convention, from the source) reach plscf.pLSCF, the fitted model reaches pLSCF_poles and is stored.")

for i in ids:
    if i in CLAIMS:
        c = CLAIMS[i]
        checks.append({"property_id": i, "quick_cmd": f"./check {i} --tier quick", "thorough_cmd": f"./check {i} --tier thorough",
                       "evidence_file": f"evidence/{i}.json", "replay_cmd_template": "./check --replay {path}", "engine": "pyvc",
                       "level_claimed": {"category": "proof", "text": c["text"], "design_ref": c["design"]},
                       "level_note": c["note"], "technique": c["technique"]})
na = [{"property_id": i, "reason": NOT_APPLICABLE.get(i, "check not built yet in this round (contracts planned in DESIGN.md section 6); not claimed rather than claimed with a weaker technique")}
      for i in ids if i not in CLAIMS]
m = {"version": 1,
     "setup_cmd": "python3-vt -c 'import z3' && /venv/bin/python -c 'import pyoma2' && test -x /usr/bin/cvc5",
     "hooks": {"guard": "PYOMA2_VERIF", "enable": "no hooks: the checker parses /repo/src/pyoma2 from outside (sidecar contracts in /verif/contracts); nothing in /repo is instrumented, so there is nothing to enable",
               "baseline_off_cmd": "cd /repo && /venv/bin/python -m pytest -ra -q -p no:cacheprovider --timeout=900 --continue-on-collection-errors",
               "source_commits": [], "add_only": True},
     "engines": [{"name": "pyvc", "path": "pyvc/", "serves_properties": sorted(CLAIMS),
                  "kind_free_text": "verification-condition generator over Python's ast for the real pyoma2 source + sidecar contracts; z3 (python3-vt) primary, cvc5 for undecided queries; native replay of counter-models under /venv/bin/python"}],
     "checks": checks,
     "notes": "Exit codes of ./check: 0 proved (KNOWN-FINDING lines possible), 1 VIOLATION, 2 undecided obligation, 3 checker error. PYOMA2_TREE overrides the tree (default /repo).",
     "not_applicable": na}
json.dump(m, open('/verif/MANIFEST.json', 'w'), indent=1)
print("claimed:", sorted(CLAIMS), "n/a:", len(na))
