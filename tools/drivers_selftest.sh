#!/bin/bash
# run EVERY native driver with its default inputs on the unchanged tree: fallback drivers are otherwise only executed when a contract leaves
# the verifier's subset, so a stale one would go unnoticed until it raises a false alarm.  Expect "reproduced": false everywhere, except the
# drivers that carry the open findings (c11_plscf_findmin; c18_indicators excludes its finding itself).
cd /verif
for d in $(PYTHONPATH=/repo/src /venv/bin/python -c "import sys; sys.path.insert(0,'/verif/replay'); import drivers; print(' '.join(sorted(drivers.DRIVERS)))"); do
  inp='{}'
  case $d in c09_run|c10_run) inp='{"cls":"SSIdat"}';; c17_factor) inp='{"claim":"form"}';; esac
  out=$(echo "$inp" | PYTHONPATH=/repo/src TQDM_DISABLE=1 MPLBACKEND=Agg OMP_NUM_THREADS=2 OPENBLAS_NUM_THREADS=2 timeout 1800 /venv/bin/python replay/drivers.py $d 2>&1 | tail -1)
  r=$(echo "$out" | python3 -c "import sys,json; d=json.loads(sys.stdin.read()); print(d.get('reproduced'), '|', str(d.get('detail'))[:160])" 2>/dev/null || echo "unparsable: ${out:0:160}")
  echo "$d: $r"
done
