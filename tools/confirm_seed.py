#!/usr/bin/env python3
"""confirm_seed.py <seed-id> <worktree> <property>: re-confirm a seeded change made by a sub-agent
(baseline tests still pass with it; the demonstration fails with it and passes without it), then store it
under /verif/seeded/<seed-id>/ (patch.diff, demo, meta.json skeleton)."""
import json, os, shutil, subprocess, sys, tempfile, xml.etree.ElementTree as ET
sid, wt, prop = sys.argv[1:4]
env = dict(os.environ, PYTHONPATH=f"{wt}/src", MPLBACKEND="Agg")
patch = subprocess.run(["git", "-C", wt, "diff", "--", "src"], capture_output=True, text=True).stdout
assert patch.strip(), "no change in worktree"
b = json.load(open('/root/.vp/BASELINE.json'))
want = set(b['stable_pass'])
def run_tests():
    with tempfile.TemporaryDirectory() as d:
        x = os.path.join(d, 'j.xml')
        subprocess.run(['/venv/bin/python', '-m', 'pytest', '-q', '-p', 'no:cacheprovider', '--timeout=900',
                        '--continue-on-collection-errors', f'--junitxml={x}'], cwd=wt, env=env, capture_output=True)
        passed = set()
        for tc in ET.parse(x).getroot().iter('testcase'):
            if not any(ch.tag in ('failure', 'error', 'skipped') for ch in tc):
                passed.add(f"{tc.get('classname')}::{tc.get('name')}")
    return passed
passed = run_tests()
missing = sorted(want - passed)
print(f"tests with change: {len(want & passed)}/{len(want)} baseline tests pass", missing[:5])
demo = [f for f in os.listdir(wt) if f.startswith("demo_") and f.endswith(".py")]
assert demo, "no demo"
demo = demo[0]
def run_demo():
    p = subprocess.run(['/venv/bin/python', demo], cwd=wt, env=env, capture_output=True, text=True, timeout=1800)
    return p.returncode, (p.stdout + p.stderr)[-600:]
rc_with, out_with = run_demo()
subprocess.run(["git", "-C", wt, "apply", "-R", "-"], input=patch, text=True, check=True)
try:
    rc_without, out_without = run_demo()
finally:
    subprocess.run(["git", "-C", wt, "apply", "-"], input=patch, text=True, check=True)
print("demo with change: exit", rc_with, "| without: exit", rc_without)
ok = (not missing) and rc_with != 0 and rc_without == 0
dst = f"/verif/seeded/{sid}"
os.makedirs(dst, exist_ok=True)
open(f"{dst}/patch.diff", "w").write(patch)
shutil.copy(os.path.join(wt, demo), f"{dst}/{demo}")
meta = {"id": sid, "property": prop, "confirmed": ok, "base_commit": subprocess.run(["git", "-C", wt, "rev-parse", "HEAD"], capture_output=True, text=True).stdout.strip(),
        "what_ran": {"baseline_tests_with_change": f"{len(want & passed)}/{len(want)} stable tests pass (PYTHONPATH={wt}/src pytest)",
                     "demo_with_change_exit": rc_with, "demo_without_change_exit": rc_without,
                     "demo_output_with_change_tail": out_with[-400:]},
        "needs_to_manifest": "", "detected_by": ""}
if os.path.exists(f"{dst}/meta.json"):
    old = json.load(open(f"{dst}/meta.json"))
    for k in ("needs_to_manifest", "detected_by"):
        meta[k] = old.get(k, "")
json.dump(meta, open(f"{dst}/meta.json", "w"), indent=1)
print("confirmed" if ok else "NOT CONFIRMED", "->", dst)
