#!/usr/bin/env python3
"""keep_harmless.py <id> <worktree> <property> [note]: confirm a behaviour-preserving refactoring made by a sub-agent (baseline tests pass with
it; its own equivalence script exits 0), run the property's quick check on it and store everything under /verif/harmless/<id>/ (patch.diff,
equivalence script, meta.json with the check's verdict).  The expected verdict is exit 0 (possibly with BOUNDED-FALLBACK lines)."""
import json, os, shutil, subprocess, sys, tempfile, xml.etree.ElementTree as ET
hid, wt, prop = sys.argv[1:4]
note = sys.argv[4] if len(sys.argv) > 4 else ""
env = dict(os.environ, PYTHONPATH=f"{wt}/src", MPLBACKEND="Agg")
patch = subprocess.run(["git", "-C", wt, "diff", "--", "src"], capture_output=True, text=True).stdout
assert patch.strip(), "no change in worktree"
want = set(json.load(open('/root/.vp/BASELINE.json'))['stable_pass'])
with tempfile.TemporaryDirectory() as d:
    x = os.path.join(d, 'j.xml')
    subprocess.run(['/venv/bin/python', '-m', 'pytest', '-q', '-p', 'no:cacheprovider', '--timeout=900', '--continue-on-collection-errors', f'--junitxml={x}'],
                   cwd=wt, env=env, capture_output=True)
    passed = {f"{tc.get('classname')}::{tc.get('name')}" for tc in ET.parse(x).getroot().iter('testcase')
              if not any(ch.tag in ('failure', 'error', 'skipped') for ch in tc)}
missing = sorted(want - passed)
eq = [f for f in os.listdir(wt) if f.startswith("equiv_") and f.endswith(".py")]
rc_eq, out_eq = None, ""
if eq:
    p = subprocess.run(['/venv/bin/python', eq[0]], cwd=wt, env=dict(os.environ, MPLBACKEND="Agg"), capture_output=True, text=True, timeout=3000)
    rc_eq, out_eq = p.returncode, (p.stdout + p.stderr)[-500:]
chk = subprocess.run(["./check", prop, "--tier", "quick", "--no-evidence"], cwd="/verif", env=dict(os.environ, PYOMA2_TREE=wt), capture_output=True, text=True)
lines = [ln for ln in chk.stdout.splitlines() if ln.startswith(("VIOLATION", "CHECKER-ERROR", "BOUNDED-FALLBACK", "UNDECIDED")) or ln.startswith(prop + ":")]
dst = f"/verif/harmless/{hid}"
os.makedirs(dst, exist_ok=True)
open(f"{dst}/patch.diff", "w").write(patch)
if eq:
    shutil.copy(os.path.join(wt, eq[0]), f"{dst}/{eq[0]}")
meta = {"id": hid, "property": prop, "base_commit": subprocess.run(["git", "-C", wt, "rev-parse", "HEAD"], capture_output=True, text=True).stdout.strip(),
        "baseline_tests_with_change": f"{len(want & passed)}/{len(want)}", "missing_tests": missing[:5],
        "equivalence_script_exit": rc_eq, "equivalence_output_tail": out_eq[-300:],
        "check_exit": chk.returncode, "check_lines": [ln[:300] for ln in lines][:12], "note": note}
json.dump(meta, open(f"{dst}/meta.json", "w"), indent=1)
print(f"{hid}: tests {meta['baseline_tests_with_change']}, equivalence exit {rc_eq}, check exit {chk.returncode}")
for ln in lines[:8]:
    print("   ", ln[:260])
