"""Symbolic executor for the Python subset used by pyoma2 (DESIGN.md 2.1-2.3).

Executes the *real* `ast.FunctionDef` nodes read from the repository tree.  Loops with a symbolic
trip count need a loop specification (closed form of the loop-carried state after k iterations)
from the sidecar contracts; initialisation, preservation and use are separate proof paths.
"""
from __future__ import annotations

import ast

import z3

from . import npmodel as N
from . import sym
from .core import PathEnd, PathInfeasible, PyRaise, Unsupported, cur, exc_isinstance
from .frontend import ClassInfo, FuncInfo, Repo
from .sym import (Arr, C, F, Obj, Opaque, Poison, Seq, SymStr, is_int, is_pyint, is_scalar, simp, zi)

MAX_UNROLL = 48


# ----------------------------------------------------------------------------------
# reference values
# ----------------------------------------------------------------------------------


class ModRef:
    def __init__(self, name):
        self.name = name

    def __repr__(self):
        return f"<module {self.name}>"


class ForeignFn:
    def __init__(self, name):
        self.name = name

    def __repr__(self):
        return f"<foreign {self.name}>"


class RepoFn:
    def __init__(self, fi: FuncInfo):
        self.fi = fi


class RepoCls:
    def __init__(self, ci: ClassInfo):
        self.ci = ci


class BuiltinFn:
    def __init__(self, name):
        self.name = name


class TypeRef:
    def __init__(self, name):
        self.name = name

    def __repr__(self):
        return f"<type {self.name}>"


class BoundMethod:
    def __init__(self, obj, fi: FuncInfo):
        self.obj = obj
        self.fi = fi


class BoundBuiltin:
    def __init__(self, obj, name):
        self.obj = obj
        self.name = name


class SuperRef:
    def __init__(self, obj, ci):
        self.obj = obj
        self.ci = ci


class Closure:
    def __init__(self, node, env, module, fi_parent):
        self.node = node
        self.env = env
        self.module = module
        self.fi_parent = fi_parent


class RangeV:
    def __init__(self, start, stop, step):
        self.start, self.stop, self.step = start, stop, step

    def count(self):
        st = self.step
        if not is_pyint(st) or st == 0:
            raise Unsupported("range with symbolic or zero step")
        a, b = self.start, self.stop
        if is_pyint(a) and is_pyint(b):
            return len(range(a, b, st))
        c = cur()
        key = ("rangecount", zi(a).sexpr(), zi(b).sexpr(), st)
        if key in c.memo:
            return c.memo[key]
        if st == 1:
            d = simp(zi(b) - zi(a))
            n = d if c.is_valid(zi(d) >= 0) else (0 if c.is_valid(zi(d) <= 0) else None)
            if n is None:
                n = c.fresh_int("n")
                c.fact(z3.If(zi(d) >= 0, n == zi(d), n == 0))
        elif st == -1:
            d = simp(zi(a) - zi(b))
            n = d if c.is_valid(zi(d) >= 0) else (0 if c.is_valid(zi(d) <= 0) else None)
            if n is None:
                n = c.fresh_int("n")
                c.fact(z3.If(zi(d) >= 0, n == zi(d), n == 0))
        else:
            n = c.fresh_int("n")
            if st > 0:
                c.fact(z3.And(n >= 0, z3.Implies(n > 0, zi(a) + (n - 1) * st < zi(b)), zi(a) + n * st >= zi(b),
                              z3.Implies(zi(a) >= zi(b), n == 0)))
            else:
                c.fact(z3.And(n >= 0, z3.Implies(n > 0, zi(a) + (n - 1) * st > zi(b)), zi(a) + n * st <= zi(b),
                              z3.Implies(zi(a) <= zi(b), n == 0)))
        c.memo[key] = n
        return n

    def elem(self, k):
        return sym.add(self.start, sym.mul(k, self.step))


class EnumV:
    def __init__(self, inner, start=0):
        self.inner = inner
        self.start = start


class ZipV:
    def __init__(self, inners):
        self.inners = inners


class FmtStr:
    """f-string with symbolic holes: an injective builder (template, values)."""

    def __init__(self, template, values):
        self.template = template
        self.values = values

    def __repr__(self):
        return f"FmtStr({self.template!r})"


class LoopBreak(Exception):
    pass


class LoopContinue(Exception):
    pass


class ReturnEx(Exception):
    def __init__(self, value):
        self.value = value


UNBOUND = Poison("unbound local")


class LoopSpec:
    """Closed form of the loop-carried state.
    state(k, pre, it) -> {name: value} after k completed iterations; `pre` is the environment at
    loop entry; `it` gives access to the iterable (it.elem(j), it.count)."""

    def __init__(self, state, ghosts=None, after=None, after_body=None, dead=()):
        self.state = state
        self.after = after
        self.after_body = after_body      # proof steps on the preservation path, between the body and the comparison
        self.dead = tuple(dead)           # loop-carried arrays the invariant does not describe: havoc'ed at the start of the
        #                                   generic iteration (unspecified contents), unreadable after the loop


class IterView:
    def __init__(self, count, elem):
        self.count = count
        self.elem = elem


# ----------------------------------------------------------------------------------
# interpreter
# ----------------------------------------------------------------------------------


class Interp:
    def __init__(self, repo: Repo, contracts=None, models=None):
        self.repo = repo
        self.contracts = contracts or {}     # qualname -> Contract (modular use at call sites)
        self.models = models or {}
        self.inline = set()                  # qualnames that must be inlined (under verification)
        self.loop_specs = {}                 # (qualname, ordinal) -> LoopSpec
        self.depth = 0
        self.functions_seen = {}             # qualname -> FuncInfo (evidence)
        self.stats = {"loops": {}}

    # -- calling repo functions -------------------------------------------------------
    def call(self, qualname, *args, **kwargs):
        fi = self.repo.function(qualname)
        return self.call_fi(fi, list(args), dict(kwargs))

    def call_fi(self, fi: FuncInfo, args, kwargs, self_obj=None, force_inline=False):
        k = self.contracts.get(fi.qualname)
        if k is not None and fi.qualname not in self.inline and not force_inline:
            if self_obj is not None:
                args = [self_obj] + list(args)
            return k.apply(self, args, kwargs)
        self.functions_seen[fi.qualname] = fi
        if fi.is_generator:
            # generator consumed eagerly: collect yielded values
            out = []
            self._run_body(fi, args, kwargs, self_obj, yields=out)
            return out
        return self._run_body(fi, args, kwargs, self_obj)

    def _run_body(self, fi, args, kwargs, self_obj, yields=None):
        env = self.bind(fi, args, kwargs, self_obj)
        frame = Frame(self, fi, env, yields)
        self.depth += 1
        if self.depth > 40:
            raise Unsupported("call depth")
        try:
            frame.exec_block(fi.node.body)
        except ReturnEx as r:
            return r.value
        finally:
            self.depth -= 1
        return None

    def bind(self, fi: FuncInfo, args, kwargs, self_obj):
        a = fi.node.args
        names = [x.arg for x in a.posonlyargs + a.args]
        env = {}
        args = list(args)
        if self_obj is not None and not fi.is_static:
            args = [self_obj] + args
        if len(args) > len(names) and a.vararg is None:
            raise PyRaise("TypeError", f"{fi.qualname}() takes {len(names)} positional arguments but {len(args)} were given")
        for n, v in zip(names, args):
            env[n] = v
        if a.vararg is not None:
            env[a.vararg.arg] = tuple(args[len(names):])
        extra = {}
        kwnames = [x.arg for x in a.kwonlyargs]
        for k_, v in kwargs.items():
            if k_ in names or k_ in kwnames:
                if k_ in env:
                    raise PyRaise("TypeError", f"{fi.qualname}() got multiple values for argument '{k_}'")
                env[k_] = v
            elif a.kwarg is not None:
                extra[k_] = v
            else:
                raise PyRaise("TypeError", f"{fi.qualname}() got an unexpected keyword argument '{k_}'")
        if a.kwarg is not None:
            env[a.kwarg.arg] = extra
        # defaults
        defaults = a.defaults
        dnames = names[len(names) - len(defaults):] if defaults else []
        mframe = Frame(self, fi, {}, None)
        for n, d in zip(dnames, defaults):
            if n not in env:
                env[n] = mframe.eval(d)
        for x, d in zip(a.kwonlyargs, a.kw_defaults):
            if x.arg not in env:
                if d is None:
                    raise PyRaise("TypeError", f"{fi.qualname}() missing keyword-only argument '{x.arg}'")
                env[x.arg] = mframe.eval(d)
        for n in names:
            if n not in env:
                raise PyRaise("TypeError", f"{fi.qualname}() missing required argument '{n}'")
        return env

    # -- classes ----------------------------------------------------------------------
    def class_of(self, obj):
        if isinstance(obj, Obj) and obj.cls in self.repo.classes:
            return self.repo.classes[obj.cls]
        return None

    def instantiate(self, ci: ClassInfo, args, kwargs):
        mdl = self.models.get("class:" + ci.qualname)
        if mdl is not None:
            return mdl(self, args, kwargs)
        o = Obj(ci.qualname, {})
        init = self.repo.find_method(ci, "__init__")
        if init is not None:
            self.call_fi(init, args, kwargs, self_obj=o)
            return o
        if self.is_pydantic(ci):
            # pydantic BaseModel: declared fields with their class-level defaults, then keywords
            if args:
                raise PyRaise("TypeError", "BaseModel.__init__() takes keyword arguments only")
            for cc in reversed(self.repo.mro(ci)):
                for name, ex in cc.attrs.items():
                    if name == "model_config":
                        continue
                    o.fields[name] = Frame(self, FuncInfoStub(cc), {}, None).eval(ex)
            required = [n for cc in self.repo.mro(ci) for n in cc.required]
            for k_, v in kwargs.items():
                if k_ in o.fields or k_ in required:
                    o.fields[k_] = v
            for n in required:
                if n not in o.fields:
                    raise PyRaise("ValidationError", f"field required: {n}")
            return o
        if args or kwargs:
            raise PyRaise("TypeError", f"{ci.node.name}() takes no arguments")
        return o

    def is_pydantic(self, ci):
        for cc in self.repo.mro(ci):
            for b in cc.bases:
                b2 = b
                while isinstance(b2, ast.Subscript):
                    b2 = b2.value
                if isinstance(b2, ast.Name) and b2.id == "BaseModel":
                    return True
        return False


class Frame:
    def __init__(self, interp: Interp, fi: FuncInfo, env, yields):
        self.I = interp
        self.fi = fi
        self.env = env
        self.yields = yields
        self.loop_ordinals = None

    # ------------------------------------------------------------------------------
    # statements
    # ------------------------------------------------------------------------------
    def exec_block(self, stmts):
        for s in stmts:
            self.exec(s)

    def exec(self, s):
        m = getattr(self, "s_" + type(s).__name__, None)
        if m is None:
            raise Unsupported(f"statement {type(s).__name__} at {self.fi.qualname}:{s.lineno}")
        try:
            m(s)
        except Unsupported as e:
            if not getattr(e, "located", False):
                e.located = True
                e.args = (f"{e.args[0] if e.args else ''} [at {self.fi.qualname}:{getattr(s, 'lineno', '?')}]",)
            raise

    def s_Pass(self, s): pass
    def s_Import(self, s): pass
    def s_ImportFrom(self, s): pass
    def s_Global(self, s): raise Unsupported("global statement")
    def s_Nonlocal(self, s): raise Unsupported("nonlocal statement")

    def s_Expr(self, s):
        v = s.value
        if isinstance(v, ast.Constant):
            return      # docstring
        if isinstance(v, ast.Call) and isinstance(v.func, ast.Attribute) and isinstance(v.func.value, ast.Name) \
                and v.func.value.id == "logger":
            return      # logger.<level>(...) dropped (DESIGN 2.1)
        if isinstance(v, ast.Yield):
            if self.yields is None:
                raise Unsupported("yield outside a generator")
            self.yields.append(self.eval(v.value) if v.value else None)
            return
        self.eval(v)

    def s_Assign(self, s):
        val = self.eval(s.value)
        for t in s.targets:
            self.assign(t, val)

    def s_AnnAssign(self, s):
        if s.value is not None:
            self.assign(s.target, self.eval(s.value))

    def s_AugAssign(self, s):
        t = s.target
        rhs = self.eval(s.value)
        if isinstance(t, ast.Name):
            cur_v = self.lookup(t.id)
            if isinstance(cur_v, Arr) and not is_scalar(cur_v):
                # in-place array update
                if cur_v.meta.get("view_of") is not None:
                    raise Unsupported("in-place update of a view of another array (basic slice / transpose): the write-through to the base is not modelled")
                new = self.binop(s.op, cur_v, rhs)
                if isinstance(new, Arr):
                    if not all(sym.same_axes(x, y) for x, y in zip(new.axes, cur_v.axes)):
                        cur_v.axes = new.axes
                    cur_v.set_fn(new.snapshot_fn(), new.kind if sym._KORD[new.kind] > sym._KORD[cur_v.kind] else None)
                    return
            if isinstance(cur_v, list) and isinstance(s.op, ast.Add):
                cur_v.extend(list(rhs))
                return
            self.env[t.id] = self.binop(s.op, cur_v, rhs)
        elif isinstance(t, (ast.Subscript, ast.Attribute)):
            cur_v = self.eval(t)
            self.assign(t, self.binop(s.op, cur_v, rhs))
        else:
            raise Unsupported("augmented assignment target")

    def s_Return(self, s):
        raise ReturnEx(self.eval(s.value) if s.value is not None else None)

    def s_Raise(self, s):
        if s.exc is None:
            raise Unsupported("bare raise")
        e = s.exc
        if isinstance(e, ast.Call):
            e = e.func
        name = e.id if isinstance(e, ast.Name) else (e.attr if isinstance(e, ast.Attribute) else None)
        if name is None:
            raise Unsupported("raise of a computed exception")
        raise PyRaise(name, "")

    def s_Assert(self, s):
        c = cur()
        t = self.truthy(self.eval(s.test))
        if not c.branch(t):
            raise PyRaise("AssertionError", "")

    def s_Delete(self, s):
        for t in s.targets:
            if isinstance(t, ast.Subscript):
                base = self.eval(t.value)
                key = self.eval(t.slice)
                if isinstance(base, dict):
                    if key not in base:
                        raise PyRaise("KeyError", str(key))
                    del base[key]
                elif isinstance(base, list) and is_pyint(key):
                    del base[key]
                else:
                    raise Unsupported("del on this container")
            elif isinstance(t, ast.Name):
                self.env.pop(t.id, None)
            else:
                raise Unsupported("del target")

    def s_If(self, s):
        c = cur()
        t = self.truthy(self.eval(s.test))
        if c.branch(t):
            self.exec_block(s.body)
        else:
            self.exec_block(s.orelse)

    def s_Continue(self, s):
        raise LoopContinue()

    def s_Break(self, s):
        raise LoopBreak()

    def s_FunctionDef(self, s):
        self.env[s.name] = Closure(s, self.env, self.fi.module, self.fi)

    def s_With(self, s):
        raise Unsupported("with statement")

    def s_While(self, s):
        # only loops whose condition is concrete at every test are executed
        n = 0
        while True:
            t = self.truthy(self.eval(s.test))
            if not isinstance(t, bool):
                t = simp(t)
            if not isinstance(t, bool):
                raise Unsupported("while loop with a symbolic condition")
            if not t:
                break
            n += 1
            if n > MAX_UNROLL:
                raise Unsupported("while loop bound")
            try:
                self.exec_block(s.body)
            except LoopBreak:
                return
            except LoopContinue:
                continue
        self.exec_block(s.orelse)

    def s_Try(self, s):
        if s.finalbody:
            raise Unsupported("try/finally")
        try:
            self.exec_block(s.body)
        except PyRaise as e:
            for h in s.handlers:
                if h.type is None:
                    names = ["BaseException"]
                elif isinstance(h.type, ast.Tuple):
                    names = [self._excname(x) for x in h.type.elts]
                else:
                    names = [self._excname(h.type)]
                if any(exc_isinstance(e.etype, n) for n in names):
                    if h.name:
                        self.env[h.name] = Opaque("exception", e.etype)
                    self.exec_block(h.body)
                    return
            raise
        else:
            self.exec_block(s.orelse)

    @staticmethod
    def _excname(n):
        if isinstance(n, ast.Name):
            return n.id
        if isinstance(n, ast.Attribute):
            return n.attr
        raise Unsupported("exception class expression")

    # -- for loops ---------------------------------------------------------------------
    def _loop_ordinal(self, s):
        if self.loop_ordinals is None:
            self.loop_ordinals = {}
            loops = [n for n in ast.walk(self.fi.node) if isinstance(n, (ast.For, ast.While))]
            loops.sort(key=lambda n: (n.lineno, n.col_offset))     # source order
            for k, n in enumerate(loops):
                self.loop_ordinals[id(n)] = k
        return self.loop_ordinals[id(s)]

    def iter_view(self, it):
        """-> (count, elem(k)) for an iterable value."""
        if isinstance(it, RangeV):
            return it.count(), it.elem
        if isinstance(it, (list, tuple)):
            return len(it), (lambda k, it=it: it[k] if is_pyint(k) else _sel_list(k, it))
        if isinstance(it, Seq):
            return it.length, it.get
        if isinstance(it, Arr):
            if it.ndim == 1:
                return it.extent(0), (lambda k, it=it: it.get(k))
            return it.extent(0), (lambda k, it=it: N.getitem(it, k))
        if isinstance(it, dict):
            ks = list(it.keys())
            return len(ks), (lambda k, ks=ks: ks[k])
        if isinstance(it, EnumV):
            n, el = self.iter_view(it.inner)
            return n, (lambda k, el=el, st=it.start: (sym.add(k, st), el(k)))
        if isinstance(it, ZipV):
            views = [self.iter_view(x) for x in it.inners]
            n = views[0][0]
            c = cur()
            for (m, _e) in views[1:]:
                if not sym.int_eq_syntactic(m, n):
                    if is_pyint(m) and is_pyint(n):
                        n = min(m, n)
                    elif not c.is_valid(zi(m) == zi(n)):
                        raise Unsupported("zip of iterables of possibly different lengths")
            return n, (lambda k, views=views: tuple(e(k) for (_m, e) in views))
        if isinstance(it, str):
            return len(it), (lambda k, it=it: it[k])
        raise Unsupported(f"iteration over {type(it).__name__}")

    def s_For(self, s):
        it = self.eval(s.iter)
        n, elem = self.iter_view(it)
        if is_pyint(n):
            if n > MAX_UNROLL:
                raise Unsupported(f"loop of {n} iterations")
            broke = False
            for k in range(n):
                self.assign(s.target, elem(k))
                try:
                    self.exec_block(s.body)
                except LoopBreak:
                    broke = True
                    break
                except LoopContinue:
                    continue
            if not broke:
                self.exec_block(s.orelse)
            return
        self.symbolic_for(s, n, elem)

    def assigned_names(self, stmts):
        names = set()
        mutated = set()
        for st in stmts:
            for n in ast.walk(st):
                if isinstance(n, (ast.Assign, ast.AugAssign, ast.AnnAssign)):
                    tg = n.targets if isinstance(n, ast.Assign) else [n.target]
                    for t in tg:
                        for x in ast.walk(t):
                            if isinstance(x, ast.Name) and isinstance(x.ctx, ast.Store):
                                names.add(x.id)
                        b = t
                        while isinstance(b, (ast.Subscript, ast.Attribute)):
                            b = b.value
                        if isinstance(b, ast.Name) and b is not t:
                            mutated.add(b.id)
                        if isinstance(n, ast.AugAssign) and isinstance(t, ast.Name):
                            mutated.add(t.id)
                elif isinstance(n, ast.For):
                    for x in ast.walk(n.target):
                        if isinstance(x, ast.Name):
                            names.add(x.id)
                elif isinstance(n, ast.Call) and isinstance(n.func, ast.Attribute) and \
                        n.func.attr in ("append", "pop", "remove", "extend", "insert", "sort", "setdefault", "update", "clear",
                                        "plot", "scatter", "errorbar", "bar", "legend", "grid", "set_title", "set_xlabel",
                                        "set_ylabel", "set_xlim", "set_ylim", "fill_between", "annotate", "text") \
                        and isinstance(n.func.value, ast.Name):
                    mutated.add(n.func.value.id)
                elif isinstance(n, ast.comprehension):
                    pass
        return names, mutated

    def symbolic_for(self, s, n, elem):
        ordinal = self._loop_ordinal(s)
        spec = self.I.loop_specs.get((self.fi.qualname, ordinal))
        if spec is None:
            raise Unsupported(f"loop #{ordinal} of {self.fi.qualname} (line {s.lineno}) has a symbolic trip "
                              f"count and no loop specification")
        if s.orelse:
            raise Unsupported("for/else on a symbolic loop")
        c = cur()
        self.I.stats["loops"][f"{self.fi.qualname}#{ordinal}"] = "invariant"
        names, mutated = self.assigned_names(s.body)
        for x in ast.walk(s.target):
            if isinstance(x, ast.Name):
                names.add(x.id)
        pre = {k_: (v_.copy() if isinstance(v_, Arr) else
                    (list(v_) if isinstance(v_, list) else v_)) for k_, v_ in self.env.items()}
        itv = IterView(n, elem)
        c.assume(zi(n) >= 0)
        tag = f"loop{ordinal}"
        # ---- init -----------------------------------------------------------------
        st0 = spec.state(0, pre, itv)
        for name, v in st0.items():
            if name in self.env:
                assert_same(f"{tag}.init.{name}", self.env[name], v, "inv")
                # the invariant replaces the variable on the preservation path: it must be an array of the same
                # element type, or stores into it would be modelled with the wrong conversion (complex -> float, float -> int)
                g0 = self.env[name]
                if isinstance(g0, Arr) and isinstance(v, Arr) and g0.kind != v.kind:
                    c.oblige("inv", f"{tag}.init.{name}.dtype", False, {"array": g0.kind, "invariant": v.kind})
            # names first bound inside the loop have no initial value
        # ---- fork: preservation path / continuation path ----------------------------
        phase = c.fresh_bool(f"{self.fi.node.name}.{tag}.pres")
        if c.branch(phase):
            k = c.fresh_int("k")
            c.assume(z3.And(k >= 0, k < zi(n)))
            N.ground(k)
            stk = spec.state(k, pre, itv)
            self._install(stk, names, mutated, first_iter=k)
            for dn in spec.dead:
                v0 = pre.get(dn)
                if not isinstance(v0, Arr):
                    raise Unsupported(f"dead loop variable '{dn}' is not an array")
                self.env[dn] = N.empty_like(v0)
            self.assign(s.target, elem(k))
            try:
                self.exec_block(s.body)
            except LoopContinue:
                pass
            except LoopBreak:
                raise Unsupported("break inside a symbolic loop")
            except ReturnEx:
                raise Unsupported("return inside a symbolic loop")
            if spec.after_body is not None:
                spec.after_body(self, k, pre, itv)
            st1 = spec.state(simp(k + 1), pre, itv)
            for name, v in st1.items():
                if name not in self.env:
                    raise Unsupported(f"loop spec names '{name}' which the body does not define")
                assert_same(f"{tag}.pres.{name}", self.env[name], v, "inv")
            raise PathEnd()
        # ---- use ---------------------------------------------------------------------
        stn = spec.state(n, pre, itv)
        self._install(stn, names, mutated, first_iter=None)
        for dn in spec.dead:
            self.env[dn] = Poison(f"'{dn}' is declared dead by the loop specification")
        if spec.after is not None:
            spec.after(self, n, pre, itv)

    def _install(self, st, names, mutated, first_iter):
        for name in names | mutated:
            if name in st:
                v = st[name]
                curv = self.env.get(name)
                if isinstance(curv, Arr) and isinstance(v, Arr) and curv is not v:
                    curv.axes = v.axes
                    curv.set_fn(v.snapshot_fn(), v.kind)
                    continue
                self.env[name] = v
            elif name in mutated and name in self.env and name not in names:
                raise Unsupported(f"object '{name}' is mutated in a symbolic loop but not covered by the loop spec")
            else:
                self.env[name] = Poison(f"'{name}' is assigned in a symbolic loop and not covered by its loop spec")

    # ------------------------------------------------------------------------------
    # assignment targets
    # ------------------------------------------------------------------------------
    def assign(self, t, val):
        if isinstance(t, ast.Name):
            self.env[t.id] = val
        elif isinstance(t, (ast.Tuple, ast.List)):
            vals = self.unpack(val, len(t.elts))
            for e, v in zip(t.elts, vals):
                self.assign(e, v)
        elif isinstance(t, ast.Attribute):
            base = self.eval(t.value)
            self.setattr(base, t.attr, val)
        elif isinstance(t, ast.Subscript):
            base = self.eval(t.value)
            key = self.eval_index(t.slice)
            self.setitem(base, key, val)
        else:
            raise Unsupported(f"assignment target {type(t).__name__}")

    def unpack(self, val, n):
        if isinstance(val, (tuple, list)):
            if len(val) != n:
                raise PyRaise("ValueError", "unpack length mismatch")
            return list(val)
        if isinstance(val, Arr):
            ext = val.extent(0)
            if is_pyint(ext):
                if ext != n:
                    raise PyRaise("ValueError", "unpack length mismatch")
                return [N.getitem(val, k) for k in range(n)]
        if isinstance(val, Seq):
            c = cur()
            if c.branch(zi(val.length) != n):
                raise PyRaise("ValueError", "unpack length mismatch")
            return [val.get(k) for k in range(n)]
        raise Unsupported(f"unpacking {type(val).__name__}")

    def setattr(self, base, attr, val):
        if isinstance(base, Obj):
            ci = self.I.class_of(base)
            if ci is not None:
                for cc in self.I.repo.mro(ci):
                    st = cc.methods.get(attr + ".setter")
                    if st is not None:
                        self.I.call_fi(st, [val], {}, self_obj=base)
                        return
            hook = self.I.models.get("setattr:" + base.cls)
            if hook is not None:
                hook(self.I, base, attr, val)
                return
            base.fields[attr] = val
            return
        if isinstance(base, Arr) and attr == "shape":
            raise Unsupported("assignment to .shape")
        raise Unsupported(f"attribute store on {type(base).__name__}")

    def setitem(self, base, key, val):
        if isinstance(base, Arr):
            N.setitem(base, key, val)
        elif isinstance(base, dict):
            if isinstance(key, (str, int)) and not isinstance(key, bool) or key is None:
                base[key] = val
            else:
                raise Unsupported("dict store with a symbolic key")
        elif isinstance(base, list):
            if is_pyint(key):
                if key >= len(base) or key < -len(base):
                    raise PyRaise("IndexError", "list assignment index out of range")
                base[key] = val
            else:
                raise Unsupported("list store with a symbolic index")
        elif isinstance(base, Obj):
            hook = self.I.models.get("setitem:" + base.cls)
            if hook is None:
                raise Unsupported(f"item store on {base.cls}")
            hook(self.I, base, key, val)
        else:
            raise Unsupported(f"item store on {type(base).__name__}")

    # ------------------------------------------------------------------------------
    # expressions
    # ------------------------------------------------------------------------------
    def eval(self, e):
        m = getattr(self, "e_" + type(e).__name__, None)
        if m is None:
            raise Unsupported(f"expression {type(e).__name__} at {self.fi.qualname}:{getattr(e, 'lineno', '?')}")
        return m(e)

    def e_Constant(self, e):
        v = e.value
        if isinstance(v, float):
            return sym.toF(v)
        if isinstance(v, complex):
            return sym.toC(v)
        return v

    def lookup(self, name):
        if name in self.env:
            v = self.env[name]
            if isinstance(v, Poison):
                raise Unsupported(f"read of {name}: {v.why}")
            return v
        return self.global_lookup(name)

    def global_lookup(self, name):
        mod = self.fi.module
        if name in mod.functions:
            return RepoFn(mod.functions[name])
        if name in mod.classes:
            return RepoCls(mod.classes[name])
        if name in mod.imports:
            return self.resolve_dotted(mod.imports[name])
        if name in mod.globals:
            if name == "logger":
                return Opaque("logger")
            return Frame(self.I, self.fi, {}, None).eval(mod.globals[name])
        if name in BUILTIN_TYPES:
            return TypeRef(name)
        if name in BUILTINS:
            return BuiltinFn(name)
        if name in ("True", "False", "None"):
            return {"True": True, "False": False, "None": None}[name]
        if name in ("Exception", "ValueError", "TypeError", "KeyError", "AttributeError", "IndexError",
                    "NotImplementedError", "RuntimeError", "ImportError", "AssertionError"):
            return TypeRef(name)
        import builtins as _b
        if hasattr(_b, name):
            # a Python builtin the engine has no model for is NOT a NameError of the program
            raise Unsupported(f"builtin {name}")
        raise PyRaise("NameError", name)

    def resolve_dotted(self, dotted):
        repo = self.I.repo
        if dotted in repo.functions and "." in dotted:
            return RepoFn(repo.functions[dotted])
        if dotted in repo.classes:
            return RepoCls(repo.classes[dotted])
        if dotted in repo.modules:
            return ModRef(dotted)
        if dotted.startswith("pyoma2"):
            # re-exported name (package __init__)
            head, _, tail = dotted.rpartition(".")
            if head in repo.modules and tail in repo.modules[head].imports:
                return self.resolve_dotted(repo.modules[head].imports[tail])
            raise Unsupported(f"cannot resolve {dotted}")
        return foreign(dotted)

    def e_Name(self, e):
        return self.lookup(e.id)

    def e_Attribute(self, e):
        base = self.eval(e.value)
        return self.getattr(base, e.attr)

    def getattr(self, base, attr):
        I = self.I
        if isinstance(base, ModRef):
            if base.name in I.repo.modules:
                m = I.repo.modules[base.name]
                if attr in m.functions:
                    return RepoFn(m.functions[attr])
                if attr in m.classes:
                    return RepoCls(m.classes[attr])
                if attr in m.imports:
                    return self.resolve_dotted(m.imports[attr])
                sub = f"{base.name}.{attr}"
                if sub in I.repo.modules:
                    return ModRef(sub)
                raise PyRaise("AttributeError", f"{base.name}.{attr}")
            return foreign(f"{base.name}.{attr}")
        if isinstance(base, Obj):
            if attr in base.fields:
                v = base.fields[attr]
                if isinstance(v, Poison):
                    raise Unsupported(f"read of field {attr}: {v.why}")
                if isinstance(v, sym.Maybe):
                    v = v.resolve()
                return v
            ci = I.class_of(base)
            if ci is not None:
                if attr == "__class__":
                    return RepoCls(ci)
                fi = I.repo.find_method(ci, attr)
                if fi is not None:
                    if fi.is_property:
                        return I.call_fi(fi, [], {}, self_obj=base)
                    return BoundMethod(base, fi)
                # name-mangled private attributes
                for cc in I.repo.mro(ci):
                    mg = f"_{cc.node.name}{attr}"
                    if attr.startswith("__") and mg in base.fields:
                        return base.fields[mg]
                owner, ex = I.repo.find_class_attr(ci, attr)
                if ex is not None:
                    return Frame(I, FuncInfoStub(owner), {}, None).eval(ex)
            hook = I.models.get("getattr:" + base.cls)
            if hook is not None:
                return hook(I, base, attr)
            if base.fields.get("__recorder__") or base.cls == "mpl.Figure":
                return BoundBuiltin(base, attr)
            raise PyRaise("AttributeError", f"'{base.cls}' object has no attribute '{attr}'")
        if isinstance(base, RepoCls):
            if attr == "__name__":
                return base.ci.node.name
            fi = I.repo.find_method(base.ci, attr)
            if fi is not None:
                return RepoFn(fi) if not fi.is_static else RepoFn(fi)
            owner, ex = I.repo.find_class_attr(base.ci, attr)
            if ex is not None:
                return Frame(I, FuncInfoStub(owner), {}, None).eval(ex)
            raise PyRaise("AttributeError", attr)
        if isinstance(base, SuperRef):
            fi = I.repo.find_method(self.I.class_of(base.obj), attr, after=base.ci)
            if fi is None:
                raise PyRaise("AttributeError", f"super().{attr}")
            return BoundMethod(base.obj, fi)
        if isinstance(base, Arr):
            if attr == "T":
                return N.transpose(base)
            if attr == "shape":
                return tuple(base.shape)
            if attr == "ndim":
                return base.ndim
            if attr == "real":
                return N.real(base)
            if attr == "imag":
                return N.imag(base)
            if attr == "dtype":
                return TypeRef("dtype:" + base.kind)
            if attr == "size":
                return sym.prod(base.shape)
            return BoundBuiltin(base, attr)
        if isinstance(base, (F, C)) or is_int(base) or sym.is_bool(base):
            if attr == "real":
                return sym.real_(base)
            if attr == "imag":
                return sym.imag_(base)
            if attr == "shape":
                return ()
            return BoundBuiltin(base, attr)
        if isinstance(base, (list, dict, tuple, str, Seq, N.MaskSel, Opaque, FmtStr)):
            return BoundBuiltin(base, attr)
        if isinstance(base, TypeRef):
            return ForeignFn(f"type:{base.name}.{attr}")
        if base is None:
            raise PyRaise("AttributeError", f"'NoneType' object has no attribute '{attr}'")
        raise Unsupported(f"attribute {attr} of {type(base).__name__}")

    def eval_index(self, sl):
        if isinstance(sl, ast.Tuple):
            return tuple(self.eval_index(x) for x in sl.elts)
        if isinstance(sl, ast.Slice):
            return slice(self.eval(sl.lower) if sl.lower else None,
                         self.eval(sl.upper) if sl.upper else None,
                         self.eval(sl.step) if sl.step else None)
        return self.eval(sl)

    def e_Subscript(self, e):
        base = self.eval(e.value)
        key = self.eval_index(e.slice)
        return self.getitem(base, key)

    def getitem(self, base, key):
        c = cur()
        if isinstance(base, Arr):
            return N.getitem(base, key)
        if isinstance(base, (list, tuple)):
            if isinstance(key, slice):
                lo, hi, st = key.start, key.stop, key.step
                if all(x is None or is_pyint(x) for x in (lo, hi, st)):
                    return base[slice(lo, hi, st)]
                raise Unsupported("symbolic slice of a list")
            if isinstance(key, Arr) and key.ndim == 0:
                key = key.cell(())
            if is_pyint(key):
                if key >= len(base) or key < -len(base):
                    raise PyRaise("IndexError", "list index out of range")
                return base[key]
            if is_int(key):
                n = len(base)
                if c.branch(sym.Or_(zi(key) < -n, zi(key) >= n)):
                    raise PyRaise("IndexError", "list index out of range")
                kk = sym.ite(zi(key) < 0, sym.add(key, n), key)
                return _sel_list(kk, base)
            raise PyRaise("TypeError", "list indices must be integers or slices")
        if isinstance(base, Seq):
            if isinstance(key, slice):
                raise Unsupported("slice of a symbolic list")
            if not is_int(key):
                raise PyRaise("TypeError", "list indices must be integers or slices")
            if c.branch(sym.Or_(sym.lt(key, sym.neg(base.length)), sym.le(base.length, key))):
                raise PyRaise("IndexError", "list index out of range")
            kk = key
            if not c.is_valid(zi(key) >= 0):
                kk = sym.ite(zi(key) < 0, sym.add(key, base.length), key)
            return base.get(kk)
        if isinstance(base, dict):
            if isinstance(key, SymStr):
                raise Unsupported("dict lookup with a symbolic key")
            if key not in base:
                raise PyRaise("KeyError", str(key))
            return base[key]
        if isinstance(base, str):
            return base[key]
        if isinstance(base, Obj):
            ci = self.I.class_of(base)
            if ci is not None:
                fi = self.I.repo.find_method(ci, "__getitem__")
                if fi is not None:
                    return self.I.call_fi(fi, [key], {}, self_obj=base)
            hook = self.I.models.get("getitem:" + base.cls)
            if hook is not None:
                return hook(self.I, base, key)
            raise Unsupported(f"subscript of {base.cls}")
        if isinstance(base, ForeignFn) and base.name in ("numpy.c_", "numpy.r_"):
            items = list(key) if isinstance(key, tuple) else [key]
            if base.name == "numpy.c_":
                return N.hstack([N.reshape(N.asarray(x), -1, 1) if N.asarray(x).ndim == 1 else N.asarray(x) for x in items])
            return N.concatenate([N.asarray(x) for x in items], axis=0)
        if isinstance(base, (RepoCls, TypeRef, ForeignFn, ModRef)):
            return base      # Generic[...] subscripts
        if isinstance(base, (F, C)):
            raise PyRaise("IndexError", "invalid index to scalar variable")
        raise Unsupported(f"subscript of {type(base).__name__}")

    def e_Tuple(self, e):
        return tuple(self._elts(e.elts))

    def e_List(self, e):
        return list(self._elts(e.elts))

    def _elts(self, elts):
        out = []
        for x in elts:
            if isinstance(x, ast.Starred):
                v = self.eval(x.value)
                if not isinstance(v, (list, tuple)):
                    raise Unsupported("starred non-list")
                out.extend(v)
            else:
                out.append(self.eval(x))
        return out

    def e_Dict(self, e):
        d = {}
        for k, v in zip(e.keys, e.values):
            if k is None:
                inner = self.eval(v)
                if not isinstance(inner, dict):
                    raise Unsupported("** of a non-dict")
                d.update(inner)
            else:
                kk = self.eval(k)
                if isinstance(kk, (SymStr, FmtStr)) or not isinstance(kk, (str, int)):
                    raise Unsupported("dict display with a symbolic key")
                d[kk] = self.eval(v)
        return d

    def e_Set(self, e):
        raise Unsupported("set display")

    def e_JoinedStr(self, e):
        parts = []
        vals = []
        for v in e.values:
            if isinstance(v, ast.Constant):
                parts.append(str(v.value))
            else:
                try:
                    x = self.eval(v.value)
                except (Unsupported, PyRaise):
                    x = None
                if isinstance(x, str):
                    parts.append(x)
                elif is_pyint(x):
                    parts.append(str(x))
                else:
                    parts.append("{}")
                    vals.append(x)
        if not vals:
            return "".join(parts)
        return FmtStr("".join(parts), vals)

    def e_IfExp(self, e):
        c = cur()
        t = self.truthy(self.eval(e.test))
        if isinstance(t, bool):
            return self.eval(e.body if t else e.orelse)
        return sym.Lazy.choose(t, lambda: self.eval(e.body), lambda: self.eval(e.orelse))

    def e_Lambda(self, e):
        return Closure(e, self.env, self.fi.module, self.fi)

    def e_BoolOp(self, e):
        c = cur()
        isand = isinstance(e.op, ast.And)
        last = None
        for i, v in enumerate(e.values):
            last = self.eval(v)
            if i == len(e.values) - 1:
                return last
            t = self.truthy(last)
            taken = c.branch(t)
            # Python returns the deciding operand itself; for a Boolean operand that is the constant decided on this path
            if isand and not taken:
                return False if (sym.is_bool(last) and not isinstance(last, bool)) else last
            if (not isand) and taken:
                return True if (sym.is_bool(last) and not isinstance(last, bool)) else last
        return last

    def e_UnaryOp(self, e):
        v = self.eval(e.operand)
        if isinstance(e.op, ast.Not):
            return sym.Not_(self.truthy(v))
        if isinstance(e.op, ast.USub):
            if isinstance(v, Arr):
                return N.negative(v)
            return sym.neg(v)
        if isinstance(e.op, ast.UAdd):
            return v
        if isinstance(e.op, ast.Invert):
            if isinstance(v, Arr):
                if v.kind != "bool":
                    raise Unsupported("~ on a non-boolean array")
                return N.logical_not(v)
            if sym.is_bool(v):
                return sym.Not_(v)
            raise Unsupported("~ on integers")
        raise Unsupported("unary operator")

    def e_BinOp(self, e):
        return self.binop(e.op, self.eval(e.left), self.eval(e.right))

    def binop(self, op, a, b):
        arrish = isinstance(a, Arr) or isinstance(b, Arr)
        if isinstance(a, (list, tuple)) and isinstance(b, (list, tuple)) and isinstance(op, ast.Add):
            return a + b
        if isinstance(a, (list, tuple, Seq)) or isinstance(b, (list, tuple, Seq)):
            if arrish:
                a = N.asarray(a)
                b = N.asarray(b)
            elif isinstance(op, ast.Mult) and (is_pyint(a) or is_pyint(b)):
                return a * b
            else:
                raise PyRaise("TypeError", f"unsupported operand type(s) for {type(op).__name__}: list and scalar")
        if isinstance(a, N.MaskSel) or isinstance(b, N.MaskSel):
            raise Unsupported("arithmetic on a boolean-mask selection")
        if isinstance(a, (str, FmtStr)) or isinstance(b, (str, FmtStr)):
            if isinstance(op, ast.Add) and isinstance(a, str) and isinstance(b, str):
                return a + b
            if isinstance(op, ast.Mod):
                return FmtStr(str(a), [b])
            raise Unsupported("string arithmetic")
        if a is None or b is None:
            raise PyRaise("TypeError", "unsupported operand type(s): NoneType")
        t = type(op)
        if arrish:
            fn = {ast.Add: N.add, ast.Sub: N.subtract, ast.Mult: N.multiply, ast.Div: N.divide,
                  ast.FloorDiv: N.floor_divide, ast.Mod: N.mod, ast.MatMult: N.matmul,
                  ast.BitAnd: N.logical_and, ast.BitOr: N.logical_or}.get(t)
            if t is ast.Pow:
                return N.power(a, b)
            if fn is None:
                raise Unsupported(f"array operator {t.__name__}")
            if t in (ast.BitAnd, ast.BitOr):
                for x in (a, b):
                    if isinstance(x, Arr) and x.kind != "bool":
                        raise Unsupported("bitwise operator on non-boolean arrays")
            return fn(a, b)
        if t is ast.Add:
            return sym.add(a, b)
        if t is ast.Sub:
            return sym.sub(a, b)
        if t is ast.Mult:
            return sym.mul(a, b)
        if t is ast.Div:
            return sym.div(a, b)
        if t is ast.FloorDiv:
            return sym.floordiv(a, b)
        if t is ast.Mod:
            return sym.imod(a, b)
        if t is ast.Pow:
            return sym.pow_(a, b)
        if t in (ast.BitAnd, ast.BitOr) and sym.is_bool(a) and sym.is_bool(b):
            return sym.And_(a, b) if t is ast.BitAnd else sym.Or_(a, b)
        raise Unsupported(f"operator {t.__name__}")

    def e_Compare(self, e):
        left = self.eval(e.left)
        res = True
        c = cur()
        for i, (op, rhs) in enumerate(zip(e.ops, e.comparators)):
            right = self.eval(rhs)
            r = self.compare(op, left, right)
            if i == len(e.ops) - 1 and res is True:
                return r
            if isinstance(r, Arr):
                raise Unsupported("chained comparison of arrays")
            res = sym.And_(res, r)
            left = right
        return res

    def compare(self, op, a, b):
        t = type(op)
        if t in (ast.Is, ast.IsNot):
            r = self.identical(a, b)
            return r if t is ast.Is else sym.Not_(r)
        if t in (ast.In, ast.NotIn):
            r = self.contains(b, a)
            return r if t is ast.In else sym.Not_(r)
        if isinstance(a, Arr) or isinstance(b, Arr):
            if isinstance(a, (tuple,)) or isinstance(b, tuple):
                pass
            if a is None or b is None or isinstance(a, str) or isinstance(b, str):
                # ndarray == None / == "str": elementwise False in NumPy (scalar False with a warning)
                return False if t is ast.Eq else True
            fn = {ast.Lt: N.less, ast.LtE: N.less_equal, ast.Gt: N.greater, ast.GtE: N.greater_equal,
                  ast.Eq: N.equal, ast.NotEq: N.not_equal}[t]
            return fn(a, b)
        if isinstance(a, (tuple, list)) and isinstance(b, (tuple, list)):
            if t in (ast.Eq, ast.NotEq):
                r = self.seq_eq(a, b)
                return r if t is ast.Eq else sym.Not_(r)
            raise Unsupported("ordering of sequences")
        if isinstance(a, (tuple, list, Seq, dict)) or isinstance(b, (tuple, list, Seq, dict)):
            if t in (ast.Eq, ast.NotEq):
                if type(a) is not type(b) and not (isinstance(a, (list, Seq)) and isinstance(b, (list, Seq))):
                    return t is ast.NotEq
                if isinstance(a, Seq) or isinstance(b, Seq):
                    raise Unsupported("== on symbolic lists")
            raise Unsupported("comparison of containers")
        if isinstance(a, (TypeRef, RepoCls)) and isinstance(b, (TypeRef, RepoCls)):
            same = (type(a) is type(b)) and (a.name == b.name if isinstance(a, TypeRef) else a.ci is b.ci)
            return same if t is ast.Eq else not same
        if isinstance(a, FmtStr) or isinstance(b, FmtStr):
            r = fmt_eq(a, b)
            return r if t is ast.Eq else sym.Not_(r)
        if t is ast.Eq:
            return self._scalar_eq(a, b)
        if t is ast.NotEq:
            return sym.Not_(self._scalar_eq(a, b))
        if a is None or b is None or isinstance(a, str) or isinstance(b, str):
            raise PyRaise("TypeError", "ordering comparison not supported")
        if t is ast.Lt:
            return sym.lt(a, b)
        if t is ast.LtE:
            return sym.le(a, b)
        if t is ast.Gt:
            return sym.lt(b, a)
        if t is ast.GtE:
            return sym.le(b, a)
        raise Unsupported("comparison operator")

    def _scalar_eq(self, a, b):
        if isinstance(a, (Obj, Opaque)) or isinstance(b, (Obj, Opaque)):
            return a is b
        if (isinstance(a, str) or a is None) and not (isinstance(b, (str, SymStr)) or b is None):
            return False
        if (isinstance(b, str) or b is None) and not (isinstance(a, (str, SymStr)) or a is None):
            return False
        return sym.eq(a, b)

    def seq_eq(self, a, b):
        if len(a) != len(b):
            return False
        return sym.And_(*[self.compare(ast.Eq(), x, y) for x, y in zip(a, b)])

    def identical(self, a, b):
        if a is None or b is None:
            return a is b
        if isinstance(a, bool) and isinstance(b, bool):
            return a == b
        if isinstance(b, bool) and sym.is_bool(a):
            # `x is True` on a NumPy/Python bool: identity holds for Python bools only
            return sym.Iff_(a, b) if getattr(self, "np_bool_is_py", True) else False
        if isinstance(a, bool) and sym.is_bool(b):
            return sym.Iff_(a, b)
        return a is b

    def contains(self, container, item):
        if isinstance(container, dict):
            if isinstance(item, (str, int)) or item is None:
                return item in container
            raise Unsupported("symbolic key membership")
        if isinstance(container, (list, tuple)):
            return sym.Or_(*[self.compare(ast.Eq(), x, item) for x in container]) if container else False
        if isinstance(container, Seq):
            n = container.length
            a = Arr(((n,),), lambda idx, s=container, item=item: self.compare(ast.Eq(), s.get(idx[0][0]), item), "bool")
            return N.any_(a)
        if isinstance(container, str) and isinstance(item, str):
            return item in container
        if isinstance(container, Arr):
            return N.any_(N.equal(container, item))
        if isinstance(container, SetOf):
            return N.any_(N.equal(container.arr, item))
        if isinstance(container, Obj):
            hook = self.I.models.get("contains:" + container.cls)
            if hook is not None:
                return hook(self.I, container, item)
        raise Unsupported(f"membership test in {type(container).__name__}")

    def truthy(self, v):
        if isinstance(v, bool) or isinstance(v, z3.BoolRef):
            return v
        if v is None:
            return False
        if isinstance(v, (list, tuple, dict, str)):
            return len(v) > 0
        if isinstance(v, Seq):
            return sym.lt(0, v.length)
        if isinstance(v, Arr):
            if v.ndim == 0:
                return sym.truthy_scalar(v.cell(()))
            tot = sym.prod(v.shape)
            if is_pyint(tot) and tot == 1:
                return sym.truthy_scalar(v.cell(tuple((0,) * len(ax) for ax in v.axes)))
            raise PyRaise("ValueError", "The truth value of an array with more than one element is ambiguous")
        if isinstance(v, Obj):
            hook = self.I.models.get("truthy:" + v.cls)
            if hook is not None:
                return hook(self.I, v)
            return True
        if isinstance(v, (Opaque, RepoCls, RepoFn, TypeRef, BoundMethod, Closure, FmtStr)):
            return True
        return sym.truthy_scalar(v)

    # -- comprehensions -----------------------------------------------------------------
    def e_ListComp(self, e):
        return self._comp(e.elt, e.generators)

    def e_GeneratorExp(self, e):
        return self._comp(e.elt, e.generators)

    def e_DictComp(self, e):
        pairs = self._comp(ast.Tuple(elts=[e.key, e.value], ctx=ast.Load()), e.generators)
        if not isinstance(pairs, list):
            raise Unsupported("dict comprehension over a symbolic iterable")
        d = {}
        for k, v in pairs:
            if not isinstance(k, (str, int)):
                raise Unsupported("dict comprehension with symbolic keys")
            d[k] = v
        return d

    def _comp(self, elt, gens):
        g = gens[0]
        if g.is_async:
            raise Unsupported("async comprehension")
        it = self.eval(g.iter)
        n, elem = self.iter_view(it)
        saved = dict(self.env)
        try:
            if is_pyint(n):
                if n > 4 * MAX_UNROLL:
                    raise Unsupported("comprehension bound")
                out = []
                c = cur()
                for k in range(n):
                    self.assign(g.target, elem(k))
                    ok = True
                    for cond in g.ifs:
                        if not c.branch(self.truthy(self.eval(cond))):
                            ok = False
                            break
                    if not ok:
                        continue
                    if len(gens) > 1:
                        inner = self._comp(elt, gens[1:])
                        if not isinstance(inner, list):
                            raise Unsupported("nested comprehension over a symbolic iterable")
                        out.extend(inner)
                    else:
                        out.append(self.eval(elt))
                return out
            if g.ifs or len(gens) > 1:
                raise Unsupported(f"filtered or nested comprehension over a symbolic iterable "
                                  f"[{self.fi.qualname}:{getattr(elt, 'lineno', '?')}]")
            env0 = dict(self.env)
            frame = self

            def fn(k, env0=env0, g=g, elt=elt, elem=elem):
                sub = Frame(frame.I, frame.fi, dict(env0), None)
                sub.loop_ordinals = frame.loop_ordinals
                sub.assign(g.target, elem(k))
                return sub.eval(elt)
            return Seq(n, fn)
        finally:
            # comprehension variables do not leak
            self.env.clear()
            self.env.update(saved)

    # -- calls ---------------------------------------------------------------------------
    def e_Call(self, e):
        # super()
        if isinstance(e.func, ast.Name) and e.func.id == "super" and not e.args:
            slf = self.env.get("self")
            if slf is None or self.fi.cls is None:
                raise Unsupported("super() outside a method")
            return SuperRef(slf, self.fi.cls)
        f = self.eval(e.func)
        args = []
        for a in e.args:
            if isinstance(a, ast.Starred):
                v = self.eval(a.value)
                if isinstance(v, (list, tuple)):
                    args.extend(v)
                elif isinstance(v, Seq):
                    args.append(StarSeq(v))
                else:
                    raise Unsupported("*args of a non-list")
            else:
                args.append(self.eval(a))
        kwargs = {}
        for k in e.keywords:
            if k.arg is None:
                d = self.eval(k.value)
                if not isinstance(d, dict):
                    raise Unsupported("**kwargs of a non-dict")
                for kk, vv in d.items():
                    if kk in kwargs:
                        raise PyRaise("TypeError", f"got multiple values for keyword argument '{kk}'")
                    kwargs[kk] = vv
            else:
                if k.arg in kwargs:
                    raise PyRaise("TypeError", f"keyword argument repeated: {k.arg}")
                kwargs[k.arg] = self.eval(k.value)
        return self.call_value(f, args, kwargs, e)

    def call_value(self, f, args, kwargs, node=None):
        I = self.I
        if isinstance(f, RepoFn):
            return I.call_fi(f.fi, args, kwargs)
        if isinstance(f, BoundMethod):
            return I.call_fi(f.fi, args, kwargs, self_obj=f.obj)
        if isinstance(f, RepoCls):
            return I.instantiate(f.ci, args, kwargs)
        if isinstance(f, Closure):
            return self.call_closure(f, args, kwargs)
        if isinstance(f, BuiltinFn):
            return builtin_call(self, f.name, args, kwargs)
        if isinstance(f, TypeRef):
            if f.name == "DataFrame":
                return I.models["pandas.DataFrame"](self, args, kwargs)
            return builtin_call(self, f.name, args, kwargs)
        if isinstance(f, BoundBuiltin):
            from .models import method_call
            return method_call(self, f.obj, f.name, args, kwargs)
        if isinstance(f, ForeignFn):
            m = I.models.get(f.name)
            if m is None:
                raise Unsupported(f"no model for foreign function {f.name}")
            try:
                return m(self, args, kwargs)
            except TypeError as e:
                if "unexpected keyword" in str(e) or "positional argument" in str(e):
                    raise Unsupported(f"call of {f.name} outside its model: {e}")
                raise
        raise Unsupported(f"call of {type(f).__name__}")

    def call_closure(self, f: Closure, args, kwargs):
        node = f.node
        a = node.args
        names = [x.arg for x in a.args]
        env = dict(f.env)
        if len(args) > len(names):
            raise PyRaise("TypeError", "too many arguments")
        for n, v in zip(names, args):
            env[n] = v
        for k, v in kwargs.items():
            env[k] = v
        sub = Frame(self.I, f.fi_parent, env, None)
        if isinstance(node, ast.Lambda):
            return sub.eval(node.body)
        try:
            sub.exec_block(node.body)
        except ReturnEx as r:
            return r.value
        return None


class StarSeq:
    def __init__(self, seq):
        self.seq = seq


class SetOf:
    """set(<array>): only membership is supported (NaN is never a member: fresh scalar objects
    compare by value and nan != nan)."""

    def __init__(self, arr):
        self.arr = Arr(arr.axes, arr.snapshot_fn(), arr.kind)


class FuncInfoStub:
    """minimal FuncInfo for evaluating class-level expressions in their module."""

    def __init__(self, ci):
        self.module = ci.module
        self.cls = ci
        self.qualname = ci.qualname + ".<class>"
        self.node = ci.node


def _sel_list(k, lst):
    """lst[k] for symbolic k and a concrete list."""
    if all(is_scalar(x) for x in lst):
        return N._select(k, list(lst))
    c = cur()
    for j in range(len(lst) - 1):
        if c.branch(zi(k) == j):
            return lst[j]
    return lst[-1]


def fmt_eq(a, b):
    if isinstance(a, FmtStr) and isinstance(b, FmtStr):
        if a.template != b.template or len(a.values) != len(b.values):
            return False
        return sym.And_(*[sym.same(x, y) for x, y in zip(a.values, b.values)])
    return False


def foreign(dotted):
    head = dotted.split(".")[0]
    if dotted in FOREIGN_MODULES:
        return ModRef(dotted)
    if dotted in FOREIGN_CONSTS:
        return FOREIGN_CONSTS[dotted]()
    if dotted in FOREIGN_TYPES:
        return TypeRef(FOREIGN_TYPES[dotted])
    return ForeignFn(dotted)


FOREIGN_MODULES = {"numpy", "numpy.linalg", "numpy.fft", "scipy", "scipy.signal", "scipy.linalg", "scipy.signal.windows",
                   "scipy.signal.windows", "scipy.optimize", "pandas", "matplotlib", "matplotlib.pyplot",
                   "logging", "typing", "copy", "itertools", "pickle", "abc", "numpy.typing", "tkinter", "os", "glob",
                   "matplotlib.figure", "pydantic"}
FOREIGN_CONSTS = {
    "numpy.nan": lambda: sym.NAN, "numpy.inf": lambda: sym.NAN, "numpy.pi": sym.pi_const,
    "numpy.newaxis": lambda: None,
}
FOREIGN_TYPES = {"numpy.ndarray": "ndarray", "pandas.DataFrame": "DataFrame", "numpy.float64": "float",
                 "numpy.int64": "int", "numpy.complex128": "complex"}

BUILTIN_TYPES = {"int", "float", "complex", "bool", "str", "list", "tuple", "dict", "set", "object", "type"}
BUILTINS = {"len", "range", "enumerate", "zip", "abs", "min", "max", "sum", "all", "any", "isinstance",
            "issubclass", "getattr", "hasattr", "setattr", "print", "sorted", "reversed", "round", "iter", "next",
            "map", "filter", "id", "repr", "callable", "slice"}


# ----------------------------------------------------------------------------------
# structural comparison producing obligations
# ----------------------------------------------------------------------------------


def assert_same(label, got, want, kind="post"):
    """Emit obligations stating that `got` (computed by the code) equals `want` (specified)."""
    c = cur()
    if isinstance(want, Poison) or isinstance(got, Poison):
        raise Unsupported(f"comparison with poison value at {label}")
    if want is None or got is None:
        c.oblige(kind, label, got is want)
        return
    if isinstance(want, (tuple, list)) and isinstance(got, (tuple, list)):
        if len(want) != len(got):
            c.oblige(kind, label + ".len", False)
            return
        for i, (g, w) in enumerate(zip(got, want)):
            assert_same(f"{label}[{i}]", g, w, kind)
        return
    if isinstance(want, Seq) or isinstance(got, Seq):
        wl = want.length if isinstance(want, Seq) else len(want)
        gl = got.length if isinstance(got, Seq) else len(got)
        c.oblige(kind, label + ".len", sym.eq(gl, wl))
        if (is_pyint(gl) and gl == 0) or (is_pyint(wl) and wl == 0):
            return
        k = c.fresh_int("sk")

        def sub():
            N.ground(k)
            gv = got.get(k) if isinstance(got, Seq) else _sel_list(k, got)
            wv = want.get(k) if isinstance(want, Seq) else _sel_list(k, want)
            assert_same(label + "[k]", gv, wv, kind)
        c.subproof(z3.And(k >= 0, k < zi(wl), k < zi(gl)), sub)
        return
    if isinstance(want, dict) and isinstance(got, dict):
        if set(want) != set(got):
            c.oblige(kind, label + ".keys", False)
            return
        for k_ in want:
            assert_same(f"{label}[{k_!r}]", got[k_], want[k_], kind)
        return
    if isinstance(want, Arr) or isinstance(got, Arr):
        if not isinstance(got, Arr):
            got = N.asarray(got)
        if not isinstance(want, Arr):
            want = N.asarray(want)
        if want.ndim != got.ndim:
            c.oblige(kind, label + ".ndim", False)
            return
        shape_ok = sym.And_(*[sym.eq(g, w) for g, w in zip(got.shape, want.shape)])
        c.oblige(kind, label + ".shape", shape_ok)
        if shape_ok is False:
            return
        if want.term is not None and got.term is not None:
            c.oblige(kind, label + ".term", want.term == got.term)
            return
        if getattr(c, "tol", None) is not None and all(is_pyint(x) for ax in want.axes for x in ax) \
                and all(is_pyint(x) for ax in got.axes for x in ax):
            # concrete mode (replay): compare cell by cell
            import itertools
            import random as _rnd
            cells = list(itertools.product(*[range(sym.prod(ax)) for ax in want.axes]))
            if len(cells) > 1500:
                cells = _rnd.Random(0).sample(cells, 1500)
            for flat in cells:
                wi = tuple(sym.split_index(i, ax) for i, ax in zip(flat, want.axes))
                gi = tuple(sym.split_index(i, ax) for i, ax in zip(flat, got.axes))
                assert_same(f"{label}{list(flat)}", got.cell(gi), want.cell(wi), kind)
            return
        idx, rng = want.skolem("c", assume=False)

        def sub():
            for t in idx:
                if len(t) == 1:
                    N.ground(t[0])
            gi = []
            for t, wa, ga in zip(idx, want.axes, got.axes):
                gi.append(t if sym.same_axes(wa, ga) else sym.split_index(sym.flat_index(t, wa), ga))
            gv = got.cell(tuple(gi))
            wv = want.cell(idx)
            assert_same(label + "[cell]", gv, wv, kind)
        c.subproof(sym.And_(shape_ok, rng), sub)
        return
    if is_scalar(want) and is_scalar(got):
        from .lemmas import sum_same
        c.oblige(kind, label, sum_same(got, want))
        return
    if isinstance(want, (str, SymStr, FmtStr)) or isinstance(got, (str, SymStr, FmtStr)):
        if isinstance(want, FmtStr) or isinstance(got, FmtStr):
            c.oblige(kind, label, fmt_eq(got, want))
        else:
            c.oblige(kind, label, sym.eq(got, want))
        return
    if isinstance(want, Obj) and isinstance(got, Obj):
        if want is got:
            c.oblige(kind, label, True)
            return
        if want.cls != got.cls:
            c.oblige(kind, label + ".cls", False)
            return
        for f_ in want.fields:
            if f_ not in got.fields:
                c.oblige(kind, f"{label}.{f_}", False)
            else:
                assert_same(f"{label}.{f_}", got.fields[f_], want.fields[f_], kind)
        return
    if isinstance(want, Opaque) and isinstance(got, Opaque):
        c.oblige(kind, label, want is got or (want.tag == got.tag and want.payload is got.payload))
        return
    c.oblige(kind, label + ".type", False, {"got": type(got).__name__, "want": type(want).__name__})


# ----------------------------------------------------------------------------------
# builtins
# ----------------------------------------------------------------------------------


def builtin_call(fr: Frame, name, args, kwargs):
    c = cur()
    if name == "len":
        x = args[0]
        if isinstance(x, (list, tuple, dict, str)):
            return len(x)
        if isinstance(x, Seq):
            return x.length
        if isinstance(x, Arr):
            if x.ndim == 0:
                raise PyRaise("TypeError", "len() of unsized object")
            return x.extent(0)
        if isinstance(x, RangeV):
            return x.count()
        if isinstance(x, Obj):
            hook = fr.I.models.get("len:" + x.cls)
            if hook:
                return hook(fr.I, x)
        if isinstance(x, (F, C)) or is_int(x):
            raise PyRaise("TypeError", "object of this type has no len()")
        raise Unsupported(f"len({type(x).__name__})")
    if name == "range":
        vals = [sym.to_int(a) if isinstance(a, F) else a for a in args]
        for v in vals:
            if not is_int(v):
                raise PyRaise("TypeError", "range() argument must be an integer")
        if len(vals) == 1:
            return RangeV(0, vals[0], 1)
        if len(vals) == 2:
            return RangeV(vals[0], vals[1], 1)
        return RangeV(vals[0], vals[1], vals[2])
    if name == "enumerate":
        return EnumV(args[0], kwargs.get("start", args[1] if len(args) > 1 else 0))
    if name == "zip":
        return ZipV(list(args))
    if name == "int":
        x = args[0] if args else 0
        if isinstance(x, Arr):
            if x.ndim == 0:
                x = x.cell(())
            elif is_pyint(sym.prod(x.shape)) and sym.prod(x.shape) == 1:
                x = x.cell(tuple((0,) * len(ax) for ax in x.axes))
            else:
                raise PyRaise("TypeError", "only size-1 arrays can be converted to Python scalars")
        if isinstance(x, (str, FmtStr, SymStr)):
            raise Unsupported("int(str)")
        return sym.to_int(x)
    if name == "float":
        x = args[0]
        if isinstance(x, Arr) and x.ndim == 0:
            x = x.cell(())
        f = sym.toF(x)
        return F(f.nan, f.v, py=True)
    if name == "bool":
        return fr.truthy(args[0])
    if name == "str":
        x = args[0]
        if isinstance(x, (str, SymStr)):
            return x
        if is_pyint(x):
            return str(x)
        return FmtStr("{}", [x])
    if name == "abs":
        x = args[0]
        return N.abs_(x) if isinstance(x, Arr) else sym.abs_(x)
    if name in ("list", "tuple"):
        if not args:
            return [] if name == "list" else ()
        x = args[0]
        if isinstance(x, (list, tuple)):
            return list(x) if name == "list" else tuple(x)
        if isinstance(x, dict):
            return list(x.keys())
        n, el = fr.iter_view(x)
        if is_pyint(n):
            out = [el(k) for k in range(n)]
            return out if name == "list" else tuple(out)
        return Seq(n, el)
    if name == "dict":
        d = {}
        if args:
            src = args[0]
            if isinstance(src, dict):
                d.update(src)
            else:
                n, el = fr.iter_view(src)
                if not is_pyint(n):
                    raise Unsupported("dict() of a symbolic iterable")
                for k in range(n):
                    kk, vv = el(k)
                    if not isinstance(kk, (str, int)):
                        raise Unsupported("dict() with symbolic keys")
                    d[kk] = vv
        d.update(kwargs)
        return d
    if name == "isinstance":
        return isinstance_(fr, args[0], args[1])
    if name == "issubclass":
        a, b = args
        if isinstance(a, RepoCls) and isinstance(b, RepoCls):
            return b.ci in fr.I.repo.mro(a.ci)
        raise Unsupported("issubclass on foreign classes")
    if name == "getattr":
        try:
            return fr.getattr(args[0], args[1])
        except PyRaise as e:
            if e.etype == "AttributeError" and len(args) > 2:
                return args[2]
            raise
    if name == "hasattr":
        try:
            fr.getattr(args[0], args[1])
            return True
        except PyRaise as e:
            if e.etype == "AttributeError":
                return False
            raise
    if name == "setattr":
        fr.setattr(args[0], args[1], args[2])
        return None
    if name == "print":
        return None
    if name in ("min", "max"):
        xs = list(args[0]) if len(args) == 1 and isinstance(args[0], (list, tuple)) else list(args)
        if len(args) == 1 and not isinstance(args[0], (list, tuple)):
            a = N.asarray(args[0])
            return N.min_(a) if name == "min" else N.max_(a)
        if not xs:
            raise PyRaise("ValueError", f"{name}() arg is an empty sequence")
        r = xs[0]
        for x in xs[1:]:
            cond = sym.lt(x, r) if name == "min" else sym.lt(r, x)
            r = sym.ite(cond, x, r) if not isinstance(cond, bool) else (x if cond else r)
        return r
    if name == "sum":
        x = args[0]
        if isinstance(x, (list, tuple)):
            acc = args[1] if len(args) > 1 else 0
            for v in x:
                acc = fr.binop(ast.Add(), acc, v)
            return acc
        return N.sum_(x)
    if name in ("all", "any"):
        x = args[0]
        if isinstance(x, (list, tuple)):
            ts = [fr.truthy(v) for v in x]
            return sym.And_(*ts) if name == "all" else sym.Or_(*ts)
        if isinstance(x, Seq):
            a = Arr(((x.length,),), lambda idx, x=x: fr.truthy(x.get(idx[0][0])), "bool")
            return N.all_(a) if name == "all" else N.any_(a)
        if isinstance(x, Arr):
            return N.all_(x) if name == "all" else N.any_(x)
        raise Unsupported(f"{name}() of {type(x).__name__}")
    if name == "type":
        x = args[0]
        if isinstance(x, Obj):
            if "__type_tag__" in x.fields:
                return x.fields["__type_tag__"]        # symbolic class identity (an integer tag)
            ci = fr.I.class_of(x)
            return RepoCls(ci) if ci else TypeRef(x.cls)
        if is_int(x):
            return TypeRef("int")
        if isinstance(x, F):
            return TypeRef("float")
        if isinstance(x, (list, Seq)):
            return TypeRef("list")
        if isinstance(x, str):
            return TypeRef("str")
        if isinstance(x, Arr):
            return TypeRef("ndarray")
        raise Unsupported("type() of this value")
    if name == "slice":
        if kwargs or not 1 <= len(args) <= 3:
            raise Unsupported("slice() outside its model")
        return slice(*args)
    if name == "sorted":
        x = args[0]
        if kwargs:
            raise Unsupported("sorted() with key/reverse")
        if isinstance(x, (list, tuple)) and all(isinstance(v, (int, str)) and not isinstance(v, bool) for v in x):
            return sorted(x)
        if isinstance(x, SetOf):
            # sorted(set(xs)) of a short list of integers: insertion with one fork per comparison (duplicates collapse)
            n = x.arr.extent(0)
            if not is_pyint(n) or n > 4 or x.arr.kind != "int":
                raise Unsupported("sorted(set(...)) of more than four values or of non-integers")
            c = cur()
            f = x.arr.snapshot_fn()
            out = []
            for k in range(n):
                v = f(((k,),))
                placed = False
                for i, u in enumerate(out):
                    if c.branch(sym.eq(v, u)):
                        placed = True
                        break
                    if c.branch(sym.lt(v, u)):
                        out.insert(i, v)
                        placed = True
                        break
                if not placed:
                    out.append(v)
            return out
        a = N.asarray(x)
        if a.ndim != 1:
            raise Unsupported("sorted() of a non-sequence")
        perm = N.argsort(a)
        f = a.snapshot_fn()
        return Seq(a.extent(0), lambda k, f=f, perm=perm: f(((perm.get(k),),)))
    if name == "reversed":
        x = args[0]
        if isinstance(x, (list, tuple)):
            return list(reversed(x))
        raise Unsupported("reversed() of a symbolic sequence")
    if name == "round":
        if len(args) != 1 or kwargs:
            raise Unsupported("round() with a number of digits")
        x = args[0]
        if is_int(x):
            return x
        if isinstance(x, F):
            # round(x): some integer within 1/2 of x (which one at a tie - banker's rounding - is left open; NaN / inf raise in Python)
            c = cur()
            if c.branch(sym.zb(x.nan) if not isinstance(x.nan, bool) else x.nan):
                raise PyRaise("ValueError", "cannot convert float NaN to integer")
            r = c.fresh_int("round")
            c.fact(z3.And(z3.ToReal(r) - x.v <= z3.RealVal("1/2"), x.v - z3.ToReal(r) <= z3.RealVal("1/2")))
            return r
        raise Unsupported("round() of a non-number")
    if name == "object":
        return Obj("object", {})
    if name == "set":
        if args and isinstance(args[0], Arr):
            return SetOf(args[0])
        if args and isinstance(args[0], (Seq, list, tuple)) and not (isinstance(args[0], (list, tuple)) and not args[0]):
            a0 = N.asarray(args[0])
            if a0.ndim == 1 and a0.kind in ("int", "float", "bool"):
                return SetOf(a0)       # membership view of a list of numbers
        raise Unsupported("set() of a non-array")
    raise Unsupported(f"builtin {name}")


def isinstance_(fr, x, t):
    if isinstance(t, tuple):
        return sym.Or_(*[isinstance_(fr, x, tt) for tt in t])
    if isinstance(t, z3.ArithRef) and isinstance(x, Obj) and "__type_tag__" in x.fields:
        # symbolic class identities (integer tags): an instance of its own class, and of any class the tag's class derives
        # from - the subclass relation between two different symbolic classes is unknown (an uninterpreted relation)
        sub = z3.Function("class.derives_from", z3.IntSort(), z3.IntSort(), z3.BoolSort())
        tx = x.fields["__type_tag__"]
        return sym.Or_(tx == t, sub(tx, t))
    if isinstance(t, RepoCls):
        ci = fr.I.class_of(x)
        return ci is not None and t.ci in fr.I.repo.mro(ci)
    if isinstance(t, TypeRef):
        n = t.name
        if n == "int":
            return is_int(x) or isinstance(x, bool)
        if n == "bool":
            return isinstance(x, bool) or isinstance(x, z3.BoolRef)
        if n == "float":
            return isinstance(x, F) and x.py
        if n == "complex":
            return isinstance(x, C)
        if n == "str":
            return isinstance(x, (str, SymStr, FmtStr))
        if n == "list":
            return isinstance(x, (list, Seq))
        if n == "tuple":
            return isinstance(x, tuple)
        if n == "dict":
            return isinstance(x, dict)
        if n == "ndarray":
            return isinstance(x, Arr)
        if n == "DataFrame":
            return isinstance(x, Obj) and x.cls == "pandas.DataFrame"
        if n == "object":
            return True
        raise Unsupported(f"isinstance(..., {n})")
    if isinstance(t, ForeignFn):
        raise Unsupported(f"isinstance against foreign {t.name}")
    raise Unsupported("isinstance against a non-type")
