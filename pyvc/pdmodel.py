"""Abstract pandas tables for the validation skeleton of the geometry checks (C19).

A table is a record (rows, columns, index labels, column labels, provenance tag): the model knows shapes, emptiness,
labels and WHICH operation produced a table from which - not the cell values.  That is exactly what check_on_geo1's
control flow depends on; what reindex / sub / to_numpy compute is pandas' business (trusted, exercised by the bounded
stand-in c19_geo)."""
import z3

from . import sym
from .core import PyRaise, Unsupported, cur
from .sym import Obj, Opaque, Seq

DF = "pandas.DataFrame"


def table(nrows, ncols, index=None, columns=None, tag=None, cells=None):
    """cells: optional row-major list of the cell contents as strings (what str(value) gives), for tables whose cells are names"""
    return Obj(DF, {"nrows": nrows, "ncols": ncols, "idx_labels": index, "col_labels": columns, "tag": tag, "cells": cells})


def is_table(x):
    return isinstance(x, Obj) and x.cls == DF


def empty_flag(t):
    n, m = t.fields["nrows"], t.fields["ncols"]
    return sym.Or_(sym.eq(n, 0), sym.eq(m, 0))


def getattr_df(interp, t, attr):
    from .interp import BoundBuiltin
    if attr == "values":
        return Obj("pandas.values", {"table": t, "shape": (t.fields["nrows"], t.fields["ncols"]), "tag": ("values", t.fields["tag"]), "cells": t.fields.get("cells")})
    if attr == "empty":
        return empty_flag(t)
    if attr == "index":
        return Obj("pandas.Index", {"labels": t.fields["idx_labels"]})
    if attr == "columns":
        return Obj("pandas.Index", {"labels": t.fields["col_labels"]})
    if attr == "shape":
        return (t.fields["nrows"], t.fields["ncols"])
    if attr in ("reindex", "sub", "to_numpy", "fillna", "astype", "copy"):
        return BoundBuiltin(t, attr)
    raise Unsupported(f"DataFrame.{attr} (not in the table model)")


def getattr_values(interp, v, attr):
    from .interp import BoundBuiltin
    if attr == "shape":
        return v.fields["shape"]
    if attr in ("tolist", "flatten"):
        return BoundBuiltin(v, attr)
    raise Unsupported(f"DataFrame.values.{attr} (not in the table model)")


def getattr_index(interp, ix, attr):
    from .interp import BoundBuiltin
    if attr in ("to_list", "tolist"):
        return BoundBuiltin(ix, attr)
    raise Unsupported(f"Index.{attr} (not in the table model)")


def method(fr, obj, name, args, kwargs):
    if obj.cls == "pandas.Index":
        lab = obj.fields["labels"]
        if lab is None:
            raise Unsupported("labels of this table are not modelled")
        return list(lab) if isinstance(lab, (list, tuple)) else lab
    if obj.cls == "pandas.values":
        if name == "flatten" and obj.fields.get("cells") is not None and not args and not kwargs:
            return list(obj.fields["cells"])
        raise Unsupported(f"DataFrame.values.{name}() (cell values are not modelled)")
    t = obj
    f = t.fields
    if name == "reindex":
        if args or set(kwargs) != {"index"}:
            raise Unsupported("DataFrame.reindex with arguments other than index=")
        names = kwargs["index"]
        n = len(names) if isinstance(names, (list, tuple)) else (names.length if isinstance(names, Seq) else None)
        if n is None:
            raise Unsupported("reindex(index=<not a list>)")
        return table(n, f["ncols"], index=names, columns=f["col_labels"], tag=("reindex", f["tag"], names))
    if name == "sub":
        if len(args) != 1 or kwargs:
            raise Unsupported("DataFrame.sub with keyword arguments")
        return table(f["nrows"], f["ncols"], f["idx_labels"], f["col_labels"], tag=("sub", f["tag"], args[0]))
    if name == "to_numpy":
        if args or kwargs:
            raise Unsupported("DataFrame.to_numpy with arguments")
        return Obj("pandas.values", {"table": t, "shape": (f["nrows"], f["ncols"]), "tag": ("to_numpy", f["tag"])})
    if name == "copy":
        return table(f["nrows"], f["ncols"], f["idx_labels"], f["col_labels"], tag=f["tag"], cells=f.get("cells"))
    if name == "fillna":
        if len(args) != 1 or kwargs:
            raise Unsupported("DataFrame.fillna with keyword arguments")
        # cells given as strings already show what a filled cell prints as
        return table(f["nrows"], f["ncols"], f["idx_labels"], f["col_labels"], tag=("fillna", f["tag"], args[0]), cells=f.get("cells"))
    raise Unsupported(f"DataFrame.{name}() (not in the table model)")


def construct(fr, args, kwargs):
    """pd.DataFrame(): the empty table; pd.DataFrame(table) a copy; anything else is outside the model"""
    if not args and not kwargs:
        return table(0, 0, index=[], columns=[], tag=("empty",))
    if len(args) == 1 and not kwargs:
        a = args[0]
        if a is None:
            return table(0, 0, index=[], columns=[], tag=("empty",))
        if is_table(a):
            f = a.fields
            return table(f["nrows"], f["ncols"], f["idx_labels"], f["col_labels"], tag=f["tag"])
    if len(args) == 1 and set(kwargs) <= {"columns"} and isinstance(args[0], sym.Arr) and args[0].ndim == 2 and args[0].meta.get("fill"):
        a = args[0]
        cols = kwargs.get("columns")
        labels = cols.fields["labels"] if isinstance(cols, Obj) and cols.cls == "pandas.Index" else None
        return table(a.shape[0], a.shape[1], index=None, columns=labels, tag=("filled", a.cell(((0,), (0,))) if False else "ones"))
    raise Unsupported("pd.DataFrame(...) with data (not in the table model)")


def getitem_df(interp, t, key):
    """df[list of column labels]: those columns in that order"""
    if isinstance(key, (list, tuple)):
        f = t.fields
        return table(f["nrows"], len(key), f["idx_labels"], list(key), tag=("select", f["tag"], key))
    raise Unsupported("DataFrame[...] with a key other than a list of column labels")


def setitem_df(interp, t, key, val):
    """df[label] = scalar: adds (or overwrites) one column, in place"""
    f = t.fields
    if f["col_labels"] is None:
        raise Unsupported("column labels of this table are not modelled")
    f["col_labels"] = list(f["col_labels"]) + [key]
    f["ncols"] = sym.add(f["ncols"], 1)
    f["tag"] = ("addcol", f["tag"], key, val)


def install(interp):
    interp.models["getattr:" + DF] = getattr_df
    interp.models["getattr:pandas.values"] = getattr_values
    interp.models["getattr:pandas.Index"] = getattr_index
