"""Symbolic values for pyvc.

int      : Python int | z3 Int expression              (mathematical integers)
bool     : Python bool | z3 BoolRef
float    : F(nan, v)      nan: bool|BoolRef  ("non-finite" flag: NaN and +-inf folded),
                          v  : z3 Real expression (meaningful only when not nan)
complex  : C(nan, re, im)
str/None : themselves
list/tuple/dict : Python containers of values (concrete length)
Seq      : list of symbolic length (len, k -> value)
Arr      : ndarray with symbolic shape; a *lambda* from index tuples to scalar values.
           Each axis carries a factorisation (extents, major -> minor) so that block
           structured matrices (vstack of blocks, flattened tables) are indexed by
           (block, row) pairs without div/mod.
Obj      : record with named fields (instances of repo classes, results, events ...)
"""
from __future__ import annotations

from fractions import Fraction

import z3

from .core import Unsupported, cur

# ----------------------------------------------------------------------------------
# booleans
# ----------------------------------------------------------------------------------


def is_bool(x):
    return isinstance(x, (bool, z3.BoolRef))


def zb(x):
    return z3.BoolVal(x) if isinstance(x, bool) else x


def And_(*xs):
    out = []
    for x in xs:
        if isinstance(x, bool):
            if not x:
                return False
            continue
        out.append(x)
    if not out:
        return True
    return out[0] if len(out) == 1 else z3.And(*out)


def Or_(*xs):
    out = []
    for x in xs:
        if isinstance(x, bool):
            if x:
                return True
            continue
        out.append(x)
    if not out:
        return False
    return out[0] if len(out) == 1 else z3.Or(*out)


def Not_(x):
    if isinstance(x, bool):
        return not x
    return z3.Not(x)


def Implies_(a, b):
    return Or_(Not_(a), b)


def Iff_(a, b):
    if isinstance(a, bool) and isinstance(b, bool):
        return a == b
    return zb(a) == zb(b)


# ----------------------------------------------------------------------------------
# integers
# ----------------------------------------------------------------------------------


def is_pyint(x):
    return isinstance(x, int) and not isinstance(x, bool)


def is_symint(x):
    return isinstance(x, z3.ArithRef) and x.is_int()


def is_int(x):
    return is_pyint(x) or is_symint(x)


def zi(x):
    return z3.IntVal(x) if isinstance(x, int) else x


def simp(x):
    if isinstance(x, z3.ExprRef):
        x = z3.simplify(x)
        if z3.is_int_value(x):
            return x.as_long()
        if z3.is_true(x):
            return True
        if z3.is_false(x):
            return False
    return x


def int_eq_syntactic(a, b):
    if is_pyint(a) and is_pyint(b):
        return a == b
    d = simp(zi(a) - zi(b))
    return is_pyint(d) and d == 0


def prod(xs):
    r = 1
    for x in xs:
        r = x * r if is_pyint(r) and r == 1 else r * x
    return simp(r) if isinstance(r, z3.ExprRef) else r


# ----------------------------------------------------------------------------------
# reals with a non-finite flag, complexes
# ----------------------------------------------------------------------------------


def rv(x):
    """Python number -> z3 Real value (exact decimal reading of floats)."""
    if isinstance(x, bool):
        return z3.RealVal(1 if x else 0)
    if isinstance(x, int):
        return z3.RealVal(x)
    if isinstance(x, float):
        fr = Fraction(repr(x))
        return z3.RealVal(f"{fr.numerator}/{fr.denominator}")
    if isinstance(x, Fraction):
        return z3.RealVal(f"{x.numerator}/{x.denominator}")
    if isinstance(x, z3.ArithRef):
        return z3.ToReal(x) if x.is_int() else x
    raise Unsupported(f"rv({type(x)})")


class F:
    """float: (nan flag, real value).  `py` marks a Python float (x/0 raises)."""
    __slots__ = ("nan", "v", "py")

    def __init__(self, nan, v, py=False):
        self.nan = nan
        self.v = v
        self.py = py

    def __repr__(self):
        return f"F(nan={self.nan}, v={self.v})"

    # operator sugar for contract authors
    def __add__(self, o): return add(self, o)
    def __radd__(self, o): return add(o, self)
    def __sub__(self, o): return sub(self, o)
    def __rsub__(self, o): return sub(o, self)
    def __mul__(self, o): return mul(self, o)
    def __rmul__(self, o): return mul(o, self)
    def __truediv__(self, o): return div(self, o)
    def __rtruediv__(self, o): return div(o, self)
    def __neg__(self): return neg(self)
    def __lt__(self, o): return lt(self, o)
    def __le__(self, o): return le(self, o)
    def __gt__(self, o): return lt(o, self)
    def __ge__(self, o): return le(o, self)
    __hash__ = None


class C:
    __slots__ = ("nan", "re", "im")

    def __init__(self, nan, re, im):
        self.nan = nan
        self.re = re
        self.im = im

    def __repr__(self):
        return f"C(nan={self.nan}, re={self.re}, im={self.im})"

    def __add__(self, o): return add(self, o)
    def __radd__(self, o): return add(o, self)
    def __sub__(self, o): return sub(self, o)
    def __rsub__(self, o): return sub(o, self)
    def __mul__(self, o): return mul(self, o)
    def __rmul__(self, o): return mul(o, self)
    def __truediv__(self, o): return div(self, o)
    def __rtruediv__(self, o): return div(o, self)
    def __neg__(self): return neg(self)
    __hash__ = None


NAN = F(True, z3.RealVal(0))
CNAN = C(True, z3.RealVal(0), z3.RealVal(0))


def is_scalar(x):
    return isinstance(x, (int, float, complex, F, C, z3.ArithRef, z3.BoolRef))


def kind_of(x):
    if isinstance(x, bool) or isinstance(x, z3.BoolRef):
        return "bool"
    if is_int(x):
        return "int"
    if isinstance(x, (float, F)):
        return "float"
    if isinstance(x, (complex, C)):
        return "complex"
    if isinstance(x, z3.ArithRef):
        return "float"
    return "obj"


_KORD = {"bool": 0, "int": 1, "float": 2, "complex": 3, "obj": 4}


def kind_join(a, b):
    return a if _KORD[a] >= _KORD[b] else b


def pi_const():
    c = cur()
    if getattr(c, "tol", None) is not None:
        import math
        return F(False, rv(math.pi))
    p = c.memo.get("pi")
    if p is None:
        p = z3.Real("pi")
        c.fact(z3.And(p > z3.RealVal("3.14159"), p < z3.RealVal("3.1416")))
        c.memo["pi"] = p
    return F(False, p)


def toF(x) -> F:
    if isinstance(x, F):
        return x
    if isinstance(x, bool):
        return F(False, rv(x))
    if isinstance(x, z3.BoolRef):
        return F(False, z3.If(x, z3.RealVal(1), z3.RealVal(0)))
    if isinstance(x, int):
        return F(False, rv(x), py=True)
    if isinstance(x, float):
        if x != x or x in (float("inf"), float("-inf")):
            return NAN
        return F(False, rv(x), py=True)
    if isinstance(x, z3.ArithRef):
        return F(False, rv(x), py=True)
    raise Unsupported(f"toF({type(x).__name__})")


def toC(x) -> C:
    if isinstance(x, C):
        return x
    if isinstance(x, complex):
        return C(False, rv(x.real), rv(x.imag))
    f = toF(x)
    return C(f.nan, f.v, z3.RealVal(0))


def coerce2(a, b):
    """Promote two scalars to a common kind; returns (kind, a', b')."""
    k = kind_join(kind_of(a), kind_of(b))
    if k == "obj":
        raise Unsupported(f"arithmetic on {type(a).__name__}, {type(b).__name__}")
    if k == "bool":
        k = "int"
    if k == "int":
        return k, b2i(a), b2i(b)
    if k == "float":
        return k, toF(a), toF(b)
    return k, toC(a), toC(b)


def b2i(x):
    if isinstance(x, bool):
        return int(x)
    if isinstance(x, z3.BoolRef):
        return z3.If(x, z3.IntVal(1), z3.IntVal(0))
    return x


def add(a, b):
    k, a, b = coerce2(a, b)
    if k == "int":
        return simp(a + b) if not (is_pyint(a) and is_pyint(b)) else a + b
    if k == "float":
        return F(Or_(a.nan, b.nan), a.v + b.v, a.py and b.py)
    return C(Or_(a.nan, b.nan), a.re + b.re, a.im + b.im)


def sub(a, b):
    k, a, b = coerce2(a, b)
    if k == "int":
        return simp(a - b) if not (is_pyint(a) and is_pyint(b)) else a - b
    if k == "float":
        return F(Or_(a.nan, b.nan), a.v - b.v, a.py and b.py)
    return C(Or_(a.nan, b.nan), a.re - b.re, a.im - b.im)


def mul(a, b):
    k, a, b = coerce2(a, b)
    if k == "int":
        return simp(a * b) if not (is_pyint(a) and is_pyint(b)) else a * b
    if k == "float":
        return F(Or_(a.nan, b.nan), a.v * b.v, a.py and b.py)
    return C(Or_(a.nan, b.nan), a.re * b.re - a.im * b.im, a.re * b.im + a.im * b.re)


def neg(a):
    if is_int(a):
        return -a
    if isinstance(a, (bool, z3.BoolRef)):
        return -b2i(a)
    if isinstance(a, float):
        a = toF(a)
    if isinstance(a, F):
        return F(a.nan, -a.v, a.py)
    if isinstance(a, complex):
        a = toC(a)
    if isinstance(a, C):
        return C(a.nan, -a.re, -a.im)
    raise Unsupported("neg")


def div(a, b):
    """True division.  Division by zero: Python floats/ints raise ZeroDivisionError (a
    `safe.div` obligation is emitted instead); NumPy values become non-finite."""
    from .core import PyRaise
    k, a2, b2 = coerce2(a, b)
    c = cur()
    if k == "int" and c.numpy_mode:
        return F(zi(b2) == 0, rv(a2) / rv(b2))
    if k == "int":
        # python ints: true division -> float
        if is_pyint(a2) and is_pyint(b2):
            if b2 == 0:
                raise PyRaise("ZeroDivisionError", "division by zero")
            return F(False, rv(Fraction(a2, b2)), py=True)
        if c.branch(zi(b2) == 0):
            raise PyRaise("ZeroDivisionError", "division by zero")
        return F(False, rv(a2) / rv(b2), py=True)
    if k == "float":
        pyop = a2.py and b2.py and not c.numpy_mode
        if pyop:
            if c.branch(And_(Not_(b2.nan), b2.v == 0)):
                raise PyRaise("ZeroDivisionError", "float division by zero")
            return F(Or_(a2.nan, b2.nan), a2.v / b2.v, py=True)
        return F(Or_(a2.nan, b2.nan, b2.v == 0), a2.v / b2.v)
    pd = _proportional_div(a2, b2)
    if pd is not None:
        return pd
    # polynomial normal forms (sum of monomials) so that equal quotients are syntactically equal terms
    nf = lambda e: z3.simplify(e, som=True)     # noqa: E731
    den = nf(b2.re * b2.re + b2.im * b2.im)
    return C(Or_(a2.nan, b2.nan, den == 0),
             nf(a2.re * b2.re + a2.im * b2.im) / den,
             nf(a2.im * b2.re - a2.re * b2.im) / den)


def _proportional_div(a, b):
    """(k1 * Z) / (k2 * Z) = k1 / k2 for complex Z that is a linear form in lazy-sum atoms and real k1, k2
    (non-finite when k2 == 0 or Z == 0): an exact algebraic identity that spares the solver a rational-function
    proof.  Recognised syntactically: numerator and denominator are linear in the same sum atoms with
    coefficient pairs of one common ratio."""
    c = cur()
    sums = c.memo.get("sums")
    if not sums:
        return None
    atoms = {}
    for e in (b.re, b.im):
        st = [z3.simplify(e)]
        seen = set()
        while st:
            x = st.pop()
            if x.get_id() in seen:
                continue
            seen.add(x.get_id())
            if z3.is_app(x) and x.sexpr() in sums:
                atoms[x.sexpr()] = x
                continue
            st.extend(x.children())
    if not atoms:
        return None
    atoms = list(atoms.values())
    zero, one = z3.RealVal(0), z3.RealVal(1)

    def coefs(e):
        """coefficients of e as a linear form in the atoms, or None"""
        e = z3.simplify(e)
        cs = []
        lin = zero
        for u in atoms:
            sub = [(v, one if v.eq(u) else zero) for v in atoms]
            cu = z3.simplify(z3.substitute(e, *sub))
            cs.append(cu)
            lin = lin + cu * u
        if z3.simplify(e - lin, som=True).sexpr() not in ("0.0", "0"):
            return None
        return cs
    ratio = None
    for (x, y) in ((a.re, b.re), (a.im, b.im)):
        cx, cy = coefs(x), coefs(y)
        if cx is None or cy is None:
            return None
        for p, q in zip(cx, cy):
            qz = z3.simplify(q).sexpr() in ("0.0", "0")
            pz = z3.simplify(p).sexpr() in ("0.0", "0")
            if qz and pz:
                continue
            if qz != pz:
                return None
            if ratio is None:
                ratio = (p, q)
            elif z3.simplify(p * ratio[1] - ratio[0] * q, som=True).sexpr() not in ("0.0", "0"):
                return None
    if ratio is None:
        return None
    k1, k2 = ratio
    return C(Or_(a.nan, b.nan, k2 == 0, And_(b.re == 0, b.im == 0)), k1 / k2, z3.RealVal(0))


def floordiv(a, b):
    from .core import PyRaise
    if is_int(a) and is_int(b):
        if is_pyint(a) and is_pyint(b):
            if b == 0:
                raise PyRaise("ZeroDivisionError", "")
            return a // b
        c = cur()
        if is_pyint(b):
            if b > 0:
                return simp(zi(a) / b)
            raise Unsupported("floor division by a non-positive constant")
        if not c.is_valid(zi(b) > 0):
            raise Unsupported("floor division by a divisor not known to be positive")
        return idiv(a, b)
    raise Unsupported("floordiv on non-integers")


def idiv(a, b):
    """a // b for b > 0 (symbolic): returns q with fresh (q, r), a = b*q + r, 0 <= r < b."""
    c = cur()
    key = ("idiv", zi(a).sexpr(), zi(b).sexpr())
    if key in c.memo:
        return c.memo[key][0]
    q = c.fresh_int("q")
    r = c.fresh_int("r")
    c.fact(z3.And(zi(a) == zi(b) * q + r, r >= 0, r < zi(b)))
    c.memo[key] = (q, r)
    return q


def imod(a, b):
    if is_pyint(a) and is_pyint(b):
        return a % b
    c = cur()
    if is_pyint(b) and b > 0:
        return simp(zi(a) % b)
    if not c.is_valid(zi(b) > 0):
        raise Unsupported("modulo by a divisor not known to be positive")
    idiv(a, b)
    return c.memo[("idiv", zi(a).sexpr(), zi(b).sexpr())][1]


def _numeral(x):
    x = z3.simplify(x)
    if z3.is_rational_value(x):
        return float(x.numerator_as_long()) / float(x.denominator_as_long())
    return None


def _numeral_exact(x):
    x = z3.simplify(x)
    if z3.is_rational_value(x):
        return Fraction(x.numerator_as_long(), x.denominator_as_long())
    return None


def _numeric(fn, x):
    """replay mode: evaluate a transcendental function numerically on a numeral"""
    if getattr(cur(), "tol", None) is None:
        return None
    v = _numeral(x)
    if v is None:
        return None
    try:
        r = fn(v)
    except (ValueError, ZeroDivisionError):
        return None
    return rv(float(r))


def sqrt_real(x):
    """sqrt of a z3 real expression as an uninterpreted function with its defining facts."""
    import math
    c = cur()
    num = _numeric(math.sqrt, x)
    if num is not None:
        return num
    fn = c.memo.get("sqrt_fn")
    if fn is None:
        fn = z3.Function("sqrt", z3.RealSort(), z3.RealSort())
        c.memo["sqrt_fn"] = fn
    s = fn(x)
    key = ("sqrt", x.sexpr())
    if key not in c.memo:
        c.memo[key] = True
        c.fact(z3.Implies(x >= 0, z3.And(s >= 0, s * s == x)), heavy=True)
        c.fact(z3.Implies(x >= 0, s >= 0))
        c.fact(z3.Implies(x > 0, s > 0))
    return s


def sqrt_(a):
    if isinstance(a, (C, complex)):
        raise Unsupported("complex sqrt")
    a = toF(a)
    return F(Or_(a.nan, a.v < 0), sqrt_real(a.v))


def ufun(name, *sorts):
    c = cur()
    key = ("ufun", name, tuple(str(s_) for s_ in sorts))      # one function per name AND signature
    f = c.memo.get(key)
    if f is None:
        f = z3.Function(name, *sorts)
        c.memo[key] = f
    return f


R = z3.RealSort()
I_ = z3.IntSort()
B = z3.BoolSort()


def log_(a):
    if isinstance(a, (C, complex)):
        a = toC(a)
        # principal complex logarithm: log|z| + i arg z ; abstracted
        lr = ufun("clog_re", R, R, R)
        li = ufun("clog_im", R, R, R)
        return C(Or_(a.nan, And_(a.re == 0, a.im == 0)), lr(a.re, a.im), li(a.re, a.im))
    a = toF(a)
    import math
    num = _numeric(math.log, a.v)
    if num is not None:
        return F(a.nan, num)
    ln = ufun("ln", R, R)
    return F(Or_(a.nan, a.v <= 0), ln(a.v))


def log10_(a):
    a = toF(a)
    import math
    num = _numeric(math.log10, a.v)
    if num is not None:
        return F(a.nan, num)
    lg = ufun("log10", R, R)
    return F(Or_(a.nan, a.v <= 0), lg(a.v))


def exp_(a):
    if isinstance(a, (C, complex)):
        a = toC(a)
        er = ufun("cexp_re", R, R, R)
        ei = ufun("cexp_im", R, R, R)
        return C(a.nan, er(a.re, a.im), ei(a.re, a.im))
    a = toF(a)
    import math
    num = _numeric(math.exp, a.v)
    if num is not None:
        return F(a.nan, num)
    ex = ufun("exp", R, R)
    return F(a.nan, ex(a.v))


def arccos_(a):
    a = toF(a)
    import math
    num = _numeric(math.acos, a.v)
    if num is not None:
        return F(a.nan, num)
    ac = ufun("arccos", R, R)
    c = cur()
    r = ac(a.v)
    key = ("arccos", a.v.sexpr())
    if key not in c.memo:
        c.memo[key] = True
        p = pi_const().v
        c.fact(z3.Implies(z3.And(a.v >= -1, a.v <= 1), z3.And(r >= 0, r <= p)))
        c.fact(z3.Implies(z3.And(a.v >= 0, a.v <= 1), r <= p / 2))
        c.fact(z3.Implies(a.v == 1, r == 0))
    return F(Or_(a.nan, a.v < -1, a.v > 1), r)


def abs_(a):
    if is_int(a):
        if is_pyint(a):
            return abs(a)
        return z3.If(a >= 0, a, -a)
    if isinstance(a, (float,)):
        a = toF(a)
    if isinstance(a, F):
        return F(a.nan, z3.If(a.v >= 0, a.v, -a.v))
    if isinstance(a, complex):
        a = toC(a)
    if isinstance(a, C):
        return F(a.nan, sqrt_real(a.re * a.re + a.im * a.im))
    if isinstance(a, (bool, z3.BoolRef)):
        return b2i(a)
    raise Unsupported("abs")


def conj_(a):
    if isinstance(a, complex):
        a = toC(a)
    if isinstance(a, C):
        return C(a.nan, a.re, -a.im)
    return a


def real_(a):
    if isinstance(a, complex):
        a = toC(a)
    if isinstance(a, C):
        return F(a.nan, a.re)
    return a


def imag_(a):
    if isinstance(a, complex):
        a = toC(a)
    if isinstance(a, C):
        return F(a.nan, a.im)
    if isinstance(a, (F, float)):
        return F(toF(a).nan, z3.RealVal(0))
    return 0


def pow_(a, b):
    if isinstance(b, F) and b.nan is False:
        nv = _numeral_exact(b.v)
        if nv is not None:
            b = int(nv) if nv.denominator == 1 else float(nv)
    if is_pyint(b) and b >= 0 and b <= 8:
        if b == 0:
            return 1
        r = a
        for _ in range(b - 1):
            r = mul(r, a)
        return r
    if isinstance(b, float) and b == 0.5:
        return sqrt_(a)
    if is_pyint(a) and is_pyint(b):
        return a ** b
    if is_pyint(b) and b < 0:
        return div(1, pow_(a, -b))
    raise Unsupported(f"power with exponent {b}")


def lt(a, b):
    k, a, b = coerce2(a, b)
    if k == "int":
        return simp(zi(a) < zi(b)) if not (is_pyint(a) and is_pyint(b)) else a < b
    if k == "float":
        return And_(Not_(a.nan), Not_(b.nan), a.v < b.v)
    raise Unsupported("ordering of complex numbers")


def le(a, b):
    k, a, b = coerce2(a, b)
    if k == "int":
        return simp(zi(a) <= zi(b)) if not (is_pyint(a) and is_pyint(b)) else a <= b
    if k == "float":
        return And_(Not_(a.nan), Not_(b.nan), a.v <= b.v)
    raise Unsupported("ordering of complex numbers")


def eq(a, b):
    """Python/NumPy `==` on scalars (nan != nan)."""
    if a is None or b is None:
        return a is b
    if isinstance(a, str) or isinstance(b, str):
        if isinstance(a, str) and isinstance(b, str):
            return a == b
        if isinstance(a, SymStr) or isinstance(b, SymStr):
            return str_eq(a, b)
        return False
    if isinstance(a, SymStr) or isinstance(b, SymStr):
        return str_eq(a, b)
    if is_bool(a) and is_bool(b):
        return Iff_(a, b)
    k, a, b = coerce2(a, b)
    if k == "int":
        return simp(zi(a) == zi(b)) if not (is_pyint(a) and is_pyint(b)) else a == b
    if k == "float":
        return And_(Not_(a.nan), Not_(b.nan), a.v == b.v)
    return And_(Not_(a.nan), Not_(b.nan), a.re == b.re, a.im == b.im)


def same(a, b):
    """Specification-level equality of scalars: both non-finite, or both finite and equal."""
    if a is None or b is None:
        return a is b
    if isinstance(a, (str, SymStr)) or isinstance(b, (str, SymStr)):
        return eq(a, b)
    if is_bool(a) and is_bool(b):
        return Iff_(a, b)
    k, a, b = coerce2(a, b)
    if k == "int":
        return eq(a, b)
    tol = getattr(cur(), "tol", None)
    if tol is not None:
        def close(x, y):
            d = z3.If(x - y >= 0, x - y, y - x)
            ax = z3.If(x >= 0, x, -x)
            ay = z3.If(y >= 0, y, -y)
            return d <= tol * (1 + ax + ay)
        if k == "float":
            return And_(Iff_(a.nan, b.nan), Implies_(Not_(a.nan), close(a.v, b.v)))
        return And_(Iff_(a.nan, b.nan), Implies_(Not_(a.nan), And_(close(a.re, b.re), close(a.im, b.im))))
    if k == "float":
        return And_(Iff_(a.nan, b.nan), Implies_(Not_(a.nan), a.v == b.v))
    return And_(Iff_(a.nan, b.nan), Implies_(Not_(a.nan), And_(a.re == b.re, a.im == b.im)))


def isnan_(a):
    if isinstance(a, (F, C)):
        return a.nan
    if isinstance(a, float):
        return a != a
    return False


def ite(c, a, b):
    """if-then-else on scalar values."""
    if isinstance(c, bool):
        return a if c else b
    if a is None and b is None:
        return None
    if is_bool(a) and is_bool(b):
        return z3.If(c, zb(a), zb(b))
    k, a, b = coerce2(a, b)
    if k == "int":
        return z3.If(c, zi(a), zi(b))
    if k == "float":
        return F(z3.If(c, zb(a.nan), zb(b.nan)), z3.If(c, a.v, b.v))
    return C(z3.If(c, zb(a.nan), zb(b.nan)), z3.If(c, a.re, b.re), z3.If(c, a.im, b.im))


def cast(x, kind):
    if kind == "int":
        if isinstance(x, (F, float)):
            return to_int(x)
        return b2i(x)
    if kind == "float":
        if isinstance(x, (C, complex)):
            return real_(toC(x))
        return toF(x)
    if kind == "complex":
        return toC(x)
    if kind == "bool":
        return truthy_scalar(x)
    return x


def to_int(x):
    """Python int(x): truncation toward zero."""
    if is_int(x):
        return x
    if isinstance(x, (bool, z3.BoolRef)):
        return b2i(x)
    x = toF(x)
    v = z3.simplify(x.v)
    if z3.is_rational_value(v):
        fr = Fraction(v.numerator_as_long(), v.denominator_as_long())
        return int(fr)
    if z3.is_app(v) and v.decl().kind() == z3.Z3_OP_TO_REAL:
        return simp(v.arg(0))
    return z3.If(v >= 0, z3.ToInt(v), -z3.ToInt(-v))


def truthy_scalar(x):
    if is_bool(x):
        return x
    if is_int(x):
        return simp(zi(x) != 0) if not is_pyint(x) else x != 0
    if isinstance(x, F):
        return Or_(x.nan, x.v != 0)
    if isinstance(x, C):
        return Or_(x.nan, x.re != 0, x.im != 0)
    raise Unsupported(f"truthiness of {type(x).__name__}")


# ----------------------------------------------------------------------------------
# symbolic strings (only equality against literals and each other)
# ----------------------------------------------------------------------------------

StrSort = z3.DeclareSort("Str")


class SymStr:
    __slots__ = ("e",)

    def __init__(self, e):
        self.e = e

    def __repr__(self):
        return f"SymStr({self.e})"
    __hash__ = None


def str_term(s):
    if isinstance(s, SymStr):
        return s.e
    c = cur()
    key = ("strlit", s)
    t = c.memo.get(key)
    if t is None:
        t = z3.Const("str:" + s, StrSort)
        lits = c.memo.setdefault("strlits", [])
        for (s2, t2) in lits:
            c.fact(t != t2)
        lits.append((s, t))
        c.memo[key] = t
    return t


def str_eq(a, b):
    return str_term(a) == str_term(b)


# ----------------------------------------------------------------------------------
# index helpers
# ----------------------------------------------------------------------------------


def flat_index(idx, factors):
    """(i0..im) with extents (n0..nm), major -> minor  ->  flat index."""
    r = idx[0]
    for i, n in zip(idx[1:], factors[1:]):
        r = r * n + i
    return simp(r) if isinstance(r, z3.ExprRef) else r


def split_index(rho, factors):
    """flat index -> tuple of factor indices (fresh, memoised, definitional)."""
    if len(factors) == 1:
        return (rho,)
    if is_pyint(rho) and all(is_pyint(n) for n in factors):
        out = []
        for n in reversed(factors[1:]):
            out.append(rho % n)
            rho //= n
        out.append(rho)
        return tuple(reversed(out))
    c = cur()
    key = ("split", zi(rho).sexpr(), tuple(zi(n).sexpr() for n in factors))
    if key in c.memo:
        return c.memo[key]
    # rho is (syntactically) the flat index of an earlier split with the same factors: give back those indices instead of
    # inventing new ones (uniqueness of the mixed-radix representation is beyond the solver's linear reasoning)
    back = c.memo.get(("unsplit", z3.simplify(zi(rho)).sexpr(), key[2]))
    if back is not None:
        c.memo[key] = back
        return back
    ids = tuple(c.fresh_int("ix") for _ in factors)
    facts = [zi(rho) == zi(flat_index(ids, factors))]
    for i, n in zip(ids[1:], factors[1:]):
        facts += [i >= 0, i < zi(n)]
    facts += [ids[0] >= 0]
    # the leading index is bounded whenever rho is in range
    c.fact(z3.Implies(z3.And(zi(rho) >= 0, zi(rho) < zi(prod(factors))),
                      z3.And(*facts, ids[0] < zi(factors[0]))))
    c.memo[key] = ids
    c.memo[("unsplit", z3.simplify(zi(flat_index(ids, factors))).sexpr(), key[2])] = ids
    return ids


# ----------------------------------------------------------------------------------
# arrays
# ----------------------------------------------------------------------------------


class Arr:
    """ndarray model.  axes: tuple (per axis) of tuples of factor extents (major->minor).
    fn(idx) -> scalar, idx = tuple (per axis) of tuples (per factor) of ints."""

    def __init__(self, axes, fn, kind, label=None, term=None, meta=None):
        self.axes = tuple(tuple(a) for a in axes)
        self._fn = fn
        self.kind = kind
        self.label = label
        self.version = 0
        self.term = term          # optional matrix-level term (see matmodel)
        self.meta = meta or {}
        self.fresh = True         # allocated by the analysed activation (frame analysis)
        self.vecfn = None         # optional: leading index -> abstract vector (Vec term) of the last axis

    # -- shape ------------------------------------------------------------------
    @property
    def ndim(self):
        return len(self.axes)

    def extent(self, k):
        return prod(self.axes[k])

    @property
    def shape(self):
        return tuple(self.extent(k) for k in range(self.ndim))

    # -- reading ------------------------------------------------------------------
    def cell(self, idx):
        return self._fn(tuple(tuple(t) for t in idx))

    def get(self, *flat):
        """read with one flat integer index per axis (no bounds obligation)."""
        if len(flat) != self.ndim:
            raise Unsupported(f"get() with {len(flat)} indices on {self.ndim}-d array")
        idx = tuple(split_index(r, f) for r, f in zip(flat, self.axes))
        return self._fn(idx)

    def snapshot_fn(self):
        return self._fn

    # -- fresh skolem cell --------------------------------------------------------
    def skolem(self, base="i", assume=True):
        """fresh index; with assume=False returns (idx, range formula) instead of assuming it"""
        c = cur()
        idx = []
        rng = []
        for ax in self.axes:
            t = []
            for n in ax:
                i = c.fresh_int(base)
                rng.append(z3.And(i >= 0, i < zi(n)))
                t.append(i)
            idx.append(tuple(t))
        if assume:
            for r in rng:
                c.assume(r)
            return tuple(idx)
        # soft range facts (sound for a fresh index): usable by the branch solver whenever the extent is
        # known to be positive
        for t, ax in zip(idx, self.axes):
            for i, n in zip(t, ax):
                c.fact(z3.And(i >= 0, z3.Implies(zi(n) > 0, i < zi(n))))
        return tuple(idx), And_(*rng)

    def in_range(self, idx):
        cs = []
        for t, ax in zip(idx, self.axes):
            for i, n in zip(t, ax):
                cs.append(And_(zi(i) >= 0, zi(i) < zi(n)))
        return And_(*cs)

    # -- mutation -------------------------------------------------------------------
    def set_fn(self, fn, kind=None):
        self._fn = fn
        self.version += 1
        if kind is not None:
            self.kind = kind
        self.term = None

    def restructure(self, axes):
        """Change the factorisation of the axes (same extents); factors->flat is arithmetic."""
        old_axes = self.axes
        old_fn = self._fn
        axes = tuple(tuple(a) for a in axes)

        def fn(idx):
            o = []
            for t, na, oa in zip(idx, axes, old_axes):
                if len(na) == len(oa) and all(int_eq_syntactic(x, y) for x, y in zip(na, oa)):
                    o.append(t)
                else:
                    o.append(split_index(flat_index(t, na), oa))
            return old_fn(tuple(o))
        a = Arr(axes, fn, self.kind, self.label)
        return a

    def copy(self):
        a = Arr(self.axes, self._fn, self.kind, self.label, self.term, {k: v for k, v in self.meta.items() if k != "view_of"})
        a.vecfn = self.vecfn
        return a

    def __repr__(self):
        return f"Arr<{self.kind}>{self.shape}" + (f"[{self.label}]" if self.label else "")


def const_arr(axes, value, kind):
    return Arr(axes, lambda idx: value, kind)


def same_axes(a, b):
    return len(a) == len(b) and all(int_eq_syntactic(x, y) for x, y in zip(a, b))


class Seq:
    """Python list of symbolic length."""

    def __init__(self, length, fn, label=None):
        self.length = length
        self._fn = fn
        self.label = label
        self.version = 0
        self.meta = {}

    def get(self, k):
        return self._fn(k)

    def append(self, v):
        old = self._fn
        n = self.length

        def fn(k, old=old, n=n, v=v):
            if is_pyint(k) and is_pyint(n):
                return v if k == n else old(k)
            return Lazy.choose(zi(k) == zi(n), lambda: v, lambda: old(k))
        self._fn = fn
        self.length = simp(zi(n) + 1)
        self.version += 1

    def __repr__(self):
        return f"Seq(len={self.length})"


class Lazy:
    @staticmethod
    def choose(cond, fa, fb):
        """value-level if-then-else where the branches are computed lazily; scalars are merged
        with ite, anything else forks the path."""
        cond = simp(cond)
        if isinstance(cond, bool):
            return fa() if cond else fb()
        c = cur()
        a = None
        b = None
        try:
            a = fa()
            b = fb()
        except Unsupported:
            raise
        if is_scalar(a) and is_scalar(b):
            return ite(cond, a, b)
        if a is b:
            return a
        return fa() if c.branch(cond) else fb()


class Maybe:
    """Optional field value: `value` if `cond` else None.  Resolved (the path forks) when the field is first read."""

    def __init__(self, cond, value):
        self.cond = cond
        self.value = value

    def resolve(self):
        return self.value if cur().branch(self.cond) else None

    def __repr__(self):
        return f"Maybe({self.cond}, {self.value!r})"


class Obj:
    """Record with named fields; `cls` is the qualified class name (or a model tag)."""

    def __init__(self, cls, fields=None, label=None):
        object.__setattr__(self, "cls", cls)
        object.__setattr__(self, "fields", dict(fields or {}))
        object.__setattr__(self, "label", label)

    def __repr__(self):
        return f"Obj<{self.cls}>({', '.join(self.fields)})"


class Poison:
    def __init__(self, why):
        self.why = why

    def __repr__(self):
        return f"Poison({self.why})"


class Opaque:
    """Result of a foreign call that is only passed around (figures, axes, ...)."""

    def __init__(self, tag, payload=None):
        self.tag = tag
        self.payload = payload

    def __repr__(self):
        return f"Opaque({self.tag})"


# ----------------------------------------------------------------------------------
# abstract vectors (mode shapes): rank-3 pole tables are tables of vectors
# ----------------------------------------------------------------------------------

VecSort = z3.DeclareSort("Vec")
NANVEC = z3.Const("NANVEC", VecSort)


def vec_fns():
    c = cur()
    fns = c.memo.get("vecfns")
    if fns is None:
        fns = (z3.Function("vnan", VecSort, z3.BoolSort()),
               z3.Function("vre", VecSort, z3.IntSort(), z3.RealSort()),
               z3.Function("vim", VecSort, z3.IntSort(), z3.RealSort()))
        c.memo["vecfns"] = fns
        c.fact(fns[0](NANVEC))
    return fns


def vec_comp(v, k):
    """component k of an abstract vector.  Modelling restriction: a mode-shape vector is either
    entirely non-finite or entirely finite (vnan is a property of the whole vector)."""
    vnan, vre, vim = vec_fns()
    return C(vnan(v), vre(v, zi(k)), vim(v, zi(k)))


def vec_isnan(v):
    return vec_fns()[0](v)


# ----------------------------------------------------------------------------------
# canonical templates: an expression up to the names of its free constants
# ----------------------------------------------------------------------------------

_COMM = {z3.Z3_OP_ADD, z3.Z3_OP_MUL, z3.Z3_OP_AND, z3.Z3_OP_OR, z3.Z3_OP_EQ, z3.Z3_OP_DISTINCT}


def template_of(exprs, bound_ids=(), sorts=None):
    """(key, free): `free` lists the uninterpreted constants of `exprs` (Int/Real/Bool, not bound) in a canonical order
    that does not depend on their names or on the argument order of commutative operators; `key` is the text of the
    expressions with those constants replaced by numbered holes."""
    sorts = sorts or (z3.IntSort(), z3.RealSort(), z3.BoolSort())
    bound_ids = set(bound_ids)
    hcache = {}

    def is_free(x):
        return z3.is_const(x) and x.decl().kind() == z3.Z3_OP_UNINTERPRETED and x.get_id() not in bound_ids \
            and any(x.sort() == s_ for s_ in sorts)

    def h(x):
        i = x.get_id()
        if i in hcache:
            return hcache[i]
        if is_free(x):
            r = "F:" + str(x.sort())
        elif x.num_args() == 0:
            r = x.sexpr()
        else:
            ch = [h(c_) for c_ in x.children()]
            if x.decl().kind() in _COMM:
                ch = sorted(ch)
            r = "(" + x.decl().name() + " " + " ".join(ch) + ")"
        hcache[i] = r
        return r
    free, seen = [], set()

    def visit(x):
        if is_free(x):
            if x.get_id() not in seen:
                seen.add(x.get_id())
                free.append(x)
            return
        ch = list(x.children())
        if x.num_args() and x.decl().kind() in _COMM:
            ch.sort(key=h)
        for c_ in ch:
            visit(c_)
    for e in exprs:
        visit(e)
    names = {x.get_id(): f"?{j}" for j, x in enumerate(free)}
    tcache = {}

    def t(x):
        i = x.get_id()
        if i in tcache:
            return tcache[i]
        if i in names:
            r = names[i]
        elif x.num_args() == 0:
            r = x.sexpr()
        else:
            ch = [t(c_) for c_ in x.children()]
            if x.decl().kind() in _COMM:
                ch = sorted(ch)
            r = "(" + x.decl().name() + " " + " ".join(ch) + ")"
        tcache[i] = r
        return r
    key = tuple(t(e) for e in exprs) + tuple(str(x.sort()) for x in free)
    return key, free
