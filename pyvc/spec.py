"""Helpers for contract authors: declaring symbolic parameters."""
from __future__ import annotations

import z3

from . import npmodel as N
from . import sym
from .core import cur
from .sym import Arr, C, F, Obj, Seq, zi


def integer(name, lo=None, hi=None):
    c = cur()
    v = z3.Int(c.fresh_name(name))
    if lo is not None:
        c.assume(v >= zi(lo))
    if hi is not None:
        c.assume(v <= zi(hi))
    return v


def real(name, finite=True, py=True, lo=None, hi=None, pos=False):
    c = cur()
    v = z3.Real(c.fresh_name(name))
    nan = False if finite else z3.Bool(c.fresh_name(name + ".nan"))
    if lo is not None:
        c.assume(v >= sym.rv(lo))
    if hi is not None:
        c.assume(v <= sym.rv(hi))
    if pos:
        c.assume(v > 0)
    return F(nan, v, py=py)


def boolean(name):
    return z3.Bool(cur().fresh_name(name))


def array(name, kind, shape=None, ndim=None, finite=False, min_extent=0):
    """Uninterpreted input array.  shape: tuple of ints / z3 ints; None entries (or ndim) give
    fresh symbolic extents >= min_extent."""
    c = cur()
    if shape is None:
        shape = (None,) * ndim
    dims = []
    for k, s in enumerate(shape):
        if s is None:
            s = z3.Int(c.fresh_name(f"{name}.n{k}"))
            c.assume(s >= min_extent)
        dims.append(s)
    nd = len(dims)
    base = c.fresh_name(name)
    isort = [z3.IntSort()] * nd
    if kind == "float":
        fv = z3.Function(base + ".v", *isort, z3.RealSort())
        fn_ = None if finite else z3.Function(base + ".nan", *isort, z3.BoolSort())

        def fn(idx):
            ii = [zi(t[0]) for t in idx]
            return F(False if finite else fn_(*ii), fv(*ii))
    elif kind == "complex":
        fr = z3.Function(base + ".re", *isort, z3.RealSort())
        fi = z3.Function(base + ".im", *isort, z3.RealSort())
        fn_ = None if finite else z3.Function(base + ".nan", *isort, z3.BoolSort())

        def fn(idx):
            ii = [zi(t[0]) for t in idx]
            return C(False if finite else fn_(*ii), fr(*ii), fi(*ii))
    elif kind == "int":
        fv = z3.Function(base + ".i", *isort, z3.IntSort())

        def fn(idx):
            return fv(*[zi(t[0]) for t in idx])
    elif kind == "bool":
        fv = z3.Function(base + ".b", *isort, z3.BoolSort())

        def fn(idx):
            return fv(*[zi(t[0]) for t in idx])
    else:
        raise ValueError(kind)
    if nd == 0:
        return fn(())
    a = Arr(tuple((d,) for d in dims), fn, kind, label=name)
    a.fresh = False
    a.meta["finite"] = finite
    a.meta["param"] = True
    return a


def seq(name, length, elem):
    return Seq(length, elem, label=name)


def cell(a: Arr, base="i"):
    """fresh in-range skolem index of `a`, registered as a ground term; returns flat ints
    (one per axis) when every axis is unstructured, else the structured index."""
    idx = a.skolem(base)
    for t in idx:
        for i in t:
            N.ground(i)
    if all(len(t) == 1 for t in idx):
        return tuple(t[0] for t in idx)
    return idx


def vec_table(name, shape, nan_fn=None):
    """rank-3 table of abstract mode-shape vectors: shape (n0, n1, L)."""
    c = cur()
    n0, n1, L = shape
    T = z3.Function(c.fresh_name(name), z3.IntSort(), z3.IntSort(), sym.VecSort)

    def fn(idx):
        return sym.vec_comp(T(zi(idx[0][0]), zi(idx[1][0])), idx[2][0])
    a = Arr(((n0,), (n1,), (L,)), fn, "complex", label=name)
    a.vecfn = lambda lead: T(zi(lead[0][0]), zi(lead[1][0]))
    a.fresh = False
    return a


def vec_of(a):
    """abstract vector of a rank-1 array (must carry one)."""
    if isinstance(a, Arr) and a.ndim == 1 and a.vecfn is not None:
        return a.vecfn(())
    return None
