"""pyvc core: path contexts, obligations, fresh names, solver access.

A *path* of a verification run is determined by the list of boolean decisions taken at
symbolic branch points.  `Engine.explore(body)` re-executes `body(ctx)` once per feasible
decision list (depth-first); because fresh names are numbered per context, a re-execution
along a common prefix rebuilds syntactically identical z3 terms.

Nothing in here knows about Python ASTs or NumPy; see interp.py / npmodel.py.
"""
from __future__ import annotations

import time
import z3

# ----------------------------------------------------------------------------------
# exceptions used for control flow of the symbolic execution
# ----------------------------------------------------------------------------------


class Unsupported(Exception):
    """The analysed code (or a contract) uses something outside the supported subset.
    Always a checker error (exit 3), never a verdict."""


class PathInfeasible(Exception):
    """Raised when an `assume` makes the current path condition unsatisfiable."""


class PathEnd(Exception):
    """End of an auxiliary proof path (loop preservation, a scoped comparison, ...)."""


class PyRaise(Exception):
    """The analysed program raises a Python exception of (class name) `etype`."""

    def __init__(self, etype: str, msg: str = ""):
        super().__init__(f"{etype}: {msg}")
        self.etype = etype
        self.msg = msg


EXC_PARENTS = {
    "ValueError": "Exception", "TypeError": "Exception", "KeyError": "LookupError",
    "IndexError": "LookupError", "LookupError": "Exception", "AttributeError": "Exception",
    "ZeroDivisionError": "ArithmeticError", "ArithmeticError": "Exception",
    "AssertionError": "Exception", "NotImplementedError": "RuntimeError",
    "RuntimeError": "Exception", "LinAlgError": "ValueError", "Exception": "BaseException",
    "ImportError": "Exception", "ValidationError": "ValueError", "UnboundLocalError": "NameError", "NameError": "Exception",
}


def exc_isinstance(etype: str, cls: str) -> bool:
    while etype is not None:
        if etype == cls:
            return True
        etype = EXC_PARENTS.get(etype)
    return False


# ----------------------------------------------------------------------------------
# obligations
# ----------------------------------------------------------------------------------


class Obligation:
    __slots__ = ("oid", "kind", "label", "pc", "goal", "status", "model", "seconds",
                 "backend", "meta", "path", "expect_sat", "reason")

    def __init__(self, oid, kind, label, pc, goal, meta=None, path="", expect_sat=False):
        self.oid = oid
        self.kind = kind
        self.label = label
        self.pc = pc          # list of z3 BoolRef (assumptions, path condition, facts)
        self.goal = goal      # z3 BoolRef
        self.status = None    # 'proved' | 'refuted' | 'unknown'
        self.model = None
        self.seconds = 0.0
        self.backend = None
        self.meta = meta or {}
        self.path = path
        self.expect_sat = expect_sat   # cover / canary: the *negated* goal must be satisfiable
        self.reason = ""

    def smt2(self) -> str:
        s = z3.Solver()
        for f in self.pc:
            s.add(f)
        s.add(z3.Not(self.goal))
        return s.to_smt2()


# ----------------------------------------------------------------------------------
# path context
# ----------------------------------------------------------------------------------

_CUR = []


def cur() -> "Ctx":
    if not _CUR:
        raise RuntimeError("no active pyvc context")
    return _CUR[-1]


class Ctx:
    BRANCH_TIMEOUT_MS = 1500

    def __init__(self, engine, prefix):
        self.engine = engine
        self.prefix = list(prefix)
        self.di = 0
        self.decisions = []       # list of (bool taken, forced?)
        self.pc = []              # all assumptions so far (path condition + facts)
        self.counters = {}
        self.obls = []
        self.solver = z3.Solver()
        self.solver.set("timeout", self.BRANCH_TIMEOUT_MS)
        self.notes = []
        self.memo = {}            # per-path memo tables (sqrt terms, sums, ...)
        self.tag = ""             # current function/loop tag used in obligation ids
        self.n_branch_queries = 0
        self.hyps = []            # local hypotheses (antecedents of obligations), see hypothesis()
        self.numpy_mode = 0       # >0 while evaluating element-wise NumPy operations
        self.qfacts = []          # quantified facts instantiated by hand (see npmodel)
        self.grounds = []         # index terms at which quantified facts are instantiated

    # -- naming ----------------------------------------------------------------
    def fresh_name(self, base: str) -> str:
        n = self.counters.get(base, 0)
        self.counters[base] = n + 1
        return f"{base}!{n}"

    def fresh_int(self, base="k"):
        return z3.Int(self.fresh_name(base))

    def fresh_real(self, base="x"):
        return z3.Real(self.fresh_name(base))

    def fresh_bool(self, base="b"):
        return z3.Bool(self.fresh_name(base))

    def fresh_fun(self, base, *sorts):
        return z3.Function(self.fresh_name(base), *sorts)

    # -- assumptions -----------------------------------------------------------
    def assume(self, f):
        if isinstance(f, bool):
            if not f:
                raise PathInfeasible()
            return
        f = z3.simplify(f)
        if z3.is_true(f):
            return
        if z3.is_false(f):
            raise PathInfeasible()
        self.pc.append(f)
        self.solver.add(f)

    def fact(self, f, heavy=False):
        """A definitional fact (sound extension).  heavy: non-linear facts are kept out of the
        branch-feasibility solver (less pruning, much faster) but are part of every obligation."""
        if isinstance(f, bool):
            return
        self.pc.append(f)
        if not heavy:
            self.solver.add(f)

    def check_sat(self, extra=None):
        self.n_branch_queries += 1
        if extra is None:
            return self.solver.check()
        self.solver.push()
        try:
            self.solver.add(extra)
            return self.solver.check()
        finally:
            self.solver.pop()

    def is_valid(self, f) -> bool:
        """Cheap validity test under the current path condition (used for pruning/concretising
        decisions, never as a verdict)."""
        if isinstance(f, bool):
            return f
        f = z3.simplify(f)
        if z3.is_true(f):
            return True
        if z3.is_false(f):
            return False
        return self.check_sat(z3.Not(f)) == z3.unsat

    def is_valid_full(self, f, timeout_ms=5000):
        """validity under the complete path condition (including heavy, non-linear facts)"""
        if isinstance(f, bool):
            return f
        s = z3.Solver()
        s.set("timeout", timeout_ms)
        for g in self.pc:
            s.add(g)
        for h in self.hyps:
            if not isinstance(h, bool):
                s.add(h)
        s.add(z3.Not(f))
        return s.check() == z3.unsat

    # -- branching ---------------------------------------------------------------
    def branch(self, cond) -> bool:
        if isinstance(cond, bool):
            return cond
        cond = z3.simplify(cond)
        if z3.is_true(cond):
            return True
        if z3.is_false(cond):
            return False
        key = cond.sexpr()
        cache = self.memo.setdefault("branch_cache", {})
        if key in cache:
            return cache[key]          # already decided on this path (the decision is part of the path condition)
        neg = z3.simplify(z3.Not(cond)).sexpr()
        if neg in cache:
            return not cache[neg]
        take = self._branch(cond)
        cache[key] = take
        return take

    def _branch(self, cond):
        if self.di < len(self.prefix):
            take = self.prefix[self.di]
            self.di += 1
            self.decisions.append(take)
            self._add_pc(cond if take else z3.Not(cond))
            return take
        can_t = self.check_sat(cond) != z3.unsat
        can_f = self.check_sat(z3.Not(cond)) != z3.unsat
        if can_t and can_f:
            self.engine.worklist.append(self.decisions + [False])
            take = True
        elif can_t:
            take = True
        elif can_f:
            take = False
        else:
            raise PathInfeasible()
        self.di += 1
        self.prefix.append(take)
        self.decisions.append(take)
        self._add_pc(cond if take else z3.Not(cond))
        return take

    def _add_pc(self, f):
        self.pc.append(f)
        self.solver.add(f)
        # a decision of the form  <skolem constant> == <term>  also acts as a rewrite rule (see rewrite())
        try:
            if z3.is_eq(f) and f.num_args() == 2 and f.arg(0).sort() == z3.IntSort():
                a, b = f.arg(0), f.arg(1)
                for x, y in ((a, b), (b, a)):
                    if z3.is_const(x) and x.decl().kind() == z3.Z3_OP_UNINTERPRETED and not z3.is_int_value(x) \
                            and str(x).split("!")[0] in ("sk", "c", "i", "h", "fi", "tb", "ts", "e", "mt") and not x.eq(y):
                        self.memo.setdefault("rewrites", []).append((x, y))
                        break
        except Exception:
            pass

    # -- obligations ------------------------------------------------------------
    def oblige(self, kind, label, goal, meta=None, expect_sat=False):
        if goal is True:
            self.n_trivial = getattr(self, "n_trivial", 0) + 1
            if kind not in ("post", "frame") or "[" in label:
                return None          # safety / call-site / per-cell conditions decided by evaluation: not counted
            path = "".join("T" if d else "F" for d in self.decisions)
            o = Obligation(f"{self.tag}/{kind}.{label}", kind, label, [], z3.BoolVal(True), meta, path, expect_sat)
            o.status = "proved"
            o.backend = "eval"
            self.obls.append(o)
            return o
        if isinstance(goal, bool):
            goal = z3.BoolVal(goal)
        rw = self.memo.get("rewrites")
        if rw:
            # equalities proved earlier on this path (and part of the path condition) are applied as rewrites, so that
            # terms that differ only by provably equal sub-terms become syntactically equal
            goal = z3.substitute(goal, *rw)
        path = "".join("T" if d else "F" for d in self.decisions)
        oid = f"{self.tag}/{kind}.{label}"
        hyps = [h for h in self.hyps if not isinstance(h, bool)]
        if any(h is False for h in self.hyps):
            goal = z3.BoolVal(True)
        o = Obligation(oid, kind, label, list(self.pc) + hyps, goal, meta, path, expect_sat)
        self.obls.append(o)
        return o

    def subproof(self, hyp, fn):
        """Run fn() on a dedicated auxiliary proof path on which `hyp` is assumed (so that branch
        decisions may depend on it); the main path continues without the assumption."""
        flag = self.fresh_bool("subproof")
        if self.branch(flag):
            self.assume(hyp)
            fn()
            raise PathEnd()

    def rewrite(self, e):
        """apply the equations proved so far on this path (see lemmas.prove_then_assume) as rewrite rules"""
        if not isinstance(e, z3.ExprRef):
            return e
        rw = self.memo.get("rewrites")
        if not rw:
            return z3.simplify(e)
        return z3.simplify(z3.substitute(e, *rw))

    def hypothesis(self, f):
        """context manager: obligations emitted inside have `f` as an additional antecedent.
        Deliberately not given to the branch solver (decisions must not depend on it)."""
        ctx = self

        class _H:
            def __enter__(self_):
                ctx.hyps.append(f)

            def __exit__(self_, *a):
                ctx.hyps.pop()
        return _H()

    def __enter__(self):
        _CUR.append(self)
        return self

    def __exit__(self, *a):
        _CUR.pop()


# ----------------------------------------------------------------------------------
# engine: path enumeration
# ----------------------------------------------------------------------------------


class PathResult:
    def __init__(self, decisions, obls, outcome, notes, infeasible=False, queries=0):
        self.decisions = decisions
        self.obls = obls
        self.outcome = outcome
        self.notes = notes
        self.infeasible = infeasible
        self.queries = queries


class Engine:
    MAX_PATHS = 4000

    def __init__(self):
        self.worklist = []

    def explore(self, body, tag=""):
        """body(ctx) -> outcome.  Returns list[PathResult]."""
        self.worklist = [[]]
        results = []
        while self.worklist:
            prefix = self.worklist.pop()
            ctx = Ctx(self, prefix)
            ctx.tag = tag
            with ctx:
                try:
                    outcome = body(ctx)
                    results.append(PathResult(ctx.decisions, ctx.obls, outcome, ctx.notes,
                                              queries=ctx.n_branch_queries))
                except PathEnd:
                    results.append(PathResult(ctx.decisions, ctx.obls, ("aux", None), ctx.notes,
                                              queries=ctx.n_branch_queries))
                except PathInfeasible:
                    # obligations generated before the contradiction was noticed hold vacuously,
                    # but we keep them: their pc is unsat so they are discharged trivially
                    results.append(PathResult(ctx.decisions, ctx.obls, None, ctx.notes,
                                              infeasible=True, queries=ctx.n_branch_queries))
            if len(results) > self.MAX_PATHS:
                raise Unsupported(f"more than {self.MAX_PATHS} paths in {tag}")
        return results


# ----------------------------------------------------------------------------------
# discharge
# ----------------------------------------------------------------------------------


def discharge(o: Obligation, timeout_ms=20000):
    """Decide one obligation with z3.  A portfolio: queries over quantifier-free nonlinear / div-mod arithmetic are unstable (the same
    formula is proved in 0.1 s or not in 60 s depending on variable numbering and load), so several short attempts (default, two other
    seeds, the other arithmetic solver) come first, then the full budget, then the nonlinear tactic, before the obligation is given up as unknown."""
    if o.status == "proved" and o.backend == "eval":
        return o
    t0 = time.time()
    short = max(2000, timeout_ms // 6)
    attempts = [({}, short, "z3"),
                ({"smt.random_seed": 11}, short, "z3(seed 11)"), ({"smt.arith.solver": 2}, short, "z3(alt)"),
                ({"smt.random_seed": 23, "smt.phase_selection": 5}, short, "z3(seed 23)"),
                ({}, timeout_ms, "z3"),
                ({"smt.arith.nl.nra": True, "smt.random_seed": 7}, timeout_ms // 2, "z3(alt)")]
    r, s = z3.unknown, None
    for n_try, (params, budget, name) in enumerate(attempts):
        s = z3.Solver()
        s.set("timeout", int(budget))
        for k, v in params.items():
            try:
                s.set(k, v)
            except Exception:
                pass
        for f in o.pc:
            s.add(f)
        s.add(z3.Not(o.goal))
        r = s.check()
        if n_try == 0:
            o.backend = "z3"
        if r != z3.unknown:
            o.backend = name
            break
        if n_try == 0:
            o.reason = s.reason_unknown()
    o.seconds = time.time() - t0
    if r == z3.unsat:
        o.status = "proved"
    elif r == z3.sat:
        o.status = "refuted"
        try:
            o.model = s.model()
        except Exception:
            o.model = None
    else:
        o.status = "unknown"
    return o
