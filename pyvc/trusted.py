"""The trusted base, assumption register (DESIGN.md section 10) and the clauses not decided,
per property.  Copied into every evidence file."""

COMMON_TRUSTED = [
    "pyvc executor: semantics of the supported Python subset (pyvc/interp.py)",
    "pyvc NumPy models (pyvc/npmodel.py, pyvc/models.py): element-wise ops, broadcasting, indexing, "
    "stacking, reshape/flatten, where/isclose, argmin/argmax/nanargmin/max/any/all as quantified contracts",
    "z3 4.x/5.x (python API) as SMT back end; cvc5 1.0 for obligations z3 leaves undecided",
]

COMMON_ASSUMPTIONS = [
    "A1: IEEE doubles are treated as mathematical reals plus one non-finite element (NaN and +-inf folded); "
    "rounding and overflow are not modelled",
    "A2: Python int is mathematical; NumPy index types do not overflow",
    "A3: the executor's semantics of the Python subset and its NumPy models are correct (mitigated by "
    "mutation self-tests and canary specifications that must be refuted on every run)",
    "A4: foreign functions do not modify their array arguments and are deterministic",
]

TRUSTED = {
    "C09": [
        "havoc contracts of the identification kernels at the call sites of run(): build_hank, SSI_fast, SSI_poles, "
        "SSI_multi_setup, SD_est, SD_PreGER, pLSCF, pLSCF_poles return arbitrary pole tables of one shape and one NaN "
        "pattern (that shape/pattern is the subject of C01/C05)",
        "abstract contracts of gen.MPC / gen.MPD at call sites: a function of the mode-shape vector; LinAlgError on a "
        "non-finite vector (their values are the subject of C18)",
        "havoc contract of gen.SC_apply at the call sites of run() (labels are the subject of C10)",
        "pydantic BaseModel(**kw) stores keyword values in the declared fields",
    ],
}

TRUSTED["C10"] = [
    "abstract contract of gen.MAC at the call site in SC_apply: a number in [0, 1] determined by the two vectors, "
    "non-finite iff a vector is (its value is the subject of C18)",
    "havoc contracts of the identification kernels at run()'s call sites; table shapes (SSI: ordmax x ordmax+1 for "
    "step 1; pLSCF: one column per order 1..ordmax) as established by the C01/C05 contracts",
    "contracts of gen.HC_* / gen.applymask (proved under C09) at run()'s call sites",
]

TRUSTED["C12"] = [
    "lazy-sum calculus (pyvc/npmodel.make_sum, pyvc/lemmas): np.dot of lambda arrays is a sum constant keyed by its summand; "
    "sum congruence (equal extents and point-wise equal summands) and factoring of summation-independent multipliers",
    "numpy.linalg.qr(mode='r') as an uninterpreted function of its argument (matrix-term level); matrix extensionality lemma "
    "(cell-wise equal arrays denote the same matrix), checked at a skolem cell before use",
    "projection/Gram identity of the LQ factor (DESIGN A5.x): H H^T = (Yf Yp^T)(Yp Yp^T)^-1 (Yp Yf^T) whenever H is the block of "
    "R^T below/left of the split between the past-reference rows and the future rows, past stacked first - the contract pins exactly that",
]

TRUSTED["C02"] = [
    "lazy-sum calculus: sums as uninterpreted functions of their summand template, congruence lemma, factoring of common "
    "summation-independent multipliers; exact identity (k1 Z)/(k2 Z) = k1/k2 for a non-zero complex sum Z",
    "numpy.delete(a, idx) as the strictly increasing enumeration of the complement of idx (list lemma A7)",
    "np.mean / np.std (population formula) by their definitions over a concrete number of setups",
]

TRUSTED["C16"] = [
    "np.argsort as a permutation that sorts (with a ghost inverse), np.argmin / np.nanargmin as first-minimiser contracts",
    "list lemmas A7: a common permutation / a paired pop applied to two lists preserves the multiset of zipped pairs",
    "plot_stab / plot_svPSD are abstracted; that they do not touch the selection state is a syntactic frame check of their bodies",
    "Tk/matplotlib event delivery; the Tk main loop is 'any sequence of handler calls' (havoc of the two lists, equal length)",
    "havoc contracts of SSI_mpe / pLSCF_mpe / FDD_mpe at the hand-over (their behaviour on a per-mode order list: C11)",
]

TRUSTED["C14"] = [
    "scipy.signal.decimate / detrend / butter+sosfiltfilt as uninterpreted pure functions of (array, parameters) with their "
    "documented signatures, defaults and shape behaviour (decimate: ceil(N/q) along the axis); unknown keywords raise TypeError",
    "copy.deepcopy returns distinct arrays with equal contents",
    "list.remove / enumeration lemmas A7 for the reference/roving split (gen.pre_multisetup)",
]
TRUSTED["C03"] = TRUSTED["C14"][2:]

TRUSTED["C13"] = [
    "A6: scipy.signal.csd(x, y, fs, window, nperseg, noverlap, nfft) is Welch's averaged one-sided cross spectral density of conj(X) Y with "
    "constant detrending per segment, broadcasting over leading axes, on the grid k*fs/nfft - modelled as an uninterpreted function of the two "
    "series and every estimation parameter; numpy.fft.rfft/irfft and scipy.signal.windows.exponential likewise",
    "series abstraction: a row of an array as an uninterpreted function of the free constants of its element expression",
]
TRUSTED["C04"] = TRUSTED["C13"] + [
    "numpy.linalg.inv and matrix products of kernel results as uninterpreted functions over matrix terms; matrix extensionality lemma",
    "contract of fdd.SD_est (proved under C13) at the call sites of SD_PreGER",
]

TRUSTED["C18"] = [
    "lazy-sum calculus: sums expanded into canonical monomial sums (uninterpreted functions of their free parameters), congruence lemma, "
    "sum-bound lemma (point-wise bounds lift to the sums; premise checked at a skolem index)",
    "A5.viii Cauchy-Schwarz for the lazy sums: |<x,y>|^2 <= <x,x><y,y>, Sxy^2 <= Sxx Syy (also for the centred sums of np.cov)",
    "np.cov(x, y) by its definition (ddof = 1) in polynomial form; np.linalg.eigvals of a real symmetric 2x2 matrix: two reals with the "
    "matrix's trace and determinant",
    "A5.ix np.linalg.svd of an n x 2 real matrix: V orthogonal (rows/columns of V^T orthonormal); for the rank-one matrix r [alpha beta] the second "
    "right singular vector is orthogonal to (alpha, beta)",
    "arccos as an uninterpreted function with arccos([-1,1]) in [0, pi], arccos([0,1]) in [0, pi/2], arccos(1) = 0; sqrt with s >= 0, s^2 = x",
    "stand-alone real lemmas are proved once and used by substitution (universal instantiation)",
]

TRUSTED["C20"] = [
    "A10: matplotlib renders one marker per finite (x, y) pair of the sequences it is given and none for NaN; Axes are effect recorders "
    "(the proof is about the recorded plot / scatter / errorbar calls and their argument sequences)",
    "np.argmax as a first-maximiser contract, log10 as an uninterpreted function",
    "floor division by a positive symbolic divisor as quotient/remainder with fresh variables",
]

TRUSTED["C06"] = [
    "A5.ix numpy.linalg.svd as an uninterpreted kernel of the per-line matrix: U unitary, sigma finite, non-negative, non-increasing "
    "(instances), H = U diag(sigma) V^H; 'faithful decomposition' is exactly 'what is stored is conj(U^T) and sqrt(sigma) of that call'",
    "np.searchsorted on an ascending array, np.argmin / np.argmax / np.max as first-extremum contracts, with hand-instantiated quantified facts "
    "(ground terms: results, witnesses, skolems, and their shifts by symbolic slice offsets)",
    "matrix terms as uninterpreted functions of the free constants of the generic cell (template abstraction) + extensionality lemma",
]

TRUSTED["C11"] = [
    "np.nanargmin as a first-minimiser contract over the non-NaN entries (hand-instantiated quantified facts)",
    "list lemma A7: the enumeration cnt/req of the kept requests (cnt(k+1) = cnt(k) + [keep(k)], req(p) = the p-th kept request) as the closed form of "
    "lists appended to conditionally in lockstep",
    "np.isclose(a, b, rtol) = |a - b| <= 1e-8 + rtol*|b| on finite operands; tqdm(x) iterates x",
    "havoc contracts of SSI_mpe / pLSCF_mpe at the call sites in SSIdat.mpe / pLSCF.mpe (data-flow contracts)",
]

TRUSTED["C15"] = [
    "pydantic models are truthy and store assigned attributes; a dict preserves insertion order",
    "havoc contracts of run() (returns a fresh value or raises) and of the algorithms' mpe at the call sites in BaseSetup",
    "generators are consumed eagerly (the list comprehension in MultiSetup_PoSER.__init__ drains _init_setups)",
    "syntactic frame check of every run() body (no store to self.*, no in-place write through self.data, reads only its own attributes, no global state); "
    "callees receive the data by reference and are assumed not to modify it (A4; the kernels' contracts are C01/C05/C12/C13)",
]

TRUSTED["C19"] = [
    "list lemma A7 (cnt/req enumeration of the kept positions) as the closed form of the filtered appends in flatten_sns_names",
    "f-strings as injective builders of (template, values); strings as an uninterpreted sort with distinct literals",
    "abstract pandas tables (pyvc/pdmodel.py): a table is (rows, columns, index labels, column labels, provenance of the operation that made it, optionally its cells as strings); "
    "shapes, emptiness and labels behave as pandas documents; WHAT reindex / sub / fillna / to_numpy / column selection compute is not modelled - only that the result is that "
    "operation applied to that table with those arguments (their semantics are exercised by the bounded stand-in)",
]

TRUSTED["C01"] = [
    "scipy.linalg.eig(A, left=True) as an uninterpreted kernel of the matrix term (eigenvalues, left and right eigenvectors; entries non-finite only via their flags)",
    "complex logarithm, square root and pi as axiomatised / uninterpreted functions; |z| = sqrt(re^2 + im^2)",
    "np.argmax as a first-maximiser contract; np.dot at the matrix-term level when an operand is a kernel result",
    "modular use of the ac2mp contract at its call site in SSI_poles",
    "numpy.linalg.svd / qr / inv / pinv as uninterpreted kernels on matrix terms; slices and products of kernel results as matrix terms (slice normalisation, extensionality lemma)",
]

TRUSTED["C05"] = [
    "numpy.linalg.eig / numpy.linalg.solve as uninterpreted kernels of their matrix terms; complex logarithm, sqrt, pi as for C01",
    "lazy-sum calculus for C Q (blanked eigenvectors make the product non-finite: witnessed NaN flags)",
    "itertools.zip_longest over a concrete number of lists of symbolic lengths; np.array of a list of equal-width tuples",
    "havoc-flow contracts of rmfd2ac / ac2mp_poly at their call sites in pLSCF_poles (their own contracts are proved separately)",
]

TRUSTED["C03"] = [
    "enumeration lemmas for the reference/roving split (pre_multisetup contract, shared with C14): np.delete as the increasing enumeration of the complement",
    "thorough tier, SSI_multi_setup: build_hank abstracted to one uninterpreted Hankel matrix per setup (its own contract: C12), svd / pinv / qr / inv as uninterpreted kernels, "
    "matrix-extensionality lemma for fancy-indexed row selections, trusted instances of the uniqueness of Euclidean division at the loop counter",
]

TRUSTED["C17"] = [
    "lazy-sum calculus (sums over a data block as uninterpreted functions of their summand template; the block extent is decided as NumPy's slice clamping decides it)",
    "mixed-radix index splitting: the flat index of an earlier split gives back those indices",
    "loop variable Hcov (an accumulated average that is never returned) is declared dead: havoc'ed in the generic iteration, unreadable after the loop",
    "sqrt axiom: sqrt(N)^2 = N for the record length N > 0 (used by the lemma 'weights cancel')",
    "ndarray.reshape(order='F') is modelled as transpose . reshape(reversed shape) . transpose",
]

TRUSTED["C08"] = [
    "eig kernel, complex logarithm / sqrt axioms, argmax contract (as for C01 / C05)",
    "that the Hankel matrix and the realisation do not depend on the declared sampling frequency is visible in their signatures (no dt / fs parameter); SSI_poles hands dt to ac2mp (C01)",
]

ASSUMPTIONS = {
    "C09": [
        "a mode-shape vector in a pole table is either entirely non-finite or entirely finite",
        "Python set membership of NumPy complex scalars is by value (nan is never a member)",
    ],
}

ASSUMPTIONS["C10"] = ["scope of the order window clause: step == 1 (columns are model orders), as in the property's quantifier"]

ASSUMPTIONS["C12"] = ["N = Ndat - 2*br - 1 >= 2; for 'dat' additionally N - 1 >= (r + l)(br + 1) (thin QR factor square)"]

ASSUMPTIONS["C02"] = ["the number of setups is enumerated (2 and 3); sensors per setup, reference count/positions/order, "
                      "number of modes, factors and shapes are symbolic",
                      "reference part of each mode has a non-vanishing non-conjugated self product (always true for real shapes)"]

ASSUMPTIONS["C14"] = ["number of datasets of a PreGER object enumerated (2); channel counts, reference lists, lengths, q and keyword values symbolic; "
                      "keyword combinations enumerated over the documented keywords",
                      "the history clause follows by induction from the per-operation contracts, each proved from an arbitrary state satisfying the "
                      "representation invariant (Inv_S / Inv_M) and re-establishing it"]

ASSUMPTIONS["C04"] = ["number of setups enumerated (2); reference/roving counts, record lengths, nxseg, pov, fs symbolic",
                      "reference blocks invertible at every line (well-conditioned references)"]

ASSUMPTIONS["C18"] = ["all statements are over the reals: an arccos argument or a MAC value rounded just above 1 in floating point is outside the model "
                      "(the nansum repair of MPD happens to cover the arccos case)"]

ASSUMPTIONS["C20"] = ["scope of the order-value clause: step == 1 (the ordinate c*step equals the column index that modal-parameter extraction "
                      "accepts only then; the SSI pole computation does not support step > 1 at all)"]

ASSUMPTIONS["C06"] = ["uniform ascending grid freq[n] = n*delta, delta > 0; sigma2 > 0 at every line; selected frequencies inside the grid; DF >= delta; "
                      "ties of the ratio resolve to the lowest line"]

ASSUMPTIONS["C11"] = ["every addressed order column holds at least one retained pole (the property's quantifier)",
                      "explicit orders: symbolic table shape, request count, order(s), rtol; covariances enumerated present/absent for the single-order variant",
                      "order='find_min' is NOT proved: bounded stand-in on crafted tables (see bounded_standins), labelled bounded"]

ASSUMPTIONS["C15"] = ["setups per PoSER constructor enumerated 0..3 exhaustively over 0/1/2 algorithms per setup plus five 4-setup layouts; class identities, run/mpe "
                      "states and the number of names symbolic", "algorithms per setup enumerated (2 for run_by_name, 3 for run_all); which of data / fs / run parameters "
                      "are missing is symbolic", "the history clause (any sequence of add / run / mpe) follows by induction from the per-operation contracts, each proved from an arbitrary state"]

ASSUMPTIONS["C19"] = ["flatten_sns_names: number of setups enumerated (2); names per setup, number and positions of references symbolic",
                      "check_on_geo1 / check_on_geo2 validation skeleton: sheet sets enumerated (9 + 8 layouts: required only, subsets of optional sheets, INFO, unknown sheet, each required "
                      "sheet missing); 2 sensor names, 3 coordinate rows / 1 point (3 mapping cells), 1 constraint over 1-2 sensors; every shape, every label and every cell symbolic; mapping "
                      "cells are given as the strings str(value) yields after missing cells were filled",
                      "what the pandas operations compute (re-ordering itself, the -1 shift, the mapped shape values), dfphi_map_func and def_geo1/2 are NOT proved: bounded stand-in, labelled bounded"]

ASSUMPTIONS["C01"] = ["SSI_poles: step == 1, no uncertainty propagation (calc_unc=False); model order and channel count symbolic; the realisation hands over one (ii x ii, Nch x ii) pair per order",
                      "exact recovery of the system's parameters is NOT proved: bounded stand-in on synthetic free-vibration data (labelled bounded)"]

ASSUMPTIONS["C05"] = ["pLSCF_poles: number of model orders enumerated (2 and 3); channel and reference counts symbolic; rmfd2ac / ac2mp_poly: block count, channel count, state dimension symbolic",
                      "recovery of the coefficients of an exact right matrix fraction is NOT proved: bounded stand-in (labelled bounded)"]

ASSUMPTIONS["C03"] = ["split: number of datasets enumerated (2); channel counts, reference lists (any order) and record lengths symbolic",
                      "SSI_multi_setup structure (thorough tier): 2 setups; reference count, roving counts, block rows (>= 2), ordmax symbolic; ordmax <= br*n_ref and <= (br-1)*n_DOF; step 1",
                      "identification of the global system is NOT proved: bounded stand-in (labelled bounded)"]

ASSUMPTIONS["C17"] = ["factor clause only: channel/reference counts, block rows, record length and number of blocks nb >= 2 symbolic; N >= 2 nb",
                      "the main clause (variance = first-order propagation) is NOT proved: bounded stand-in against finite differences (labelled bounded)"]

ASSUMPTIONS["C08"] = ["deductive part: the modal-parameter stage only (ssi.ac2mp, plscf.ac2mp_poly): unit normalisation and time-unit covariance for symbolic state dimension, channel count, dt and factor kappa",
                      "gain, channel-permutation and whole-pipeline time-unit covariance are NOT proved: metamorphic bounded stand-in (labelled bounded)"]

NOT_DECIDED = {
    "C08": ["covariance under gain and channel permutation / orthogonal mixing for every algorithm class: bounded stand-in only (one random orthogonal mixing per data set; the multi-setup variants are exercised for gain and time unit only)",
            "unit normalisation of FDD / EFDD / FSDD shapes: FDD_mpe's result clauses and its pivot lemma are discharged under C08 as well (same contract as C06); EFDD_mpe's final "
            "normalisation of the fitted shape (fdd.py, phi_FDD / phi_FDD[argmax|phi_FDD|]) is covered by the bounded stand-in only"],
    "C17": ["variance = squared directional derivative / sum of squares over several columns, at every model order: bounded stand-in only (finite differences; holds since /repo 9cb106e)",
            "the last data block is one sample short when nb divides N (the block slice is clamped to the N-1 available columns) but is still divided by Nb: a small bias the "
            "property does not speak about; the contract models it exactly"],
    "C03": ["that the structure proved for SSI_multi_setup (thorough tier: per-setup observability matrices, reference / roving row selection with that setup's own stride, re-basing "
            "O_mov pinv(O_ref) O_ref_first, per-block interleaving references-then-roving in setup order, one-block shift solve) identifies the global system exactly is a theorem "
            "about SVD / pseudo-inverse: bounded stand-in only; in the quick tier the function is exercised by the bounded stand-in only",
            "that every preprocessing step of MultiSetup_PreGER re-establishes the split is proved under C14 (Inv_M)"],
    "C01": ["that order 2m contains exactly the system's m conjugate pairs (shift-invariance theorem + floating-point conditioning): bounded stand-in only",
            "that the shift-invariance solve of the realisation (proved structurally: SSI_fast / SSI contracts) yields the system matrices of an exact rank-2m Hankel matrix is the "
            "Ho-Kalman theorem - a trusted lemma about SVD / QR / pseudo-inverse, exercised only by the bounded stand-in",
            "the hard-criteria filtering between SSI_poles and the stored tables is C09's subject"],
    "C05": ["that pLSCF's normal equations reproduce the coefficients (least-squares theorem + conditioning): bounded stand-in only",
            "the 'cor' shift of the poles by 1/tau is taken as the code writes it (the property speaks about the plain map)"],
    "C19": ["that reindex(index=names) re-orders rows, sub(1) subtracts one, replace(mapping) substitutes cell by cell (pandas semantics) and hence the mapped mode shape values: "
            "only the bounded stand-in speaks about them; the contracts prove which operation is applied to which table with which arguments, and the accept / reject decision",
            "the displayed displacement (value x sign, plot_mode) and what matplotlib draws",
            "flatten_sns_names on table inputs (one-row / multi-row DataFrame): bounded stand-in only"],
    "C15": ["save/load round trip and bit-identical reruns on real data: bounded stand-in only (pickle and floating point are outside the contracts)",
            "that the numerical kernels called by run() are deterministic and leave their inputs unchanged (assumption A4)"],
    "C11": ["automatic order selection ('find_min') for all inputs: only the bounded stand-in speaks about it",
            "the list-of-orders variant with covariances (same loop body as the proved variants, not enumerated separately)"],
    "C06": ["MAC 1 with the dominant singular vector follows from 'Phi is a non-zero multiple of the stored vector' and C18's scale invariance; "
            "unitarity of the vectors is numpy's (trusted)",
            "the end-to-end clause through EFDD/FSDD's first stage is the same FDD_mpe call (data flow not re-proved for EFDD_mpe)"],
    "C20": ["what matplotlib draws for the recorded calls (A10)"],
    "C18": ["invariance of MPD under a complex factor (needs equivariance of the SVD's right singular vectors)",
            "floating-point rounding (e.g. MAC = 1.0000000000000002 on collinear shapes)"],
    "C13": ["what scipy's csd computes (Hermitian PSD, Welch equivalence, Parseval, gain-and-delay phase, sinusoid amplitudes): statements about scipy; "
            "the proof shows SD_est calls it with exactly the prescribed operands/parameters and returns its result unchanged ('per') or through the "
            "prescribed irfft-window-rfft chain ('cor')"],
    "C04": ["the identical-reference corollary (merged = single-setup matrix) is the three-axiom lemma of DESIGN section 4 over the proved block structure; "
            "per-setup gain independence likewise follows from the structure"],
    "C14": ["absence of aliasing between user arrays and internal state beyond what the contracts state (data is the user's array after __init__, by design)"],
    "C16": ["that the modes finally extracted are those poles follows from C11's per-mode contract, not re-proved here"],
    "C02": ["the end-to-end SSI clause (shapes coming from SSI runs) is left to C01/C03"],
    "C12": ["the Gram/projection identity itself for the data-driven matrix is a trusted linear-algebra lemma; the proof pins the "
            "stacking order, scaling, windows and split point it depends on"],
    "C10": ["MAC value itself (C18)", "label purity is a consequence of the functional contract (result == spec(arguments)); "
                                      "absence of writes to the argument tables is checked by the replay only"],
    "C09": ["the numerical values of MPC/MPD themselves (C18)"],
}


def trusted_base(prop):
    return COMMON_TRUSTED + TRUSTED.get(prop, [])


def assumptions(prop):
    return COMMON_ASSUMPTIONS + ASSUMPTIONS.get(prop, [])


def not_decided(prop):
    return NOT_DECIDED.get(prop, [])
