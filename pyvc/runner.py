"""Check driver: verify the contracts of one property, discharge, classify, replay, write evidence."""
from __future__ import annotations

import concurrent.futures as cf
import hashlib
import importlib
import json
import os
import subprocess
import sys
import time
import traceback

ROOT = os.path.dirname(os.path.dirname(os.path.abspath(__file__)))

CONTRACT_MODULES = ["gen_hc", "algos_run"]

PROP_MODULES = {}      # property -> modules to import (default: all)


def _assumption_scan(ks):
    """mechanical scan, on every run, for what is ASSUMED rather than proved: `assume(...)` / `fact(...)` call sites in the sidecar
    contract modules of this property (preconditions, trusted lemma instances) and in the engine's models (kernel axioms: svd / qr / eig /
    argmax / sqrt / sums ...), plus the contracts that are abstracted at call sites (verify_body = False: havoc / recorders)"""
    import inspect
    import re
    pat = re.compile(r"\b(?:c|c2|cur\(\))\.(assume|fact)\(")
    mods = sorted({type(k).__module__ for k in ks})
    sites = []
    for m in mods:
        try:
            src = inspect.getsource(sys.modules[m]).splitlines()
        except Exception:
            continue
        for i, ln in enumerate(src, 1):
            mm = pat.search(ln)
            if mm:
                sites.append(f"{m.replace('contracts.', 'contracts/')}.py:{i}: {mm.group(1)}: {ln.strip()[:110]}")
    engine = {}
    for fn in sorted(os.listdir(os.path.join(ROOT, "pyvc"))):
        if fn.endswith(".py"):
            n = sum(1 for ln in open(os.path.join(ROOT, "pyvc", fn)) if pat.search(ln))
            if n:
                engine["pyvc/" + fn] = n
    from pyvc import contract as K
    abstracted = sorted({kk.ident for lst in K.REGISTRY.values() for kk in lst if not getattr(kk, "verify_body", True)
                         and any(kk.qualname in getattr(k, "use", {}) for k in ks)})
    return {"contract_sites": sites, "contract_site_count": len(sites), "engine_axiom_sites_per_file": engine,
            "callee_contracts_used_without_body_proof_here": abstracted}


def load_contracts():
    sys.path.insert(0, ROOT)
    from pyvc import contract as K
    mods = list(CONTRACT_MODULES)
    extra = os.path.join(ROOT, "contracts")
    for fn in sorted(os.listdir(extra)):
        if fn.endswith(".py") and fn != "__init__.py" and fn[:-3] not in mods:
            mods.append(fn[:-3])
    for m in mods:
        importlib.import_module("contracts." + m)
    return K.REGISTRY


def contracts_for(prop, tier="quick"):
    reg = load_contracts()
    out = []
    for q, lst in reg.items():
        for k in lst:
            if prop in k.props and getattr(k, "verify_body", True):
                if getattr(k, "thorough_only", False) and tier != "thorough":
                    continue        # larger enumerated sizes: thorough tier only
                out.append(k)
    return out


# ----------------------------------------------------------------------------------
# worker
# ----------------------------------------------------------------------------------


def _cvc5_check(smt2, timeout_s=30):
    try:
        p = subprocess.run(["/usr/bin/cvc5", "--lang=smt2", f"--tlimit={timeout_s * 1000}", "--nl-ext-tplanes"],
                           input=smt2 + "\n(check-sat)\n", capture_output=True, text=True, timeout=timeout_s + 5)
        out = p.stdout.strip().splitlines()
        return out[-1] if out else "unknown"
    except Exception as e:
        return f"error:{e}"


class _ContractTimeout(BaseException):
    pass


def work(ident, prop, tier, tree):
    """one contract under a wall-clock limit: an engine that does not terminate on some (changed) function body must not hang the check.
    On expiry the contract is handed to its native stand-in like any other body the verifier cannot handle."""
    import signal
    limit = int(os.environ.get("VERIF_CONTRACT_LIMIT_S", "0") or 0) or (600 if tier == "quick" else 3000)

    def _expired(signum, frame):
        raise _ContractTimeout()
    old_handler = signal.signal(signal.SIGALRM, _expired)
    signal.alarm(limit)
    try:
        return _work_inner(ident, prop, tier, tree)
    except _ContractTimeout:
        signal.alarm(0)
        return _after_timeout(ident, prop, tier, tree, limit)
    finally:
        signal.alarm(0)
        signal.signal(signal.SIGALRM, old_handler)


def _after_timeout(ident, prop, tier, tree, limit):
    err = f"unsupported: the verifier did not finish this contract within {limit} s (engine non-termination or an oversized path set)"
    out = {"ident": ident, "error": err, "bounded": None, "paths": 0, "aux_paths": 0, "infeasible": 0, "loops": {}, "seconds": float(limit),
           "obligations": [], "functions": [], "canaries": [], "assumptions": []}
    try:
        reg = load_contracts()
        k = [kk for lst in reg.values() for kk in lst if kk.ident == ident and prop in kk.props][0]
        bd = getattr(k, "bounded_driver", None)
        if bd:
            rp = run_replay(bd, tree)
            ran = rp.get("reproduced") is not None
            out["bounded"] = {"instances": 1 if ran else 0, "undecided": 0 if ran else 1, "detail": rp.get("detail", "")[:300],
                              "bound": f"native driver {bd['driver']} (seeded random search on the real code)",
                              "violations": [{"kwargs": bd, "detail": rp.get("detail", "")}] if rp.get("reproduced") else []}
    except Exception as e:      # noqa: BLE001
        out["error"] += f" (stand-in failed: {type(e).__name__}: {e})"
    return out


def _work_inner(ident, prop, tier, tree):
    """verify one contract in a fresh process; returns a picklable summary"""
    os.environ["PYOMA2_TREE"] = tree
    t0 = time.time()
    try:
        from pyvc import contract as K
        from pyvc.core import discharge
        from pyvc.frontend import Repo
        reg = load_contracts()
        k = None
        for q, lst in reg.items():
            for kk in lst:
                if kk.ident == ident and prop in kk.props:
                    k = kk
        repo = Repo(tree)
        timeout = 45000 if tier == "quick" else 120000      # generous: verdicts must not flip when all cores are busy
        if getattr(k, "bounded_only", False):
            # declared outside the verifier's reach: a native bounded search stands in, labelled bounded, never counted as proved
            bd = dict(k.bounded_driver)
            bd["inputs"] = dict(bd.get("inputs", {}), seed=int(os.environ.get("VERIF_SEED", "0") or 0) + 11,
                                trials=bd.get("inputs", {}).get("trials_thorough" if tier == "thorough" else "trials", 300))
            rp = run_replay(bd, tree, timeout=1500)
            fi = repo.function(k.qualname)
            fails = rp.get("failures")
            if fails is None:
                fails = [{"claim": "property", "detail": rp.get("detail", "")}] if rp.get("reproduced") else []
            err = None if rp.get("reproduced") is not None else "crash: bounded driver failed: " + str(rp.get("detail"))[:600]
            return {"ident": ident, "error": err, "paths": 0, "aux_paths": 0, "infeasible": 0, "loops": {}, "seconds": round(time.time() - t0, 3),
                    "obligations": [], "canaries": [], "assumptions": list(k.assumptions), "bounded_reason": k.bounded_reason,
                    "functions": [{"qualname": fi.qualname, "file": os.path.relpath(fi.path, tree), "lines": list(fi.lines), "sha256": fi.sha256, "bounded": True}],
                    "bounded": {"instances": bd["inputs"]["trials"], "undecided": 0, "detail": rp.get("detail", "")[:300],
                                "bound": f"native driver {bd['driver']}: {bd['inputs']['trials']} seeded random crafted instances ({k.bounded_bound})",
                                "violations": [{"kwargs": bd, "detail": f["detail"], "claim": f["claim"]} for f in fails]}}
        res = K.verify(k, repo)
        bounded = None
        if res.error and (res.error.startswith("unsupported") or res.error.startswith("crash")) and getattr(k, "bounded_driver", None):
            # the function (as it is now) is outside the verifier's reach - or crashed it: the native driver may still find a failing input
            bd = k.bounded_driver
            rp = run_replay(bd, tree)
            ran = rp.get("reproduced") is not None          # None: the driver itself failed - nothing was explored
            bounded = {"instances": 1 if ran else 0, "undecided": 0 if ran else 1, "detail": rp.get("detail", "")[:300],
                       "bound": f"native driver {bd['driver']} (seeded random search on the real code)",
                       "violations": [{"kwargs": bd, "detail": rp.get("detail", "")}] if rp.get("reproduced") else []}
        elif res.error and (res.error.startswith("unsupported") or res.error.startswith("crash")) and k.generic_replay:
            # the function (as it is now) is outside the verifier's reach: bounded stand-in, never counted as proof
            from pyvc import replaygen
            try:
                bounded = replaygen.bounded_check(k, tree, count=40 if tier == "quick" else 200,
                                                  seed=int(os.environ.get("VERIF_SEED", "0") or 0))
            except Exception as e:
                bounded = {"instances": 0, "violations": [], "undecided": 0, "bound": f"bounded stand-in failed: {e}"}
        out = {"ident": ident, "error": res.error, "bounded": bounded, "paths": res.n_paths, "aux_paths": res.n_aux,
               "infeasible": res.n_infeasible, "loops": res.loops, "seconds": 0, "obligations": [],
               "functions": [], "canaries": [], "assumptions": list(k.assumptions)}
        for q, fi in res.functions.items():
            out["functions"].append({"qualname": q, "file": os.path.relpath(fi.path, tree), "lines": list(fi.lines),
                                     "sha256": fi.sha256})
        replayed = set()
        replay_by_oid = {}
        # static (syntactic) checks attached to a contract, e.g. frame conditions of abstracted methods
        for kk2 in [k]:
            pass
        # a contract registered for several properties may say which of its obligations speak about which property
        # (`prop_clauses = {"C03": predicate over the obligation id}`); obligations outside the property's clauses are not this check's
        sel = getattr(k, "prop_clauses", {}).get(prop)
        for o in res.obligations:
            if sel is not None and not sel(o.oid):
                continue
            discharge(o, timeout)
            rec = {"id": o.oid, "kind": o.kind, "path": o.path, "status": o.status, "seconds": round(o.seconds, 4),
                   "backend": o.backend, "meta": {kk: str(v)[:200] for kk, v in (o.meta or {}).items()}}
            if o.status == "unknown" or tier == "thorough":
                r = _cvc5_check(o.smt2(), 30 if tier == "quick" else 60)
                rec["cvc5"] = r
                if o.status == "unknown" and r == "unsat":
                    rec["status"] = "proved"
                    rec["backend"] = "cvc5"
                elif o.status == "proved" and r == "sat":
                    rec["status"] = "solver-disagreement"
            if rec["status"] == "refuted":
                rec["model"] = str(o.model)[:4000] if o.model is not None else None
            if rec["status"] == "unknown" and o.oid not in replayed and (hasattr(k, "witness") or getattr(k, "bounded_driver", None)):
                # undecided by the solver: a native search for a failing input may still settle it
                replayed.add(o.oid)
                try:
                    w = k.witness(o) if hasattr(k, "witness") else dict(k.bounded_driver)
                    rp = run_replay(w, tree)
                except Exception as e:
                    w, rp = None, {"reproduced": None, "detail": f"replay failed: {e}"}
                if rp.get("reproduced"):
                    rec["status"] = "refuted"
                    rec["backend"] = "z3:unknown + native replay"
                    rec["witness"] = w
                    rec["replay"] = rp
            if rec["status"] == "refuted" and o.oid not in replayed:
                replayed.add(o.oid)
                try:
                    if hasattr(k, "witness"):
                        w = k.witness(o)
                        rp = run_replay(w, tree)
                    elif k.generic_replay:
                        from pyvc import replaygen
                        w, rp = replaygen.generic_replay(k, o, tree)
                    else:
                        w, rp = None, {"reproduced": None, "detail": "no replay available for this contract"}
                except Exception as e:
                    w, rp = {"error": f"witness extraction failed: {type(e).__name__}: {e}"}, \
                        {"reproduced": None, "detail": f"replay failed: {type(e).__name__}: {e}"}
                rec["witness"] = w
                rec["replay"] = rp
                replay_by_oid[o.oid] = rp
            # `replay_gated`: single clauses of a contract that state a representation invariant stronger than the property (e.g. "the working
            # array and the stored initial copy are distinct objects"): failing one is a violation only if some operation sequence on the real
            # code then shows the property itself failing
            gated = getattr(k, "term_level", False) or any(t in o.oid for t in getattr(k, "replay_gated", ()))
            if rec["status"] == "refuted" and gated and replay_by_oid.get(o.oid, {}).get("reproduced") is False:
                # the contract speaks about uninterpreted matrix terms (svd / qr / inv ... as opaque kernels): a "counter-model" of such an
                # obligation only says that two terms are not syntactically forced to be equal - it is no input.  When the native stand-in
                # (exact recovery on the real code) finds nothing either, the obligation is NOT a violation: it is undecided at this level and
                # the contract is reported as bounded for this run (an algebraically equivalent rewrite of the kernel calls ends up here).
                rec["status"] = "term-undecided"
                rec["replay"] = replay_by_oid[o.oid]
            if len(out["obligations"]) < 3:
                rec["smt2_head"] = o.smt2()[:600]
            out["obligations"].append(rec)
        # canaries: deliberately wrong specifications that must be refuted
        for label, fn in getattr(k, "canaries", {}).items():
            r2 = K.verify(k, repo, spec_override=fn)
            n_ref = 0
            if r2.error is None:
                # a canary only has to be refuted once: post obligations first, short budget
                # (two passes: a short budget first; under load a second, longer one before the canary counts as missed)
                for budget in (5000, 40000):
                    for o in sorted(r2.obligations, key=lambda o: 0 if o.kind == "post" else 1):
                        if o.status is None or (o.status == "unknown" and budget > 5000):
                            discharge(o, budget)
                        if o.status == "refuted":
                            n_ref += 1
                            break
                    if n_ref:
                        break
            out["canaries"].append({"label": label, "refuted": n_ref, "error": r2.error})
        out["seconds"] = round(time.time() - t0, 3)
        return out
    except Exception as e:
        return {"ident": ident, "error": "crash: " + "".join(traceback.format_exception(type(e), e, e.__traceback__))[-3000:],
                "bounded": None, "paths": 0, "aux_paths": 0, "infeasible": 0, "loops": {}, "seconds": round(time.time() - t0, 3),
                "obligations": [], "functions": [], "canaries": [], "assumptions": []}


# ----------------------------------------------------------------------------------
# findings
# ----------------------------------------------------------------------------------


def load_findings():
    p = os.path.join(ROOT, "known_findings.jsonl")
    out = []
    if os.path.exists(p):
        for line in open(p):
            line = line.strip()
            if line and not line.startswith("#"):
                out.append(json.loads(line))
    return out


def run_replay(witness, tree, timeout=300):
    """run the native replay driver on a witness; returns dict(reproduced=bool|None, detail=str)"""
    if not witness or "driver" not in witness:
        return {"reproduced": None, "detail": "no replay driver for this obligation"}
    try:
        p = subprocess.run(["/venv/bin/python", os.path.join(ROOT, "replay", "drivers.py"), witness["driver"]],
                           input=json.dumps(witness.get("inputs", {})), capture_output=True, text=True, timeout=timeout,
                           env=dict(os.environ, PYTHONPATH=os.path.join(tree, "src"), MPLBACKEND="Agg", TQDM_DISABLE="1",
                                    # native drivers must not starve the solver processes: two BLAS threads each
                                    OMP_NUM_THREADS="2", OPENBLAS_NUM_THREADS="2", MKL_NUM_THREADS="2"))
        last = p.stdout.strip().splitlines()[-1] if p.stdout.strip() else ""
        try:
            return json.loads(last)
        except Exception:
            return {"reproduced": None, "detail": f"driver output not understood: {p.stdout[-500:]} {p.stderr[-1500:]}"}
    except Exception as e:
        return {"reproduced": None, "detail": f"driver failed: {e}"}


# ----------------------------------------------------------------------------------
# main
# ----------------------------------------------------------------------------------

LEVEL_NOTES = {}


def main(argv=None):
    import argparse
    ap = argparse.ArgumentParser()
    ap.add_argument("prop", nargs="?")
    ap.add_argument("--tier", default=os.environ.get("VERIF_TIER", "quick"))
    ap.add_argument("--replay")
    ap.add_argument("--jobs", type=int, default=int(os.environ.get("PYVC_JOBS", "14")))
    ap.add_argument("--no-evidence", action="store_true")
    a = ap.parse_args(argv)
    tree = os.environ.get("PYOMA2_TREE", "/repo")
    seed = int(os.environ.get("VERIF_SEED", "0") or 0)
    if a.replay:
        w = json.load(open(a.replay))
        wit = w.get("witness") or {}
        if wit.get("driver") == "generic":
            from pyvc import replaygen
            reg = load_contracts()
            k = [kk for lst in reg.values() for kk in lst if kk.ident == wit["contract"]][0]
            r = replaygen.check_concrete(k, wit["kwargs"], tree)
        else:
            r = run_replay(wit, tree)
        print(json.dumps(r))
        print(f"replay of {w.get('obligation')}: reproduced={r.get('reproduced')}")
        return 1 if r.get("reproduced") else 0
    prop = a.prop
    tier = "thorough" if a.tier == "thorough" else "quick"
    t0 = time.time()
    ks = contracts_for(prop, tier)
    if not ks:
        print(f"checker error: no contracts registered for {prop}")
        return 3
    results = []
    hard = (int(os.environ.get("VERIF_CONTRACT_LIMIT_S", "0") or 0) or (600 if tier == "quick" else 3000)) * 2 + 600
    ex = cf.ProcessPoolExecutor(max_workers=min(a.jobs, len(ks)))
    try:
        futs = [(k, ex.submit(work, k.ident, prop, tier, tree)) for k in ks]
        for k, f in futs:
            try:
                results.append(f.result(timeout=max(60, hard - (time.time() - t0))))
            except Exception as e:      # noqa: BLE001   (a worker stuck in native code, or killed)
                results.append({"ident": k.ident, "error": f"crash: worker did not return ({type(e).__name__}: {e})", "bounded": None, "paths": 0, "aux_paths": 0,
                                "infeasible": 0, "loops": {}, "seconds": 0.0, "obligations": [], "functions": [], "canaries": [], "assumptions": []})
    finally:
        for pr in list(getattr(ex, "_processes", {}).values()):
            if pr.is_alive():
                pr.kill()
        ex.shutdown(wait=False, cancel_futures=True)
    # ---- static (syntactic) checks of abstracted functions, e.g. frame conditions --------------------
    from pyvc.frontend import Repo as _Repo
    reg = load_contracts()
    _repo = None
    for q, lst in reg.items():
        for k in lst:
            if prop in k.props and hasattr(k, "static_checks"):
                _repo = _repo or _Repo(tree)
                try:
                    checks, fi = k.static_checks(_repo)
                    rec = {"ident": k.ident + "{static}", "error": None, "bounded": None, "paths": 0, "aux_paths": 0, "infeasible": 0,
                           "loops": {}, "seconds": 0, "canaries": [], "assumptions": [],
                           "functions": [{"qualname": fi.qualname, "file": os.path.relpath(fi.path, tree), "lines": list(fi.lines),
                                          "sha256": fi.sha256}],
                           "obligations": [{"id": f"{k.ident}/{label}", "kind": "frame", "path": "", "status": "proved" if ok else "refuted",
                                            "seconds": 0.0, "backend": "static", "meta": {"detail": detail},
                                            "replay": {"reproduced": None, "detail": detail}} for (label, ok, detail) in checks]}
                except Exception as e:
                    rec = {"ident": k.ident + "{static}", "error": f"unsupported: static check failed: {e}", "bounded": None, "paths": 0,
                           "aux_paths": 0, "infeasible": 0, "loops": {}, "seconds": 0, "canaries": [], "assumptions": [],
                           "functions": [], "obligations": []}
                results.append(rec)
    # ---- classify ----------------------------------------------------------------------
    findings = [f for f in load_findings() if f.get("property") == prop]
    open_f = [f for f in findings if f.get("status") == "open"]
    # a contract whose function is outside the verifier's reach (unsupported construct, engine crash) but whose native
    # stand-in ran and found nothing is a BOUNDED result for that contract: reported as such, not as a checker error
    fell_back = [r for r in results if r["error"] and r.get("bounded") and r["bounded"].get("instances", 0) > 0 and not r["bounded"]["violations"]
                 and not r["error"].startswith("crash: bounded driver failed")]
    errors = [r for r in results if r["error"] and r not in fell_back]
    all_obl = [(r, o) for r in results for o in r["obligations"]]
    n_total = len(all_obl)
    refuted = [(r, o) for r, o in all_obl if o["status"] == "refuted"]
    unknown = [(r, o) for r, o in all_obl if o["status"] in ("unknown", "solver-disagreement")]
    known, viol = [], []
    for r, o in refuted:
        m = [f for f in open_f if f["obligation"] == o["id"]]
        (known if m else viol).append((r, o, m[0] if m else None))
    canary_bad = [(r, cn) for r in results for cn in r["canaries"] if cn["refuted"] == 0 and r not in fell_back]
    lines = []
    seen_known = set()
    for r, o, f in known:
        if f["obligation"] in seen_known:
            continue
        seen_known.add(f["obligation"])
        lines.append(f"KNOWN-FINDING: property={prop} {f['what']} [{f['obligation']}]")
    os.makedirs(os.path.join(ROOT, "replays"), exist_ok=True)
    viol_lines = []
    seen_v = set()
    n_viol = 0
    for r, o, _ in viol:
        if o["id"] in seen_v:
            continue
        seen_v.add(o["id"])
        n_viol += 1
        rep = o.get("replay") or {"reproduced": None, "detail": "no replay"}
        h = hashlib.sha1(o["id"].encode()).hexdigest()[:10]
        path = os.path.join("replays", f"{prop}_{h}.json")
        json.dump({"property": prop, "obligation": o["id"], "path": o["path"], "tree": tree,
                   "solver": {"backend": o["backend"], "status": o["status"], "model": o.get("model")},
                   "witness": o.get("witness"), "replay": rep, "meta": o.get("meta")},
                  open(os.path.join(ROOT, path), "w"), indent=1)
        tail = "" if rep.get("reproduced") else " no-failing-input-found"
        viol_lines.append(f"VIOLATION property={prop} replay={path}{tail}")
        lines.append(f"  failed obligation {o['id']} (path {o['path'] or '-'}): {rep.get('detail', '')[:300]}")
    # bounded stand-ins of contracts whose function is outside the verifier's reach
    known_bounded = []
    for r in results:
        b = r.get("bounded")
        for v in (b["violations"] if b else []):
            oid = r["ident"] + "/bounded-stand-in" + (":" + v["claim"] if v.get("claim") else "")
            m = [f for f in open_f if f["obligation"] == oid]
            if m:
                known_bounded.append(oid)
                lines.append(f"KNOWN-FINDING: property={prop} {m[0]['what']} [{oid}]")
                continue
            n_viol += 1
            h = hashlib.sha1(oid.encode()).hexdigest()[:10]
            path = os.path.join("replays", f"{prop}_{h}.json")
            reason = r["error"] or r.get("bounded_reason", "")
            json.dump({"property": prop, "obligation": oid, "tree": tree,
                       "solver": {"status": "not applicable: " + reason},
                       "witness": (v["kwargs"] if "driver" in v["kwargs"] else
                                   {"driver": "generic", "qualname": r["ident"].split("[")[0], "contract": r["ident"],
                                    "kwargs": v["kwargs"]}),
                       "replay": {"reproduced": True, "detail": v["detail"]}, "bounded": b["bound"]},
                      open(os.path.join(ROOT, path), "w"), indent=1)
            viol_lines.append(f"VIOLATION property={prop} replay={path}")
            lines.append(f"  bounded stand-in for {r['ident']} (verifier: {reason[:120]}): {v['detail'][:300]}")
    for ln in lines:
        print(ln)
    for ln in viol_lines:
        print(ln)
    for r in fell_back:
        print(f"BOUNDED-FALLBACK {r['ident']}: not decided deductively ({r['error'][:160]}); native stand-in found no failing input: {r['bounded'].get('bound', '')[:160]}")
    term_und = {}
    for r, o in all_obl:
        if o["status"] == "term-undecided":
            term_und.setdefault(r["ident"], []).append(o)
    for ident, obs in term_und.items():
        ids = sorted({o["id"].split("/", 1)[1] for o in obs})
        print(f"BOUNDED-FALLBACK {ident}: {len(obs)} obligation(s) over uninterpreted matrix terms / representation-only clauses are no longer provable ({'; '.join(ids)[:200]}); "
              f"they have no input-level counterexample and the native stand-in found no failing input: {str(obs[0].get('replay', {}).get('detail', ''))[:160]}")
    for r in errors:
        print(f"CHECKER-ERROR {r['ident']}: {r['error'][:1500]}")
    for r, o in unknown:
        print(f"UNDECIDED {o['id']} path={o['path']} ({o['status']})")
    for r, cn in canary_bad:
        print(f"CHECKER-ERROR canary '{cn['label']}' of {r['ident']} was not refuted ({cn.get('error')})")
    known_ids = {o["id"] for _, o, _ in known}
    n_known_obl = sum(1 for r, o in all_obl if o["id"] in known_ids and o["status"] == "refuted")
    obligations = n_total - n_known_obl
    discharged = sum(1 for r, o in all_obl if o["status"] == "proved")
    wall = time.time() - t0
    # ---- evidence -------------------------------------------------------------------------
    if not a.no_evidence:
        by_backend = {}
        for r, o in all_obl:
            b = by_backend.setdefault(o["backend"] or "none", {"count": 0, "seconds": 0.0, "max_seconds": 0.0})
            b["count"] += 1
            b["seconds"] = round(b["seconds"] + o["seconds"], 3)
            b["max_seconds"] = max(b["max_seconds"], o["seconds"])
        samples = [{"id": o["id"], "path": o["path"], "status": o["status"], "smt2_head": o.get("smt2_head", "")[:400]}
                   for r, o in all_obl if "smt2_head" in o][:3]
        from pyvc import trusted
        ev_scan = _assumption_scan(ks)
        ev = {
            "property_id": prop, "tier": tier, "seed": seed, "level": "proof",
            "coverage": {
                "obligations": obligations, "discharged": discharged,
                "checker_cmd": f"./check {prop} --tier {tier}",
                "trusted_base": trusted.trusted_base(prop),
                "samples": samples,
                "functions_under_contract": [dict(f, contract=r["ident"]) for r in results for f in r["functions"]],
                "contracts": [{"ident": r["ident"], "paths": r["paths"], "aux_paths": r["aux_paths"],
                               "obligations": len(r["obligations"]), "seconds": r["seconds"], "loops": r["loops"],
                               "error": r["error"]} for r in results],
                "by_backend": by_backend,
                "slowest_obligations": [{"id": o["id"], "path": o["path"], "seconds": o["seconds"], "backend": o["backend"]}
                                        for _, o in sorted(all_obl, key=lambda ro: -ro[1]["seconds"])[:5] if o["seconds"] > 1.0],
                "kinds": _count(o["kind"] for _, o in all_obl),
                "known_failing": sorted(known_ids),
                "known_failing_obligations": n_known_obl,
                "canaries_refuted": sum(1 for r in results for cn in r["canaries"] if cn["refuted"] > 0),
                "canaries": [dict(cn, contract=r["ident"]) for r in results for cn in r["canaries"]],
                "undecided": [o["id"] for _, o in unknown],
                "term_level_undecided": sorted({o["id"] for obs in term_und.values() for o in obs}),
                "bounded_standins": [dict(contract=r["ident"], reason=(r["error"] or r.get("bounded_reason", ""))[:300],
                                          **{k_: v for k_, v in r["bounded"].items() if k_ != "violations"},
                                          violations=len(r["bounded"]["violations"]),
                                          known_failing=[x for x in known_bounded if x.startswith(r["ident"] + "/")]) for r in results if r.get("bounded")],
                "not_decided_clauses": trusted.not_decided(prop),
                "assumption_scan": ev_scan,
                "tree": tree,
            },
            "assumptions": trusted.assumptions(prop) + sorted({x for r in results for x in r["assumptions"]}),
            "wall_s": round(wall, 2),
            "violations": n_viol,
        }
        os.makedirs(os.path.join(ROOT, "evidence"), exist_ok=True)
        json.dump(ev, open(os.path.join(ROOT, "evidence", f"{prop}.json"), "w"), indent=1)
    print(f"{prop}: {discharged}/{obligations} obligations discharged"
          f" ({n_known_obl} known-failing excluded), {len(results)} contracts, {wall:.1f}s")
    if n_viol:
        return 1
    if errors or canary_bad:
        return 3
    if unknown:
        return 2
    if n_total == 0 and not (fell_back or term_und or any(r.get("bounded") for r in results)):
        # nothing was generated and nothing was explored natively either: a vacuous run is an error, not a pass
        print("checker error: zero obligations")
        return 3
    return 0


def _count(xs):
    d = {}
    for x in xs:
        d[x] = d.get(x, 0) + 1
    return d


if __name__ == "__main__":
    sys.exit(main())
