"""Generic replay (DESIGN.md 2.8): the counter-model's inputs are run through the *real* function in a
/venv/bin/python subprocess, and the native outcome is checked against the contract in concrete mode
(inputs and outputs are constants; real comparisons use a relative tolerance of 1e-7)."""
from __future__ import annotations

import json
import os
import subprocess

import z3

from . import concretise as CZ
from . import sym
from .core import Ctx, Engine, PyRaise, discharge
from .sym import Arr, C, F, Obj

ROOT = os.path.dirname(os.path.dirname(os.path.abspath(__file__)))
TOL = "1/10000000"


def from_json(v, like=None):
    """JSON value -> symbolic constant"""
    if isinstance(v, dict) and "shape" in v and "cells" in v:
        shape, kind, cells = v["shape"], v["kind"], v["cells"]

        def conv(c):
            if kind == "complex":
                return sym.CNAN if c is None else sym.C(False, sym.rv(float(c[0])), sym.rv(float(c[1])))
            if kind == "float":
                return sym.NAN if c is None else sym.F(False, sym.rv(float(c)))
            if kind == "bool":
                return bool(c)
            return int(c)
        vals = [conv(c) for c in cells]
        strides = []
        acc = 1
        for n in reversed(shape):
            strides.append(acc)
            acc *= n
        strides = list(reversed(strides))

        def fn(idx, vals=vals, strides=strides, shape=shape):
            flat = 0
            for t, st in zip(idx, strides):
                flat = sym.add(flat, sym.mul(t[0], st))
            if sym.is_pyint(flat):
                return vals[flat]
            from .npmodel import _select
            return _select(flat, vals)
        if not shape:
            return vals[0]
        a = Arr(tuple((n,) for n in shape), fn, kind)
        return a
    if isinstance(v, dict) and "__tuple__" in v:
        return tuple(from_json(x) for x in v["__tuple__"])
    if isinstance(v, dict) and "__complex__" in v:
        return sym.C(False, sym.rv(float(v["__complex__"][0])), sym.rv(float(v["__complex__"][1])))
    if isinstance(v, dict) and "__obj__" in v:
        return Obj(v["__obj__"], {k: from_json(x) for k, x in v["fields"].items()})
    if isinstance(v, dict) and "__opaque__" in v:
        return sym.Opaque(v["__opaque__"])
    if isinstance(v, dict):
        return {k: from_json(x) for k, x in v.items()}
    if isinstance(v, list):
        return [from_json(x) for x in v]
    if isinstance(v, float):
        return sym.F(False, sym.rv(v), py=True)
    return v


def native(qualname, kwargs, tree, timeout=300):
    p = subprocess.run(["/venv/bin/python", os.path.join(ROOT, "replay", "native_call.py")],
                       input=json.dumps({"qualname": qualname, "kwargs": kwargs}), capture_output=True, text=True,
                       timeout=timeout, env=dict(os.environ, PYTHONPATH=os.path.join(tree, "src"), MPLBACKEND="Agg"))
    lines = p.stdout.strip().splitlines()
    if not lines:
        raise RuntimeError("native call produced no output: " + p.stderr[-1500:])
    return json.loads(lines[-1])


def generic_replay(contract, o, tree):
    """-> (witness dict, replay dict)"""
    prefix = [ch == "T" for ch in o.path]
    model = CZ.small_model(o)
    if model is None:
        return None, {"reproduced": None, "detail": "no model"}
    ctx = Ctx(Engine(), prefix)
    with ctx:
        env = contract.setup(ctx)
        kwargs = {k: CZ.ev_value(model, v) for k, v in env.items()}
    witness = {"driver": "generic", "qualname": contract.qualname, "contract": contract.ident, "kwargs": kwargs}
    rep = check_concrete(contract, kwargs, tree)
    return witness, rep


def check_concrete(contract, kwargs, tree):
    try:
        nat = native(contract.qualname, kwargs, tree)
    except Exception as e:
        return {"reproduced": None, "detail": f"native call failed: {e}"}
    failed = []
    eng = Engine()

    def body(ctx):
        ctx.tol = z3.RealVal(TOL)
        pre = {k: from_json(v) for k, v in kwargs.items()}
        post = {k: from_json(v) for k, v in nat.get("args_after", {}).items()}
        if nat["outcome"] == "return":
            outcome = ("return", from_json(nat["value"]))
        else:
            outcome = ("raise", nat["etype"])
        contract.check(ctx, pre, post, outcome)
        return outcome
    try:
        paths = eng.explore(body, tag=contract.ident + "@replay")
    except PyRaise as e:
        return {"reproduced": None, "detail": f"specification raised {e.etype} in concrete mode"}
    except Exception as e:
        return {"reproduced": None, "detail": f"concrete-mode check failed: {type(e).__name__}: {e}"}
    n_obl = 0
    for pth in paths:
        for ob in pth.obls:
            n_obl += 1
            discharge(ob, 10000)
            if ob.status == "refuted":
                # an obligation over uninterpreted matrix terms (svd / qr / inv as opaque kernels) cannot be evaluated on concrete numbers:
                # its "failure" in concrete mode says nothing about the real code
                if ob.oid.endswith(".term") or ".term[" in ob.oid:
                    continue
                failed.append(ob.oid.split("/", 1)[-1])

    class _C:
        obls = [None] * n_obl
    ctx = _C()
    nat_short = json.dumps(nat.get("value", nat.get("etype")))[:400]
    if failed:
        return {"reproduced": True, "detail": f"real code violates {sorted(set(failed))[:4]} on the concretised input; "
                                              f"native outcome {nat['outcome']}: {nat_short}"}
    return {"reproduced": False, "detail": f"real code satisfies the contract on the concretised input "
                                           f"({len(ctx.obls)} concrete checks); native outcome {nat['outcome']}"}


# ----------------------------------------------------------------------------------
# bounded stand-in for functions outside the verifier's reach
# ----------------------------------------------------------------------------------


def random_instances(contract, count, seed, max_dim=6, big_dim=20):
    """concrete argument sets satisfying the contract's preconditions: shapes and scalar parameters from z3
    models under random hints, array contents seeded-random (NaNs sprinkled into arrays not declared finite)"""
    import random
    rnd = random.Random(seed)
    out = []
    tries = 0
    while len(out) < count and tries < 6 * count:
        tries += 1
        ctx = Ctx(Engine(), [])
        with ctx:
            try:
                env = contract.setup(ctx)
            except Exception:
                continue
            s = z3.Solver()
            s.set("timeout", 5000)
            for f in ctx.pc:
                s.add(f)
            consts = set()
            for f in ctx.pc:
                st = [f]
                seen = set()
                while st:
                    x = st.pop()
                    if x.get_id() in seen:
                        continue
                    seen.add(x.get_id())
                    if z3.is_const(x) and x.decl().kind() == z3.Z3_OP_UNINTERPRETED:
                        consts.add(x)
                    st.extend(x.children())
            for v in _shape_consts(env):
                consts.add(v)
            hints = []
            for x in sorted(consts, key=str):
                if x.sort() == z3.IntSort():
                    hi = big_dim if any(t in str(x) for t in ("Ndat", "N!", "nf", "Nf")) else max_dim
                    hints.append(x == rnd.randint(0, hi))
                elif x.sort() == z3.RealSort():
                    hints.append(x == z3.RealVal(str(round(rnd.uniform(0.01, 2.0), 3))))
                elif x.sort() == z3.BoolSort():
                    hints.append(x == (rnd.random() < 0.5))
            rnd.shuffle(hints)
            # keep as many hints as stay satisfiable
            s.push()
            kept = []
            for h in hints:
                s.push()
                s.add(h)
                if s.check() == z3.sat:
                    kept.append(h)
                    s.pop()
                    s.add(h)
                else:
                    s.pop()
            if s.check() != z3.sat:
                continue
            m = s.model()
            try:
                kwargs = {k: CZ.ev_value(m, v) for k, v in env.items()}
            except Exception:
                continue
            for k, v in env.items():
                _randomise(kwargs[k], v, rnd)
            out.append(kwargs)
    return out


def _shape_consts(v):
    if isinstance(v, Arr):
        for n in v.shape:
            if isinstance(n, z3.ExprRef) and z3.is_const(n):
                yield n
    elif isinstance(v, (list, tuple)):
        for x in v:
            yield from _shape_consts(x)
    elif isinstance(v, dict):
        for x in v.values():
            yield from _shape_consts(x)
    elif isinstance(v, Obj):
        for x in v.fields.values():
            yield from _shape_consts(x)


def _randomise(js, v, rnd):
    if isinstance(v, Arr) and isinstance(js, dict) and "cells" in js and v.meta.get("param"):
        fin = v.meta.get("finite", False)
        n = len(js["cells"])
        if js["kind"] == "float":
            js["cells"] = [None if (not fin and rnd.random() < 0.15) else round(rnd.gauss(0, 1), 6) for _ in range(n)]
        elif js["kind"] == "complex":
            js["cells"] = [None if (not fin and rnd.random() < 0.15) else [round(rnd.gauss(0, 1), 6), round(rnd.gauss(0, 1), 6)]
                           for _ in range(n)]
        elif js["kind"] == "bool":
            js["cells"] = [rnd.random() < 0.5 for _ in range(n)]
    elif isinstance(v, (list, tuple)) and isinstance(js, list):
        for a, b in zip(js, v):
            _randomise(a, b, rnd)
    elif isinstance(v, dict) and isinstance(js, dict):
        for k in v:
            if k in js:
                _randomise(js[k], v[k], rnd)


def bounded_check(contract, tree, count=40, seed=0):
    """-> dict(instances, violations: [ {kwargs, detail} ], errors)"""
    inst = random_instances(contract, count, seed)
    viol = []
    undecided = 0
    for kw in inst:
        r = check_concrete(contract, kw, tree)
        if r.get("reproduced") is True:
            viol.append({"kwargs": kw, "detail": r["detail"]})
            break
        if r.get("reproduced") is None:
            undecided += 1
    return {"instances": len(inst), "violations": viol, "undecided": undecided,
            "bound": f"{len(inst)} seeded random instances, extents <= 6 (record lengths <= 20)"}
