"""Generic replay (DESIGN.md 2.8): the counter-model's inputs are run through the *real* function in a
/venv/bin/python subprocess, and the native outcome is checked against the contract in concrete mode
(inputs and outputs are constants; real comparisons use a relative tolerance of 1e-7)."""
from __future__ import annotations

import json
import os
import subprocess

import z3

from . import concretise as CZ
from . import sym
from .core import Ctx, Engine, PyRaise, discharge
from .sym import Arr, C, F, Obj

ROOT = os.path.dirname(os.path.dirname(os.path.abspath(__file__)))
TOL = "1/10000000"


def from_json(v, like=None):
    """JSON value -> symbolic constant"""
    if isinstance(v, dict) and "shape" in v and "cells" in v:
        shape, kind, cells = v["shape"], v["kind"], v["cells"]

        def conv(c):
            if kind == "complex":
                return sym.CNAN if c is None else sym.C(False, sym.rv(float(c[0])), sym.rv(float(c[1])))
            if kind == "float":
                return sym.NAN if c is None else sym.F(False, sym.rv(float(c)))
            if kind == "bool":
                return bool(c)
            return int(c)
        vals = [conv(c) for c in cells]
        strides = []
        acc = 1
        for n in reversed(shape):
            strides.append(acc)
            acc *= n
        strides = list(reversed(strides))

        def fn(idx, vals=vals, strides=strides, shape=shape):
            flat = 0
            for t, st in zip(idx, strides):
                flat = sym.add(flat, sym.mul(t[0], st))
            if sym.is_pyint(flat):
                return vals[flat]
            from .npmodel import _select
            return _select(flat, vals)
        if not shape:
            return vals[0]
        a = Arr(tuple((n,) for n in shape), fn, kind)
        return a
    if isinstance(v, dict) and "__tuple__" in v:
        return tuple(from_json(x) for x in v["__tuple__"])
    if isinstance(v, dict) and "__complex__" in v:
        return sym.C(False, sym.rv(float(v["__complex__"][0])), sym.rv(float(v["__complex__"][1])))
    if isinstance(v, dict) and "__obj__" in v:
        return Obj(v["__obj__"], {k: from_json(x) for k, x in v["fields"].items()})
    if isinstance(v, dict) and "__opaque__" in v:
        return sym.Opaque(v["__opaque__"])
    if isinstance(v, dict):
        return {k: from_json(x) for k, x in v.items()}
    if isinstance(v, list):
        return [from_json(x) for x in v]
    if isinstance(v, float):
        return sym.F(False, sym.rv(v), py=True)
    return v


def native(qualname, kwargs, tree, timeout=300):
    p = subprocess.run(["/venv/bin/python", os.path.join(ROOT, "replay", "native_call.py")],
                       input=json.dumps({"qualname": qualname, "kwargs": kwargs}), capture_output=True, text=True,
                       timeout=timeout, env=dict(os.environ, PYTHONPATH=os.path.join(tree, "src"), MPLBACKEND="Agg"))
    lines = p.stdout.strip().splitlines()
    if not lines:
        raise RuntimeError("native call produced no output: " + p.stderr[-1500:])
    return json.loads(lines[-1])


def generic_replay(contract, o, tree):
    """-> (witness dict, replay dict)"""
    prefix = [ch == "T" for ch in o.path]
    model = CZ.small_model(o)
    if model is None:
        return None, {"reproduced": None, "detail": "no model"}
    ctx = Ctx(Engine(), prefix)
    with ctx:
        env = contract.setup(ctx)
        kwargs = {k: CZ.ev_value(model, v) for k, v in env.items()}
    witness = {"driver": "generic", "qualname": contract.qualname, "contract": contract.ident, "kwargs": kwargs}
    rep = check_concrete(contract, kwargs, tree)
    return witness, rep


def check_concrete(contract, kwargs, tree):
    try:
        nat = native(contract.qualname, kwargs, tree)
    except Exception as e:
        return {"reproduced": None, "detail": f"native call failed: {e}"}
    ctx = Ctx(Engine(), [])
    ctx.tol = z3.RealVal(TOL)
    failed = []
    with ctx:
        try:
            pre = {k: from_json(v) for k, v in kwargs.items()}
            post = {k: from_json(v) for k, v in nat.get("args_after", {}).items()}
            if nat["outcome"] == "return":
                outcome = ("return", from_json(nat["value"]))
            else:
                outcome = ("raise", nat["etype"])
            ctx.tag = contract.ident + "@replay"
            contract.check(ctx, pre, post, outcome)
        except PyRaise as e:
            return {"reproduced": None, "detail": f"specification raised {e.etype} in concrete mode"}
        except Exception as e:
            return {"reproduced": None, "detail": f"concrete-mode check failed: {type(e).__name__}: {e}"}
        for ob in ctx.obls:
            discharge(ob, 10000)
            if ob.status == "refuted":
                failed.append(ob.oid.split("/", 1)[-1])
    nat_short = json.dumps(nat.get("value", nat.get("etype")))[:400]
    if failed:
        return {"reproduced": True, "detail": f"real code violates {sorted(set(failed))[:4]} on the concretised input; "
                                              f"native outcome {nat['outcome']}: {nat_short}"}
    return {"reproduced": False, "detail": f"real code satisfies the contract on the concretised input "
                                           f"({len(ctx.obls)} concrete checks); native outcome {nat['outcome']}"}
