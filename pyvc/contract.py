"""Sidecar contracts (DESIGN.md 2.4): specification functions over symbolic values.

A contract for a repository function gives
  setup(c)        -> dict of parameter values (symbolic), after assuming the preconditions
  requires(c, **a)-> [(label, formula)]  preconditions proved at call sites (modular use)
  spec(c, **a)    -> the specified result as a symbolic value (may `raise PyRaise(...)`)
  check(c, pre, post_env, outcome)  (optional) explicit postconditions instead of result == spec
  loops           -> {ordinal: LoopSpec}   closed forms of symbolic loops in the function body
The same `spec` is what callers see (a caller never looks into a callee that has a contract).
"""
from __future__ import annotations

import time
import traceback

import z3

from . import sym
from .core import Engine, PathInfeasible, PyRaise, Unsupported, cur, discharge
from .frontend import Repo
from .core import PathEnd
from .interp import Interp, assert_same
from .models import MODELS, deep_copy

REGISTRY = {}


def register(cls):
    inst = cls()
    REGISTRY.setdefault(inst.qualname, []).append(inst)
    return cls


class Contract:
    qualname = ""
    props = ()
    name = None              # variant name (several contracts may cover one function)
    inline = ()              # callee qualnames to inline even if they have contracts
    use_contracts = None     # restrict the callee contracts visible (None = all registered)
    callable_modular = True  # usable at call sites
    loops = {}
    canaries = {}
    assumptions = ()         # free-text assumptions copied to evidence
    generic_replay = True    # refutations are replayed by native call + concrete-mode contract check

    # -- to override -----------------------------------------------------------------
    def setup(self, c):
        raise NotImplementedError

    def requires(me, c, **a):
        return []

    def spec(self, c, **a):
        raise NotImplementedError

    def check(self, c, pre, post, outcome):
        """default: the outcome equals the specification's outcome"""
        try:
            want = ("return", self.spec(c, **pre))
        except PyRaise as e:
            want = ("raise", e.etype)
        self.compare_outcome(c, outcome, want)
        if "self" in pre and outcome[0] == want[0] and getattr(self, "compare_state", True):
            # methods: the specification mutates its (copied) receiver; the final states must agree
            assert_same("self", post["self"], pre["self"], "post")
        self.check_frame(c, pre, post, outcome)

    mutates = ()             # names of array arguments the function is allowed to write into

    def check_frame(self, c, pre, post, outcome):
        """frame: a function that returns leaves every array (and list of arrays) it was handed as it found it, unless the contract
        names the argument in `mutates` (pre holds deep copies taken before the call, post the argument objects after it)"""
        from . import sym
        if outcome[0] != "return":
            return
        for k, v in pre.items():
            if k == "self" or k in self.mutates:
                continue
            w = post.get(k)
            if isinstance(v, sym.Arr) and isinstance(w, sym.Arr):
                assert_same(f"frame.{k}", w, v, "post")
            elif isinstance(v, (list, sym.Seq)) and isinstance(w, (list, sym.Seq)):
                # a list handed in (selected frequencies, orders, names, arrays ...) is not sorted, extended or edited in place
                scal = (sym.Arr, sym.F, sym.C, int, float, bool, str, sym.SymStr) if hasattr(sym, "SymStr") else (sym.Arr, sym.F, sym.C, int, float, bool, str)
                if isinstance(v, list) and isinstance(w, list):
                    if len(v) != len(w):
                        c.oblige("post", f"frame.{k}.len", False)
                    elif all(isinstance(x, scal) or z3.is_expr(x) for x in v) and all(isinstance(x, scal) or z3.is_expr(x) for x in w):
                        assert_same(f"frame.{k}", w, v, "post")
                elif isinstance(v, sym.Seq) and isinstance(w, sym.Seq):
                    try:
                        assert_same(f"frame.{k}", w, v, "post")
                    except Unsupported:
                        pass

    def compare_outcome(self, c, outcome, want):
        if outcome[0] != want[0]:
            c.oblige("post", "outcome", False, {"got": outcome[0] + ":" + str(outcome[1])[:60] + (" (" + c.memo.get("raise_msg", "") + ")" if outcome[0] == "raise" else ""),
                                                "want": want[0] + ":" + str(want[1])[:60]})
            return
        if outcome[0] == "raise":
            c.oblige("post", "raises", outcome[1] == want[1], {"got": outcome[1], "want": want[1]})
            return
        assert_same("result", outcome[1], want[1], "post")

    # -- modular use -----------------------------------------------------------------
    def apply(self, interp, args, kwargs):
        c = cur()
        fi = interp.repo.function(self.qualname)
        self_obj = None
        env = interp.bind(fi, args, kwargs, None)
        for label, f in self.requires(c, **env):
            c.oblige("pre@call", f"{fi.node.name}.{label}", f)
            if not isinstance(f, bool):
                c.fact(f) if False else None
        return self.spec(c, **env)

    @property
    def ident(self):
        return self.qualname + (f"[{self.name}]" if self.name else "")


def spec_canary(wrong_spec):
    """canary from a deliberately wrong specification function(c, **pre)"""
    def chk(self, c, pre, post, outcome):
        try:
            want = ("return", wrong_spec(self, c, **pre))
        except PyRaise as e:
            want = ("raise", e.etype)
        self.compare_outcome(c, outcome, want)
    return chk


class VerifyResult:
    def __init__(self, contract):
        self.contract = contract
        self.paths = []
        self.obligations = []
        self.error = None
        self.functions = {}
        self.loops = {}
        self.seconds = 0.0
        self.n_paths = 0
        self.n_aux = 0
        self.n_infeasible = 0


def make_interp(repo, contract):
    visible = {}
    prefer = getattr(contract, "use", {}) or {}
    for q, lst in REGISTRY.items():
        cands = [k for k in lst if k.callable_modular]
        if contract.use_contracts is not None and q not in contract.use_contracts:
            continue
        if q in prefer and prefer[q] is not None:
            cands = [k for k in cands if k.name == prefer[q]] or cands
        elif q in prefer:
            cands = [k for k in cands if getattr(k, "verify_body", True)] or cands
        else:
            # default: the contract whose body is verified, if any
            cands = [k for k in cands if getattr(k, "verify_body", True)] or cands
        if cands:
            visible[q] = cands[0]
    I = Interp(repo, contracts=visible, models=dict(MODELS))
    I.inline = {contract.qualname} | set(contract.inline)
    for q in I.inline:
        for k in REGISTRY.get(q, []):
            for ordinal, ls in getattr(k, "loops", {}).items():
                I.loop_specs.setdefault((q, ordinal), ls)
    for ordinal, ls in contract.loops.items():
        I.loop_specs[(contract.qualname, ordinal)] = ls
    extra = getattr(contract, "extra_loops", {})
    for (q, ordinal), ls in extra.items():
        I.loop_specs[(q, ordinal)] = ls
    for k, v in getattr(contract, "models", {}).items():
        I.models[k] = v
    return I


def verify(contract, repo: Repo, spec_override=None) -> VerifyResult:
    res = VerifyResult(contract)
    t0 = time.time()
    fi = repo.function(contract.qualname)
    I = make_interp(repo, contract)
    eng = Engine()

    def body(c):
        env = contract.setup(c)
        pre = {k: deep_copy(v) for k, v in env.items()}
        call_env = dict(env)
        self_obj = call_env.pop("self", None) if fi.cls is not None and not fi.is_static else None
        pos_args = []
        va = fi.node.args.vararg
        if va is not None and va.arg in call_env:
            pos_args = list(call_env.pop(va.arg))
            names = [x.arg for x in fi.node.args.posonlyargs + fi.node.args.args if x.arg != "self"]
            lead = [call_env.pop(n) for n in names if n in call_env]
            pos_args = lead + pos_args
        kwa = fi.node.args.kwarg
        if kwa is not None and kwa.arg in call_env and isinstance(call_env[kwa.arg], dict):
            call_env.update(call_env.pop(kwa.arg))
        try:
            ret = I.call_fi(fi, pos_args, call_env, self_obj=self_obj)
            outcome = ("return", ret)
        except PyRaise as e:
            outcome = ("raise", e.etype)
            c.memo["raise_msg"] = str(e.msg)[:120]
        except PathEnd:
            return ("aux", None)
        if spec_override is not None:
            spec_override(contract, c, pre, env, outcome)
        else:
            contract.check(c, pre, env, outcome)
        return outcome

    try:
        paths = eng.explore(body, tag=contract.ident)
    except Unsupported as e:
        res.error = f"unsupported: {e}"
        res.seconds = time.time() - t0
        return res
    except PyRaise as e:
        # a Python exception that surfaced while the CONTRACT (not the function) evaluated a lazily built element - e.g. the cell of a
        # comprehension read at an index the function never reads: the specification cannot be evaluated over this body
        res.error = f"unsupported: {e.etype} ({e.msg}) raised while the contract evaluated a lazily built element of the function's result"
        res.seconds = time.time() - t0
        return res
    except Exception as e:   # checker crash
        res.error = "crash: " + "".join(traceback.format_exception_only(type(e), e)).strip() + "\n" + traceback.format_exc()
        res.seconds = time.time() - t0
        return res
    res.paths = paths
    for p in paths:
        if p.infeasible:
            res.n_infeasible += 1
            continue
        if p.outcome and p.outcome[0] == "aux":
            res.n_aux += 1
        else:
            res.n_paths += 1
        res.obligations.extend(p.obls)
    res.functions = dict(I.functions_seen)
    res.loops = dict(I.stats["loops"])
    res.seconds = time.time() - t0
    return res


def discharge_all(obls, timeout_ms=20000):
    for o in obls:
        discharge(o, timeout_ms)
    return obls
