"""Bindings of foreign names (numpy / scipy / stdlib) to their pyvc models, and methods of
built-in values.  Each entry is part of the trusted base (DESIGN.md 2.6)."""
from __future__ import annotations

import z3

from . import npmodel as N
from . import sym
from .core import PyRaise, Unsupported, cur
from .sym import Arr, C, F, Obj, Opaque, Seq, is_int, is_pyint, is_scalar, zi

MODELS = {}


def model(*names):
    def deco(f):
        for n in names:
            MODELS[n] = f
        return f
    return deco


def _kind_arg(x):
    from .interp import TypeRef, ForeignFn
    if x is None:
        return None
    if isinstance(x, str):
        return {"int": "int", "float": "float", "complex": "complex", "bool": "bool"}.get(x, None)
    if isinstance(x, TypeRef):
        n = x.name
        if n.startswith("dtype:"):
            return n[6:]
        return {"int": "int", "float": "float", "complex": "complex", "bool": "bool"}.get(n)
    raise Unsupported(f"dtype {x}")


def _simple(name, fn, nargs=None):
    @model("numpy." + name)
    def m(fr, args, kwargs, fn=fn):
        if kwargs:
            kw = {k: v for k, v in kwargs.items() if k not in ("dtype",)}
            if "dtype" in kwargs:
                kw["dtype"] = _kind_arg(kwargs["dtype"])
            return fn(*args, **kw)
        return fn(*args)
    return m


for _n, _f in [
    ("where", N.where), ("logical_and", N.logical_and), ("logical_or", N.logical_or),
    ("logical_not", N.logical_not), ("abs", N.abs_), ("absolute", N.abs_), ("sqrt", N.sqrt),
    ("log", N.log), ("log10", N.log10), ("exp", N.exp), ("arccos", N.arccos), ("conj", N.conj),
    ("conjugate", N.conj), ("real", N.real), ("imag", N.imag), ("isnan", N.isnan), ("sign", N.sign),
    ("isclose", N.isclose), ("nan_to_num", N.nan_to_num), ("eye", N.eye), ("arange", N.arange),
    ("linspace", N.linspace), ("transpose", N.transpose), ("moveaxis", N.moveaxis),
    ("expand_dims", N.expand_dims), ("repeat", N.repeat), ("ravel", N.ravel), ("vstack", N.vstack),
    ("hstack", N.hstack), ("concatenate", N.concatenate), ("dot", N.dot), ("matmul", N.matmul),
    ("argmin", N.argmin), ("argmax", N.argmax), ("nanargmin", N.nanargmin), ("nanargmax", N.nanargmax),
    ("max", N.max_), ("min", N.min_), ("amax", N.max_), ("amin", N.min_), ("any", N.any_), ("all", N.all_),
    ("mean", N.mean), ("std", N.std), ("add", N.add), ("subtract", N.subtract), ("multiply", N.multiply),
    ("divide", N.divide),
]:
    _simple(_n, _f)


@model("numpy.transpose")
def _np_transpose(fr, args, kwargs):
    axes = kwargs.get("axes", args[1] if len(args) > 1 else None)
    if set(kwargs) - {"axes"} or len(args) > 2:
        raise Unsupported("np.transpose with arguments outside the model")
    return N.transpose(args[0]) if axes is None else N.transpose_axes(args[0], tuple(axes))


@model("numpy.nansum")
def _np_nansum(fr, args, kwargs):
    return N.nansum(args[0], kwargs.get("axis", args[1] if len(args) > 1 else None))


@model("numpy.clip")
def _np_clip(fr, args, kwargs):
    a, lo, hi = args[0], args[1], args[2]

    def cl(x):
        x = sym.toF(x)
        l_, h_ = sym.toF(lo), sym.toF(hi)
        return F(x.nan, z3.If(x.v < l_.v, l_.v, z3.If(x.v > h_.v, h_.v, x.v)))
    return N.elementwise(cl, a, kind="float")


@model("numpy.sum")
def _np_sum(fr, args, kwargs):
    return N.sum_(args[0], kwargs.get("axis", args[1] if len(args) > 1 else None))


@model("numpy.zeros", "numpy.ones", "numpy.empty")
def _np_zeros(fr, args, kwargs):
    raise Unsupported("bound below")


def _alloc(fill):
    def m(fr, args, kwargs):
        shape = args[0]
        dt = _kind_arg(kwargs.get("dtype", args[1] if len(args) > 1 else None))
        k = dt or "float"
        v = sym.cast(fill, k)
        a = N.full(shape, v, k)
        return a
    return m


MODELS["numpy.zeros"] = _alloc(0)
MODELS["numpy.ones"] = _alloc(1)
MODELS["numpy.empty"] = lambda fr, args, kwargs: N.empty(args[0], _kind_arg(kwargs.get("dtype", args[1] if len(args) > 1 else None)))


@model("numpy.full")
def _np_full(fr, args, kwargs):
    shape, val = args[0], args[1]
    dt = _kind_arg(kwargs.get("dtype", args[2] if len(args) > 2 else None))
    return N.full(shape, val, dt or sym.kind_of(val))


@model("numpy.zeros_like")
def _np_zl(fr, args, kwargs):
    return N.zeros_like(args[0], _kind_arg(kwargs.get("dtype")))


@model("numpy.empty_like")
def _np_el(fr, args, kwargs):
    return N.empty_like(args[0], _kind_arg(kwargs.get("dtype")))


@model("numpy.asarray")
def _np_asarray(fr, args, kwargs):
    """np.asarray returns its argument ITSELF when it already is an array of the requested dtype (an alias, not a copy): an in-place
    update of the result then changes the caller's array"""
    x = args[0]
    if set(kwargs) - {"dtype"}:
        raise Unsupported(f"np.asarray with keyword(s) {sorted(set(kwargs) - {'dtype'})}")
    dt = _kind_arg(kwargs.get("dtype", args[1] if len(args) > 1 else None))
    if isinstance(x, Arr) and (dt is None or dt == x.kind):
        return x
    return _np_array(fr, args, kwargs)


@model("numpy.array")
def _np_array(fr, args, kwargs):
    x = args[0]
    if set(kwargs) - {"dtype"}:
        raise Unsupported(f"np.array with keyword(s) {sorted(set(kwargs) - {'dtype'})}")
    dt = _kind_arg(kwargs.get("dtype", args[1] if len(args) > 1 else None))
    if isinstance(x, Arr):
        a = Arr(x.axes, x.snapshot_fn(), x.kind, term=x.term)
    elif is_scalar(x):
        a = N.asarray(x)
    else:
        a = N.asarray(x)
    if dt and dt != a.kind:
        a = N.astype(a, dt)
    return a


@model("numpy.reshape")
def _np_reshape(fr, args, kwargs):
    return N.reshape(args[0], args[1], order=kwargs.get("order", "C"))


@model("numpy.flatten")
def _np_flatten(fr, args, kwargs):
    return N.flatten(args[0], kwargs.get("order", "C"))


@model("numpy.diag")
def _np_diag(fr, args, kwargs):
    a = N.asarray(args[0])
    if a.ndim == 1:
        n = a.extent(0)
        f = a.snapshot_fn()
        ax = a.axes[0]
        term = None
        if a.term is not None:
            from . import matmodel
            term = matmodel.diag_(a.term)
        zero = sym.cast(0, a.kind if a.kind != "bool" else "int")
        return Arr((ax, ax), lambda idx: sym.ite(sym.And_(*[sym.eq(i, j) for i, j in zip(idx[0], idx[1])]), f((idx[0],)), zero),
                   a.kind, term=term)
    if a.ndim == 2:
        f = a.snapshot_fn()
        return Arr((a.axes[0],), lambda idx: f((idx[0], idx[0])), a.kind)
    raise Unsupported("np.diag of rank > 2")


@model("numpy.delete")
def _np_delete(fr, args, kwargs):
    return N.delete(args[0], args[1], kwargs.get("axis", args[2] if len(args) > 2 else None))


@model("numpy.c_[]")
def _np_c(fr, args, kwargs):
    raise Unsupported("np.c_")


@model("numpy.seterr")
def _np_seterr(fr, args, kwargs):
    return None


@model("tqdm.tqdm", "tqdm.trange")
def _tqdm(fr, args, kwargs):
    raise Unsupported("bound below")


MODELS["tqdm.tqdm"] = lambda fr, args, kwargs: args[0]


def _trange(fr, args, kwargs):
    from .interp import builtin_call
    return builtin_call(fr, "range", args, {})


MODELS["tqdm.trange"] = _trange


@model("copy.deepcopy", "copy.copy")
def _deepcopy(fr, args, kwargs):
    return deep_copy(args[0])


def deep_copy(x):
    if isinstance(x, Arr):
        a = x.copy()
        a.meta["copy_of"] = x
        return a
    if isinstance(x, list):
        return [deep_copy(v) for v in x]
    if isinstance(x, tuple):
        return tuple(deep_copy(v) for v in x)
    if isinstance(x, dict):
        return {k: deep_copy(v) for k, v in x.items()}
    if isinstance(x, Seq):
        f = x._fn
        sq = Seq(x.length, lambda k, f=f: deep_copy(f(k)), label=x.label)
        sq.meta = dict(x.meta)
        return sq
    if isinstance(x, Obj):
        return Obj(x.cls, {k: deep_copy(v) for k, v in x.fields.items()})
    return x


@model("logging.getLogger")
def _getlogger(fr, args, kwargs):
    return Opaque("logger")


@model("itertools.zip_longest")
def _zip_longest(fr, args, kwargs):
    """zip_longest over a concrete number of lists of (possibly symbolic) lengths: a list of tuples as long as the longest
    argument, missing entries replaced by fillvalue"""
    extra = set(kwargs) - {"fillvalue"}
    if extra:
        raise Unsupported(f"zip_longest keywords {sorted(extra)}")
    fill = kwargs.get("fillvalue")
    its = []
    for a in args:
        if isinstance(a, Arr):
            if a.ndim != 1:
                raise Unsupported("zip_longest over a matrix")
            a = Seq(a.shape[0], lambda k, a=a: a.cell(((k,),)))
        elif isinstance(a, (list, tuple)):
            a = Seq(len(a), lambda k, a=list(a): sym.Lazy.choose(True, lambda: a[k], lambda: None) if sym.is_pyint(k) else _pick(a, k))
        if not isinstance(a, Seq):
            raise Unsupported(f"zip_longest over {type(a).__name__}")
        its.append(a)
    if not its:
        return Seq(0, lambda k: ())
    n = its[0].length
    for a in its[1:]:
        n = sym.ite(sym.lt(n, a.length), a.length, n)
    n = sym.simp(n) if not sym.is_pyint(n) else n

    def row(k):
        return tuple(sym.Lazy.choose(sym.lt(k, a.length), lambda a=a: a.get(k), lambda: fill) for a in its)
    return Seq(n, row)


def _pick(lst, k):
    r = lst[-1]
    for i in range(len(lst) - 2, -1, -1):
        r = sym.ite(sym.eq(k, i), lst[i], r)
    return r


# ----------------------------------------------------------------------------------
# methods of built-in values
# ----------------------------------------------------------------------------------


def method_call(fr, obj, name, args, kwargs):
    c = cur()
    if isinstance(obj, Obj) and obj.fields.get("__recorder__"):
        # effect recorder (matplotlib Axes): the call is appended to the object's trace
        obj.fields["calls"].append((name, tuple(args), dict(kwargs)))
        return Opaque("artist", name)
    if isinstance(obj, Obj) and obj.cls == "mpl.Figure":
        return figure_method(fr, obj, name, args, kwargs)
    if isinstance(obj, Obj) and obj.cls in ("pandas.DataFrame", "pandas.Index", "pandas.values"):
        from . import pdmodel
        return pdmodel.method(fr, obj, name, args, kwargs)
    if isinstance(obj, Arr):
        return arr_method(fr, obj, name, args, kwargs)
    if isinstance(obj, list):
        return list_method(fr, obj, name, args, kwargs)
    if isinstance(obj, Seq):
        if name == "append":
            obj.append(args[0])
            return None
        if name == "copy":
            return Seq(obj.length, obj._fn)
        if name == "remove":
            # list.remove(x): drops the first occurrence; ValueError when absent
            import ast as _ast
            x = args[0]
            n = obj.length
            old = obj._fn
            found = c.fresh_bool("found")
            pos = c.fresh_int("pos")
            eqat = lambda k: fr.compare(_ast.Eq(), old(k), x)      # noqa: E731
            c.fact(z3.Implies(found, z3.And(pos >= 0, pos < zi(n), sym.zb(eqat(pos)))))
            N.add_qfact(n, lambda m: sym.Implies_(sym.Not_(found), sym.Not_(eqat(m))), "remove.absent")
            N.add_qfact(n, lambda m: sym.Implies_(sym.And_(found, zi(m) < pos), sym.Not_(eqat(m))), "remove.first")
            N.ground(pos)
            if not c.branch(found):
                raise PyRaise("ValueError", "list.remove(x): x not in list")
            obj._fn = lambda j, old=old, pos=pos: sym.Lazy.choose(sym.lt(j, pos), lambda: old(j), lambda: old(sym.add(j, 1)))
            obj.length = sym.sub(n, 1)
            obj.version += 1
            return None
        if name == "pop":
            n = obj.length
            if c.branch(sym.le(n, 0)):
                raise PyRaise("IndexError", "pop from empty list")
            old = obj._fn
            if not args:
                v = old(sym.sub(n, 1))
                obj.length = sym.sub(n, 1)
                obj.version += 1
                return v
            k = args[0]
            if isinstance(k, Arr) and k.ndim == 0:
                k = k.cell(())
            if not is_int(k):
                raise PyRaise("TypeError", "list index must be an integer")
            if c.branch(sym.Or_(sym.lt(k, sym.neg(n)), sym.le(n, k))):
                raise PyRaise("IndexError", "pop index out of range")
            if not c.is_valid(zi(k) >= 0):
                k = sym.ite(zi(k) < 0, sym.add(k, n), k)
            v = old(k)
            obj._fn = lambda j, old=old, k=k: sym.Lazy.choose(sym.lt(j, k), lambda: old(j), lambda: old(sym.add(j, 1)))
            obj.length = sym.sub(n, 1)
            obj.version += 1
            return v
        raise Unsupported(f"method {name} on a symbolic list")
    if isinstance(obj, dict):
        return dict_method(fr, obj, name, args, kwargs)
    if isinstance(obj, tuple):
        if name == "index":
            return list(obj).index(args[0])
        raise Unsupported(f"tuple.{name}")
    if isinstance(obj, str):
        if name in ("upper", "lower", "strip"):
            return getattr(obj, name)()
        if name == "format":
            from .interp import FmtStr
            return FmtStr(obj, list(args))
        if name == "join":
            if isinstance(args[0], (list, tuple)) and all(isinstance(x, str) for x in args[0]):
                return obj.join(args[0])
            from .interp import FmtStr
            return FmtStr(obj, [args[0]])
        if name in ("startswith", "endswith"):
            return getattr(obj, name)(args[0])
        raise Unsupported(f"str.{name}")
    if isinstance(obj, (F, C)) or is_int(obj) or sym.is_bool(obj):
        if name == "astype":
            return sym.cast(obj, _kind_arg(args[0]))
        if name == "conj":
            return sym.conj_(obj)
        if name == "any" or name == "all":
            return sym.truthy_scalar(obj)
        if name == "reshape":
            return N.reshape(N.asarray(obj), *args)
        if name == "item":
            return obj
        raise Unsupported(f"scalar method {name}")
    if isinstance(obj, N.MaskSel):
        if name == "any":
            return N.any_(N.logical_and(obj.mask, N.elementwise(sym.truthy_scalar, obj.arr, kind="bool")))
        raise Unsupported(f"method {name} on a boolean-mask selection")
    if isinstance(obj, Opaque):
        if obj.tag == "logger":
            return None
        hook = fr.I.models.get(f"opaque:{obj.tag}.{name}")
        if hook is not None:
            return hook(fr, obj, args, kwargs)
        raise Unsupported(f"method {name} on opaque {obj.tag}")
    raise Unsupported(f"method {name} on {type(obj).__name__}")


_ARR_METHOD_KW = {"reshape": {"order"}, "flatten": {"order"}, "ravel": {"order"}, "sum": {"axis"}, "mean": {"axis"}}
_ARR_METHOD_NOARGS = {"any", "all", "max", "min", "transpose", "conj", "conjugate", "copy", "tolist"}      # modelled without arguments only


def arr_method(fr, a, name, args, kwargs):
    # a keyword the model does not interpret must not be dropped silently (reshape(order="F") once was): refuse it
    extra = set(kwargs) - _ARR_METHOD_KW.get(name, set())
    if extra:
        raise Unsupported(f"ndarray.{name} with keyword(s) {sorted(extra)} outside the model")
    if name == "transpose" and args:
        axes = tuple(args[0]) if len(args) == 1 and isinstance(args[0], (tuple, list)) else tuple(args)
        return N.transpose_axes(a, axes)
    if name in _ARR_METHOD_NOARGS and args:
        raise Unsupported(f"ndarray.{name} with arguments outside the model")
    if name == "reshape":
        return N.reshape(a, *args, order=kwargs.get("order", "C"))
    if name in ("flatten", "ravel"):
        order = kwargs.get("order", args[0] if args else "C")
        return N.flatten(a, order)
    if name == "astype":
        return N.astype(a, _kind_arg(args[0]))
    if name == "conj" or name == "conjugate":
        return N.conj(a)
    if name == "copy":
        return Arr(a.axes, a.snapshot_fn(), a.kind, term=a.term)
    if name == "any":
        return N.any_(a)
    if name == "all":
        return N.all_(a)
    if name == "sum":
        return N.sum_(a, kwargs.get("axis", args[0] if args else None))
    if name == "mean":
        return N.mean(a, kwargs.get("axis", args[0] if args else None))
    if name == "max":
        return N.max_(a)
    if name == "min":
        return N.min_(a)
    if name == "dot":
        return N.dot(a, args[0])
    if name == "transpose":
        return N.transpose(a)
    if name == "tolist":
        if a.ndim == 1:
            n = a.extent(0)
            if is_pyint(n):
                return [a.get(k) for k in range(n)]
            return Seq(n, lambda k, a=a, f=a.snapshot_fn(), ax=a.axes[0]: f((sym.split_index(k, ax),)))
        if a.ndim == 2:
            n = a.extent(0)
            rows = lambda k: method_call(fr, N.getitem(a, k), "tolist", [], {})   # noqa: E731
            if is_pyint(n):
                return [rows(k) for k in range(n)]
            return Seq(n, rows)
        raise Unsupported("tolist of rank > 2")
    if name == "item":
        return a.cell(tuple((0,) * len(ax) for ax in a.axes))
    if name == "fill":
        if a.meta.get("view_of") is not None:
            raise Unsupported("fill() of a view of another array: the write-through to the base is not modelled")
        v = sym.cast(args[0], a.kind)
        a.set_fn(lambda idx: v)
        return None
    raise Unsupported(f"ndarray.{name}")


def list_method(fr, lst, name, args, kwargs):
    import ast as _ast
    c = cur()
    if name == "append":
        lst.append(args[0])
        return None
    if name == "extend":
        x = args[0]
        if not isinstance(x, (list, tuple)):
            raise Unsupported("extend with a symbolic iterable")
        lst.extend(x)
        return None
    if name == "pop":
        if not lst:
            raise PyRaise("IndexError", "pop from empty list")
        if not args:
            return lst.pop()
        k = args[0]
        if isinstance(k, Arr) and k.ndim == 0:
            k = k.cell(())
        if is_pyint(k):
            if k >= len(lst) or k < -len(lst):
                raise PyRaise("IndexError", "pop index out of range")
            return lst.pop(k)
        if not is_int(k):
            raise PyRaise("TypeError", "list index must be an integer")
        n = len(lst)
        if c.branch(sym.Or_(zi(k) < -n, zi(k) >= n)):
            raise PyRaise("IndexError", "pop index out of range")
        for j in range(n):
            if c.branch(sym.Or_(zi(k) == j, zi(k) == j - n)):
                return lst.pop(j)
        raise Unsupported("unreachable pop")
    if name == "remove":
        x = args[0]
        for j, y in enumerate(lst):
            if c.branch(fr.compare(_ast.Eq(), y, x)):
                lst.pop(j)
                return None
        raise PyRaise("ValueError", "list.remove(x): x not in list")
    if name == "index":
        x = args[0]
        for j, y in enumerate(lst):
            if c.branch(fr.compare(_ast.Eq(), y, x)):
                return j
        raise PyRaise("ValueError", "x not in list")
    if name == "copy":
        return list(lst)
    if name == "insert":
        if is_pyint(args[0]):
            lst.insert(args[0], args[1])
            return None
        raise Unsupported("insert at a symbolic index")
    if name == "clear":
        lst.clear()
        return None
    if name == "count":
        return sum(1 for y in lst if y is args[0])
    raise Unsupported(f"list.{name}")


def dict_method(fr, d, name, args, kwargs):
    if name == "get":
        k = args[0]
        if not isinstance(k, (str, int)):
            raise Unsupported("dict.get with a symbolic key")
        return d.get(k, args[1] if len(args) > 1 else kwargs.get("default"))
    if name == "items":
        return [(k, v) for k, v in d.items()]
    if name == "keys":
        return list(d.keys())
    if name == "values":
        return list(d.values())
    if name == "pop":
        k = args[0]
        if k in d:
            return d.pop(k)
        if len(args) > 1:
            return args[1]
        raise PyRaise("KeyError", str(k))
    if name == "setdefault":
        k = args[0]
        if k not in d:
            d[k] = args[1] if len(args) > 1 else None
        return d[k]
    if name == "update":
        d.update(args[0] if args else {})
        d.update(kwargs)
        return None
    if name == "copy":
        return dict(d)
    raise Unsupported(f"dict.{name}")


# ----------------------------------------------------------------------------------
# linear algebra kernels (opaque, matrix-term level)
# ----------------------------------------------------------------------------------


@model("numpy.linalg.qr")
def _qr(fr, args, kwargs):
    from . import matmodel
    return matmodel.qr(N.asarray(args[0]), kwargs.get("mode", args[1] if len(args) > 1 else "reduced"))


@model("numpy.linalg.svd")
def _svd(fr, args, kwargs):
    from . import matmodel
    extra = set(kwargs) - {"full_matrices"}
    if extra:
        raise Unsupported(f"np.linalg.svd with keyword(s) {sorted(extra)} (not in the svd contract)")
    return matmodel.svd(N.asarray(args[0]), kwargs.get("full_matrices", args[1] if len(args) > 1 else True))


@model("numpy.linalg.eig")
def _eig(fr, args, kwargs):
    from . import matmodel
    if kwargs:
        raise Unsupported(f"np.linalg.eig with keyword(s) {sorted(kwargs)}")
    return matmodel.eig(N.asarray(args[0]))


@model("scipy.linalg.eig")
def _sp_eig(fr, args, kwargs):
    from . import matmodel
    extra = set(kwargs) - {"left", "right"}
    if extra or len(args) > 1 or kwargs.get("right", True) is not True:
        raise Unsupported(f"scipy.linalg.eig with arguments outside the kernel's contract ({sorted(extra)})")
    left = kwargs.get("left", False)
    if left is not True and left is not False:
        raise Unsupported("scipy.linalg.eig(left=<symbolic>)")
    return matmodel.eig(N.asarray(args[0]), left=left)


@model("numpy.linalg.inv")
def _inv(fr, args, kwargs):
    from . import matmodel
    return matmodel.inv(N.asarray(args[0]))


@model("numpy.linalg.pinv")
def _pinv(fr, args, kwargs):
    from . import matmodel
    return matmodel.pinv(N.asarray(args[0]))


@model("numpy.linalg.solve")
def _solve(fr, args, kwargs):
    from . import matmodel
    return matmodel.solve(N.asarray(args[0]), N.asarray(args[1]))


@model("numpy.argsort")
def _argsort(fr, args, kwargs):
    return N.argsort(args[0])


# ----------------------------------------------------------------------------------
# scipy.signal preprocessing routines: uninterpreted pure functions of (array, parameters)
# ----------------------------------------------------------------------------------

def _enc(v):
    """parameter -> z3 term (Int / Real / Bool / Str) for use as an argument of an uninterpreted routine"""
    from .interp import FmtStr
    if v is None:
        return sym.str_term("<None>")
    if isinstance(v, bool):
        return z3.BoolVal(v)
    if isinstance(v, z3.BoolRef):
        return v
    if isinstance(v, str):
        return sym.str_term(v)
    if is_int(v):
        return z3.ToReal(zi(v))
    if isinstance(v, F):
        return v.v
    if isinstance(v, (tuple, list)):
        # short parameter tuples (e.g. band edges): encode component-wise into one term
        f = sym.ufun(f"tuple{len(v)}", *([z3.RealSort()] * len(v)), z3.RealSort())
        return f(*[_enc(x) if isinstance(_enc(x), z3.ArithRef) else z3.RealVal(0) for x in v])
    if isinstance(v, Opaque):
        return sym.str_term(f"<opaque:{v.tag}>")
    raise Unsupported(f"cannot encode parameter of type {type(v).__name__}")


def _routine(name, x, params, shape):
    from . import matmodel as MM
    t = MM.termify(x)
    encs = [_enc(p) for p in params]
    f = sym.ufun("scipy." + name, MM.Mat, *[e.sort() for e in encs], MM.Mat)
    return MM.mat_arr(f(t, *encs), shape, x.kind)


def _norm_axis(axis, nd):
    if not is_pyint(axis):
        raise Unsupported("symbolic axis")
    if axis < -nd or axis >= nd:
        raise PyRaise("ValueError", "axis out of bounds")
    return axis % nd


def _bind(fname, args, kwargs, names, defaults):
    vals = dict(defaults)
    if len(args) > len(names):
        raise PyRaise("TypeError", f"{fname}() takes at most {len(names)} positional arguments")
    for n, a in zip(names, args):
        vals[n] = a
    for k, v in kwargs.items():
        if k not in names:
            raise PyRaise("TypeError", f"{fname}() got an unexpected keyword argument '{k}'")
        if k in names[:len(args)]:
            raise PyRaise("TypeError", f"{fname}() got multiple values for argument '{k}'")
        vals[k] = v
    for n in names:
        if n not in vals:
            raise PyRaise("TypeError", f"{fname}() missing required argument '{n}'")
    return vals


@model("scipy.signal.decimate")
def _decimate(fr, args, kwargs):
    v = _bind("decimate", args, kwargs, ["x", "q", "n", "ftype", "axis", "zero_phase"],
              {"n": None, "ftype": "iir", "axis": -1, "zero_phase": True})
    x = N.asarray(v["x"])
    ax = _norm_axis(v["axis"], x.ndim)
    q = v["q"]
    if not is_int(q):
        raise PyRaise("TypeError", "q must be an integer")
    c = cur()
    if c.branch(sym.lt(q, 1)):
        raise PyRaise("ValueError", "decimation factor must be >= 1")
    shape = list(x.shape)
    shape[ax] = sym.floordiv(sym.add(shape[ax], sym.sub(q, 1)), q) if not (is_pyint(q) and q == 1) else shape[ax]
    # scipy: n defaults to 8 for 'iir' and to 20 * q for 'fir' - one canonical order either way
    n_ = v["n"]
    if n_ is None and v["ftype"] == "iir":
        n_ = 8
    elif n_ is None and v["ftype"] == "fir":
        n_ = sym.mul(20, q)
    return _routine("decimate", x, [q, n_, v["ftype"], ax, v["zero_phase"]], tuple(shape))


@model("scipy.signal.detrend")
def _detrend(fr, args, kwargs):
    v = _bind("detrend", args, kwargs, ["data", "axis", "type", "bp", "overwrite_data"],
              {"axis": -1, "type": "linear", "bp": 0, "overwrite_data": False})
    x = N.asarray(v["data"])
    ax = _norm_axis(v["axis"], x.ndim)
    if v["overwrite_data"] is not False:
        raise Unsupported("detrend(overwrite_data=True) mutates its argument")
    return _routine("detrend", x, [ax, v["type"], v["bp"]], tuple(x.shape))


@model("scipy.signal.butter")
def _butter(fr, args, kwargs):
    v = _bind("butter", args, kwargs, ["N", "Wn", "btype", "analog", "output", "fs"],
              {"btype": "low", "analog": False, "output": "ba", "fs": None})
    return Opaque("sos", v)


@model("scipy.signal.sosfiltfilt")
def _sosfiltfilt(fr, args, kwargs):
    v = _bind("sosfiltfilt", args, kwargs, ["sos", "x", "axis", "padtype", "padlen"],
              {"axis": -1, "padtype": "odd", "padlen": None})
    sos = v["sos"]
    if not (isinstance(sos, Opaque) and sos.tag == "sos"):
        raise Unsupported("sosfiltfilt with a filter that does not come from butter()")
    b = sos.payload
    if b["output"] != "sos":
        raise PyRaise("ValueError", "sos array must be 2D")
    x = N.asarray(v["x"])
    ax = _norm_axis(v["axis"], x.ndim)
    return _routine("butter_sosfiltfilt", x, [b["N"], b["Wn"], b["btype"], b["analog"], b["fs"], ax, v["padtype"], v["padlen"]],
                    tuple(x.shape))


# ----------------------------------------------------------------------------------
# spectral estimation kernels (uninterpreted; DESIGN A6)
# ----------------------------------------------------------------------------------

def _lead_broadcast(x, y):
    """broadcast the leading axes (all but the last) of two arrays; returns (axes, reader_x, reader_y)"""
    xa = Arr(x.axes[:-1], lambda idx: 0, "int")
    ya = Arr(y.axes[:-1], lambda idx: 0, "int")
    axes = N.broadcast_axes([xa, ya])
    nd = len(axes)

    def lead_idx(a, idx):
        o = []
        k0 = nd - (a.ndim - 1)
        for k in range(a.ndim - 1):
            ax = a.axes[k]
            o.append((0,) if N._is_one(ax) else idx[k0 + k])
        return tuple(o)
    return axes, lambda idx: lead_idx(x, idx), lambda idx: lead_idx(y, idx)


@model("scipy.signal.csd")
def _csd(fr, args, kwargs):
    """Welch cross spectral density of conj(X) Y along the last axis, broadcasting over the leading axes;
    one-sided grid k*fs/nfft, k = 0..nfft//2.  Values are an uninterpreted function of the two series and of every
    estimation parameter."""
    v = _bind("csd", args, kwargs, ["x", "y", "fs", "window", "nperseg", "noverlap", "nfft", "detrend", "return_onesided",
                                    "scaling", "axis", "average"],
              {"fs": sym.toF(1.0), "window": "hann", "nperseg": None, "noverlap": None, "nfft": None, "detrend": "constant",
               "return_onesided": True, "scaling": "density", "axis": -1, "average": "mean"})
    x, y = N.asarray(v["x"]), N.asarray(v["y"])
    if v["axis"] != -1 or v["return_onesided"] is not True:
        raise Unsupported("csd with axis/return_onesided other than the defaults")
    nper = v["nperseg"] if v["nperseg"] is not None else 256
    nfft = v["nfft"] if v["nfft"] is not None else nper
    if not is_int(nfft):
        nfft = sym.to_int(nfft)
    nf = sym.add(sym.floordiv(nfft, 2), 1)
    fs = sym.toF(v["fs"])
    axes, rx, ry = _lead_broadcast(x, y)
    # scipy: noverlap=None means nperseg // 2; any number is truncated with int() - one canonical integer either way
    nov = v["noverlap"]
    nov = sym.floordiv(nper, 2) if nov is None else (nov if is_int(nov) else sym.to_int(nov))
    encs = [_enc(fs), _enc(v["window"]), _enc(nper), _enc(nov), _enc(nfft), _enc(v["detrend"]),
            _enc(v["scaling"]), _enc(v["average"])]
    sorts = [N.SerSort, N.SerSort] + [e.sort() for e in encs] + [z3.IntSort()]
    f_re = sym.ufun("scipy.csd.re", *sorts, z3.RealSort())
    f_im = sym.ufun("scipy.csd.im", *sorts, z3.RealSort())

    def cell(idx):
        sx = N.last_axis_series(x, rx(idx[:-1]))
        sy = N.last_axis_series(y, ry(idx[:-1]))
        k = zi(idx[-1][0])
        return C(False, f_re(sx, sy, *encs, k), f_im(sx, sy, *encs, k))
    P = Arr(tuple(axes) + ((nf,),), cell, "complex")
    c = cur()
    c.numpy_mode += 1
    try:
        step = sym.div(fs, nfft)
    finally:
        c.numpy_mode -= 1
    freq = Arr(((nf,),), lambda idx: sym.mul(idx[0][0], step), "float")
    return (freq, P)


def _fft_like(name, out_len, kind):
    def m(fr, args, kwargs):
        if kwargs:
            raise Unsupported(f"{name} with keyword arguments")
        a = N.asarray(args[0])
        n_in = a.extent(a.ndim - 1)
        n_out = out_len(n_in)
        f_re = sym.ufun(f"numpy.fft.{name}.re", N.SerSort, z3.IntSort(), z3.RealSort())
        f_im = sym.ufun(f"numpy.fft.{name}.im", N.SerSort, z3.IntSort(), z3.RealSort())

        def cell(idx):
            s = N.last_axis_series(a, idx[:-1])
            k = zi(idx[-1][0])
            if kind == "float":
                return F(False, f_re(s, k))
            return C(False, f_re(s, k), f_im(s, k))
        return Arr(tuple(a.axes[:-1]) + ((n_out,),), cell, kind)
    return m


MODELS["numpy.fft.irfft"] = _fft_like("irfft", lambda n: sym.mul(2, sym.sub(n, 1)), "float")
MODELS["numpy.fft.rfft"] = _fft_like("rfft", lambda n: sym.add(sym.floordiv(n, 2), 1), "complex")


@model("scipy.signal.windows.exponential")
def _exp_window(fr, args, kwargs):
    v = _bind("exponential", args, kwargs, ["M", "center", "tau", "sym"], {"center": None, "tau": sym.toF(1.0), "sym": True})
    M = v["M"]
    encs = [_enc(v["center"]), _enc(v["tau"]), _enc(v["sym"]), _enc(M)]
    f = sym.ufun("scipy.windows.exponential", *[e.sort() for e in encs], z3.IntSort(), z3.RealSort())
    return Arr(((M,),), lambda idx: F(False, f(*encs, zi(idx[0][0]))), "float")


def _recip(x_int):
    """1/x for a positive integer expression as a named real with its defining fact (keeps formulas polynomial)"""
    c = cur()
    key = ("recip", zi(x_int).sexpr())
    if key not in c.memo:
        r = c.fresh_real("recip")
        c.fact(z3.Implies(zi(x_int) > 0, z3.And(r * z3.ToReal(zi(x_int)) == 1, r > 0)), heavy=True)
        c.fact(z3.Implies(zi(x_int) > 0, r > 0))
        c.memo[key] = r
    return c.memo[key]


@model("numpy.cov")
def _np_cov(fr, args, kwargs):
    """np.cov(x, y) of two 1-D variables: the 2x2 sample covariance matrix (ddof = 1):
    c_xy = (sum x y - (sum x)(sum y)/n) / (n - 1)"""
    if kwargs or len(args) != 2:
        raise Unsupported("np.cov other than cov(x, y)")
    x, y = N.asarray(args[0]), N.asarray(args[1])
    if x.ndim != 1 or y.ndim != 1:
        raise Unsupported("np.cov of non-vectors")
    n = x.extent(0)
    c = cur()
    c.numpy_mode += 1
    try:
        rn, rd = _recip(n), _recip(sym.sub(n, 1))
        sx, sy = sym.toF(N.sum_(x)), sym.toF(N.sum_(y))
        sxx, syy, sxy = sym.toF(N.sum_(N.multiply(x, x))), sym.toF(N.sum_(N.multiply(y, y))), sym.toF(N.sum_(N.multiply(x, y)))
        bad = sym.Or_(sx.nan, sy.nan, sxx.nan, syy.nan, sxy.nan, sym.le(n, 1))
        cxx = F(bad, rd * (sxx.v - rn * sx.v * sx.v))
        cyy = F(bad, rd * (syy.v - rn * sy.v * sy.v))
        cxy = F(bad, rd * (sxy.v - rn * sx.v * sy.v))
    finally:
        c.numpy_mode -= 1
    return N.asarray([[cxx, cxy], [cxy, cyy]])


@model("numpy.linalg.eigvals")
def _eigvals(fr, args, kwargs):
    """eigenvalues of a real symmetric 2x2 matrix: two reals with the matrix's trace and determinant
    (their order is not specified)"""
    a = N.asarray(args[0])
    if a.ndim != 2 or not (is_pyint(a.shape[0]) and a.shape[0] == 2 and is_pyint(a.shape[1]) and a.shape[1] == 2):
        raise Unsupported("eigvals other than 2x2")
    c = cur()
    a00, a01, a10, a11 = [sym.toF(a.get(i, j)) for i in (0, 1) for j in (0, 1)]
    if not c.is_valid_full(sym.zb(sym.same(a01, a10))):
        raise Unsupported("eigvals of a matrix not known to be symmetric")
    l0, l1 = c.fresh_real("eig"), c.fresh_real("eig")
    nan = sym.Or_(a00.nan, a01.nan, a11.nan)
    c.fact(z3.Implies(z3.Not(sym.zb(nan)), z3.And(l0 + l1 == a00.v + a11.v, l0 * l1 == a00.v * a11.v - a01.v * a10.v)), heavy=True)
    # consequences of trace and determinant, stated so that users of the spread and the sum need no nonlinear search:
    # (l0 - l1)^2 = (l0 + l1)^2 - 4 l0 l1 = (a - d)^2 + 4 b c  (an algebraic identity, checked once as a stand-alone lemma)
    from . import lemmas as L
    A_, D_, B_, C_, P_, Q_ = [z3.Real(n) for n in ("ev_a", "ev_d", "ev_b", "ev_c", "ev_p", "ev_q")]
    inst = L.universal("p + q = a + d, p q = a d - b c  =>  (p - q)^2 = (a - d)^2 + 4 b c", [A_, D_, B_, C_, P_, Q_],
                       z3.Implies(z3.And(P_ + Q_ == A_ + D_, P_ * Q_ == A_ * D_ - B_ * C_),
                                  (P_ - Q_) * (P_ - Q_) == (A_ - D_) * (A_ - D_) + 4 * B_ * C_))
    sa, sd, sb, sc_ = [c.fresh_real(n) for n in ("cov_a", "cov_d", "cov_b", "cov_c")]
    c.fact(z3.And(sa == a00.v, sd == a11.v, sb == a01.v, sc_ == a10.v), heavy=True)
    c.fact(z3.Implies(z3.Not(sym.zb(nan)), z3.And(l0 + l1 == sa + sd, (l0 - l1) * (l0 - l1) == (sa - sd) * (sa - sd) + 4 * sb * sc_)), heavy=True)
    return N.asarray([F(nan, l0), F(nan, l1)])


# ----------------------------------------------------------------------------------
# matplotlib: figures are opaque, Axes are effect recorders (DESIGN A10)
# ----------------------------------------------------------------------------------

def new_axes():
    c = cur()
    ax = Obj("mpl.Axes", {"__recorder__": True, "calls": Seq(0, lambda k: None)})
    c.memo.setdefault("ghost:axes", []).append(ax)
    return ax


@model("matplotlib.pyplot.subplots")
def _subplots(fr, args, kwargs):
    if (kwargs.get("nrows", args[0] if args else 1), kwargs.get("ncols", args[1] if len(args) > 1 else 1)) != (1, 1):
        raise Unsupported("plt.subplots with several panels")
    ax = new_axes()
    cur().memo["ghost:pyplot_current"] = ax      # a freshly created axes is pyplot's current axes
    return (Opaque("figure"), ax)


@model("matplotlib.pyplot.figure")
def _plt_figure(fr, args, kwargs):
    """plt.figure(): a new, empty figure.  plt.figure(num) / plt.figure(num=...) with a label or number: the figure of that name IF ONE IS
    OPEN (pyplot's registry outlives the call), otherwise a new one - so its axes may already carry the artists of an earlier call unless the
    function clears the figure first."""
    num = kwargs.get("num", args[0] if args else None)
    fig = Obj("mpl.Figure", {"maybe_existing": num is not None, "ax": None})
    cur().memo["ghost:pyplot_current_fig"] = fig
    cur().memo["ghost:pyplot_current"] = None
    return fig


def figure_method(fr, fig, name, args, kwargs):
    c = cur()
    if name in ("clf", "clear"):
        fig.fields["maybe_existing"] = False
        fig.fields["ax"] = None
        return None
    if name in ("gca", "add_subplot", "subplots", "add_axes"):
        if name == "subplots" and (kwargs.get("nrows", args[0] if args else 1), kwargs.get("ncols", args[1] if len(args) > 1 else 1)) != (1, 1):
            raise Unsupported("Figure.subplots with several panels")
        if name == "add_subplot" and args and tuple(args) not in ((111,), (1, 1, 1)):
            raise Unsupported("Figure.add_subplot with several panels")
        if name == "gca" and fig.fields["ax"] is not None:
            return fig.fields["ax"]
        ax = new_axes()
        # axes of (or on top of) a figure that may have been open before the call: what an earlier call drew is still there
        ax.fields["prior_artists"] = bool(fig.fields["maybe_existing"])
        fig.fields["ax"] = ax
        c.memo["ghost:pyplot_current"] = ax
        return ax
    if name in ("tight_layout", "suptitle", "set_size_inches", "set_tight_layout", "savefig", "show", "set_dpi", "set_figwidth", "set_figheight",
                "subplots_adjust", "autofmt_xdate", "canvas"):
        return None
    raise Unsupported(f"Figure.{name} (not in the figure model)")


@model("matplotlib.pyplot.gca")
def _plt_gca(fr, args, kwargs):
    c = cur()
    ax = c.memo.get("ghost:pyplot_current")
    if ax is not None:
        return ax
    fig = c.memo.get("ghost:pyplot_current_fig")
    if fig is not None:
        return figure_method(fr, fig, "gca", (), {})
    # pyplot's current axes when the function has made none: whatever the session left current, with whatever it shows
    ax = new_axes()
    ax.fields["prior_artists"] = True
    c.memo["ghost:pyplot_current"] = ax
    return ax


def _pyplot_draw(name):
    """pyplot's state-machine functions act on pyplot's CURRENT axes: the one plt.subplots() made last in this function, or -
    when the caller supplied the axes - some axes the function knows nothing about (a separate recorder, never the supplied one)"""
    def m(fr, args, kwargs):
        c = cur()
        ax = c.memo.get("ghost:pyplot_current")
        if ax is None:
            ax = Obj("mpl.Axes", {"__recorder__": True, "calls": Seq(0, lambda k: None)})
            c.memo["ghost:pyplot_current"] = ax
            c.memo["ghost:pyplot_stray"] = ax
        ax.fields["calls"].append((name, tuple(args), dict(kwargs)))
        return Opaque("artist", name)
    return m


for _n in ("plot", "scatter", "errorbar", "semilogy", "loglog", "step", "fill_between", "bar", "stem", "vlines", "hlines", "axvline", "axhline",
           "xlabel", "ylabel", "title", "legend", "xlim", "ylim", "grid", "text", "annotate"):
    MODELS["matplotlib.pyplot." + _n] = _pyplot_draw({"xlabel": "set_xlabel", "ylabel": "set_ylabel", "title": "set_title", "xlim": "set_xlim", "ylim": "set_ylim"}.get(_n, _n))


@model("matplotlib.pyplot.tight_layout", "matplotlib.pyplot.show", "matplotlib.pyplot.close")
def _plt_noop(fr, args, kwargs):
    return None


@model("numpy.searchsorted")
def _searchsorted(fr, args, kwargs):
    return N.searchsorted(args[0], args[1], kwargs.get("side", args[2] if len(args) > 2 else "left"))


@model("pandas.DataFrame")
def _pd_dataframe(fr, args, kwargs):
    from . import pdmodel
    return pdmodel.construct(fr, args, kwargs)


def _install_pandas():
    from . import pdmodel
    MODELS["getattr:pandas.DataFrame"] = pdmodel.getattr_df
    MODELS["getattr:pandas.values"] = pdmodel.getattr_values
    MODELS["getattr:pandas.Index"] = pdmodel.getattr_index
    MODELS["getitem:pandas.DataFrame"] = pdmodel.getitem_df
    MODELS["setitem:pandas.DataFrame"] = pdmodel.setitem_df


_install_pandas()


def _static_real(x):
    """np.isrealobj(x) is a statement about the dtype (not the values): decided from the static kind of the value"""
    if isinstance(x, Arr):
        kind = x.kind
    elif isinstance(x, (C, complex)):
        kind = "complex"
    elif isinstance(x, F) or is_int(x) or isinstance(x, (bool, int, float)):
        kind = "float"
    else:
        raise Unsupported("isrealobj / iscomplexobj of a value whose dtype is not known statically")
    return kind != "complex"


@model("numpy.isrealobj")
def m_isrealobj(fr, args, kwargs):
    return _static_real(args[0])


@model("numpy.iscomplexobj")
def m_iscomplexobj(fr, args, kwargs):
    return not _static_real(args[0])
