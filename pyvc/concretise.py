"""Counter-model -> concrete inputs (DESIGN.md 2.8)."""
from __future__ import annotations

import itertools

import z3

from . import sym
from .core import Ctx, Engine
from .sym import Arr, C, F, Obj, Seq, zi


def small_model(o, bound=3, timeout_ms=10000):
    """re-solve the refuted obligation with every symbolic extent (Int constants whose name contains
    '.n' or ends with a dimension-like name) bounded; falls back to the original model"""
    s = z3.Solver()
    s.set("timeout", timeout_ms)
    for f in o.pc:
        s.add(f)
    s.add(z3.Not(o.goal))
    consts = set()

    def walk(e, seen=set()):
        st = [e]
        while st:
            x = st.pop()
            if x.get_id() in seen:
                continue
            seen.add(x.get_id())
            if z3.is_const(x) and x.decl().kind() == z3.Z3_OP_UNINTERPRETED and x.sort() == z3.IntSort():
                consts.add(x)
            st.extend(x.children())
    for f in o.pc:
        walk(f)
    walk(o.goal)
    dims = [x for x in consts if (".n" in str(x) or str(x).split("!")[0] in
                                  ("n0", "n1", "L", "n_rows", "n_cols", "Nch", "len_phi", "Ndat", "n", "m", "nf", "N"))]
    for b in (bound, 2 * bound):
        s.push()
        for d in dims:
            s.add(d <= b)
        if s.check() == z3.sat:
            m = s.model()
            s.pop()
            return m
        s.pop()
    return o.model


def ev_int(model, x):
    if isinstance(x, int):
        return x
    v = model.eval(zi(x), model_completion=True)
    return v.as_long()


def ev_bool(model, x):
    if isinstance(x, bool):
        return x
    return z3.is_true(model.eval(x, model_completion=True))


def ev_real(model, x):
    v = model.eval(x, model_completion=True)
    if z3.is_rational_value(v):
        return float(v.numerator_as_long()) / float(v.denominator_as_long())
    if z3.is_algebraic_value(v):
        return float(v.approx(12).as_decimal(12).rstrip("?"))
    try:
        return float(str(v))
    except Exception:
        return 0.0


def ev_scalar(model, v):
    """-> python float / int / bool / None (non-finite) / [re, im]"""
    if v is None or isinstance(v, (str, bool, int, float)):
        return v
    if isinstance(v, z3.BoolRef):
        return ev_bool(model, v)
    if isinstance(v, z3.ArithRef):
        return ev_int(model, v) if v.is_int() else ev_real(model, v)
    if isinstance(v, F):
        if ev_bool(model, v.nan):
            return None
        return ev_real(model, v.v)
    if isinstance(v, C):
        if ev_bool(model, v.nan):
            return None
        return [ev_real(model, v.re), ev_real(model, v.im)]
    raise ValueError(type(v))


def ev_array(model, a: Arr, max_cells=4000):
    shape = [ev_int(model, n) for n in a.shape]
    tot = 1
    for n in shape:
        tot *= max(n, 0)
    if tot > max_cells:
        raise ValueError(f"array too large to concretise: {shape}")
    cells = []
    for idx in itertools.product(*[range(n) for n in shape]):
        sidx = tuple(sym.split_index(i, ax) for i, ax in zip(idx, a.axes))
        cells.append(ev_scalar(model, a.cell(sidx)))
    return {"shape": shape, "kind": a.kind, "cells": cells}


def ev_value(model, v):
    if isinstance(v, Arr):
        return ev_array(model, v)
    if isinstance(v, (list, tuple)):
        return [ev_value(model, x) for x in v]
    if isinstance(v, dict):
        return {k: ev_value(model, x) for k, x in v.items()}
    if isinstance(v, Seq):
        n = ev_int(model, v.length)
        return [ev_value(model, v.get(k)) for k in range(n)]
    if isinstance(v, Obj):
        return {"__obj__": v.cls, "fields": {k: ev_value(model, x) for k, x in v.fields.items()
                                             if not isinstance(x, (sym.Opaque,))}}
    if isinstance(v, sym.Opaque):
        return {"__opaque__": v.tag}
    return ev_scalar(model, v)


def rebuild_setup(contract, o):
    """re-run contract.setup along the obligation's path prefix so that the parameter symbols exist"""
    prefix = [ch == "T" for ch in o.path]
    eng = Engine()
    ctx = Ctx(eng, prefix)
    ctx.__enter__()
    try:
        env = contract.setup(ctx)
    finally:
        pass
    return ctx, env
