"""Matrix-level terms for the dense linear-algebra kernels (DESIGN.md 2.2, 4).

Opaque kernels (svd, qr, eig, inv, pinv, solve, matrix products of kernel results) are uninterpreted
functions over a sort `Mat`; slices carry their integer bounds as arguments so that z3 decides the
equality of two matrix expressions by congruence + integer arithmetic.  An array that is not itself a
kernel result is turned into a term by `termify`, which re-uses the constant of an earlier array that
is provably equal cell by cell (extensionality lemma, checked, recorded as a `lemma` obligation)."""
from __future__ import annotations

import z3

from . import sym
from .core import PyRaise, Unsupported, cur
from .sym import And_, Arr, C, F, is_pyint, simp, zi, zb

Mat = z3.DeclareSort("Mat")
I = z3.IntSort()
R = z3.RealSort()
B = z3.BoolSort()


def fn(name, *sorts):
    return sym.ufun("mat." + name, *sorts)


def el(term, i, j, kind="float"):
    if kind == "complex":
        return C(fn("el_nan", Mat, I, I, B)(term, zi(i), zi(j)), fn("el_re", Mat, I, I, R)(term, zi(i), zi(j)),
                 fn("el_im", Mat, I, I, R)(term, zi(i), zi(j)))
    return F(fn("el_nan", Mat, I, I, B)(term, zi(i), zi(j)), fn("el_re", Mat, I, I, R)(term, zi(i), zi(j)))


def mat_arr(term, shape, kind="float"):
    """2-D (or 1-D) array standing for a matrix term"""
    if len(shape) == 1:
        return Arr(((shape[0],),), lambda idx: el(term, idx[0][0], 0, kind), kind, term=term)
    return Arr(((shape[0],), (shape[1],)), lambda idx: el(term, idx[0][0], idx[1][0], kind), kind, term=term)


def termify(a: Arr):
    """matrix term of an arbitrary 1-D/2-D array"""
    if a.term is not None:
        return a.term
    c = cur()
    if a.ndim not in (1, 2):
        raise Unsupported("matrix term of an array of rank > 2")
    known = c.memo.setdefault("termified", [])
    depth = c.memo.get("termify_depth", 0)
    c.memo["termify_depth"] = depth + 1
    try:
        return _termify(a, c, known, depth)
    finally:
        c.memo["termify_depth"] = depth


def _termify(a, c, known, depth):
    # an array whose generic cell is syntactically the one of an array termified before (same template, same parameters) gets
    # the term decided then - whether that was its own template term or the term of a provably equal known array
    sig = _template_term(a, signature_only=True)
    cache = c.memo.setdefault("termify-cache", {})
    if sig is not None and sig in cache:
        a.term = cache[sig]
        return a.term
    # nested call (a cell of a known array itself needs a term): no extensionality search, or it would not terminate
    for (b, t) in (known if depth == 0 else []):
        if b.ndim != a.ndim:
            continue
        sh = And_(*[sym.eq(x, y) for x, y in zip(a.shape, b.shape)])
        if sh is False:
            continue
        idx, rng = a.skolem("e", assume=False)
        bi = tuple(tt if sym.same_axes(aa, ba) else sym.split_index(sym.flat_index(tt, aa), ba)
                   for tt, aa, ba in zip(idx, a.axes, b.axes))
        goal = And_(sh, sym.Implies_(rng, sym.same(a.cell(idx), b.cell(bi))))
        if c.is_valid_full(zb(goal)):
            c.oblige("lemma", "matrix-extensionality", goal)
            a.term = t
            if sig is not None:
                cache[sig] = t
            return t
    t = _template_term(a)
    if t is None:
        t = z3.Const(c.fresh_name("M"), Mat)
    known.append((a.copy(), t))
    a.term = t
    if sig is not None:
        cache[sig] = t
    # link the term's cells to the array's cells on demand: reading the kernel result of a termified
    # array never needs it (kernels are opaque), so no facts are added here
    return t


def _template_term(a, only_existing=False, signature_only=False):
    """matrix term as an uninterpreted function of the free constants of the generic cell expression (so that
    'the same matrix at provably equal parameters' is the same term by congruence); None if the cell cannot be
    evaluated at bound indices"""
    from . import npmodel as N
    c = cur()
    if not all(len(ax) == 1 for ax in a.axes):
        return None
    # fresh generic indices with (soft) range facts, renamed to canonical names for the template key
    if not all(is_pyint(n_) or c.is_valid(zi(n_) > 0) for n_ in a.shape):
        return None
    bvs = [c.fresh_int("mt") for _ in range(a.ndim)]
    for b_, n_ in zip(bvs, a.shape):
        c.fact(z3.And(b_ >= 0, z3.Implies(zi(n_) > 0, b_ < zi(n_))))
    canon = [z3.Int(f"m!{j}") for j in range(a.ndim)]
    splits_before = {k_ for k_ in c.memo if isinstance(k_, tuple) and k_ and k_[0] == "split"}
    c.numpy_mode += 1
    try:
        try:
            v = a.cell(tuple((b,) for b in bvs))
        except Exception:
            return None
    finally:
        c.numpy_mode -= 1
    # mixed-radix digits invented while reading the generic cell depend on the generic indices: bound, not parameters
    digits = []
    import re as _re
    import os as _os
    probe_names = {str(b_) for b_ in bvs} if not _os.environ.get('PYVC_NO_DIGITS') else set()
    for k_, ids_ in list(c.memo.items()):
        if isinstance(k_, tuple) and k_ and k_[0] == "split" and k_ not in splits_before:
            toks = set(_re.findall(r"[A-Za-z_][A-Za-z_0-9.]*![0-9]+", k_[1]))
            known_digits = {str(x) for x in digits}
            if not (toks & (probe_names | known_digits)):
                continue        # a split of an index that does not involve the generic indices: its digits are parameters
            for d_ in ids_:
                if z3.is_const(d_) and not any(d_.get_id() == x.get_id() for x in digits):
                    digits.append(d_)
    if isinstance(v, C):
        exprs = [z3.simplify(v.re), z3.simplify(v.im), zb(v.nan)]
    else:
        try:
            v = sym.toF(v)
        except Exception:
            return None
        exprs = [z3.simplify(v.v), zb(v.nan)]
    exprs += [zi(n) if not is_pyint(n) else z3.IntVal(n) for n in a.shape]
    dcanon = [z3.Int(f"md!{j}") for j in range(len(digits))]
    sub = list(zip(bvs, canon)) + list(zip(digits, dcanon))
    exprs = [z3.substitute(e, *sub) for e in exprs]
    tk, free = sym.template_of(exprs, {b.get_id() for b in canon + dcanon}, sorts=(z3.IntSort(), z3.RealSort(), z3.BoolSort(), Mat))
    key = ("matrix-template", tk)
    if signature_only:
        return (tk, tuple(x.sexpr() for x in free))
    decl = c.memo.get(key)
    if decl is None and only_existing:
        return None
    if decl is None:
        nm = c.fresh_name("MAT")
        decl = z3.Function(nm, *[x.sort() for x in free], Mat) if free else z3.Const(nm, Mat)
        c.memo[key] = decl
    return decl(*free) if free else decl


def T_(t):
    # (M^T)^T = M
    if z3.is_app(t) and t.decl().name() == "mat.T":
        return t.children()[0]
    return fn("T", Mat, Mat)(t)


def mm_(ta, tb):
    """product term in right-nested normal form: (A B) C and A (B C) are the same term (re-associating a product is not a change of
    the matrix over the reals; in floating point the results differ by rounding only)"""
    if z3.is_app(ta) and ta.decl().name() == "mat.mm":
        x, y = ta.children()
        return mm_(x, mm_(y, tb))
    return fn("mm", Mat, Mat, Mat)(ta, tb)


def diag_(t):
    return fn("diag", Mat, Mat)(t)


def slc(t, r0, r1, c0, c1):
    return fn("slice", Mat, I, I, I, I, Mat)(t, zi(r0), zi(r1), zi(c0), zi(c1))


def getitem_term(a: Arr, key):
    """term of a basic slice of a 2-D term array (None if the key is not two plain slices)"""
    if a.ndim != 2 or len(key) != 2:
        return None
    bounds = []
    for k, n in zip(key, a.shape):
        if not isinstance(k, slice) or (k.step is not None and not (is_pyint(k.step) and k.step == 1)):
            return None
        lo = 0 if k.start is None else k.start
        hi = n if k.stop is None else k.stop
        if is_pyint(lo) and lo < 0:
            lo = sym.add(n, lo)
        if is_pyint(hi) and hi < 0:
            hi = sym.add(n, hi)
        bounds += [lo, hi]
    # normalise nested slices: slice(slice(M, r0, _, c0, _), a, b, c, d) = slice(M, r0+a, r0+b, c0+c, c0+d)
    base = a.term
    if z3.is_app(base) and base.decl().name() == "mat.T":
        # a slice of a transpose is the transpose of the mirrored slice: M.T[a:b, c:d] = M[c:d, a:b].T  (one normal form for both spellings)
        inner = base.children()[0]
        if z3.is_app(inner) and inner.decl().name() == "mat.slice":
            bt, r0, _r1, c0, _c1 = inner.children()
            return T_(slc(bt, simp(r0 + zi(bounds[2])), simp(r0 + zi(bounds[3])), simp(c0 + zi(bounds[0])), simp(c0 + zi(bounds[1]))))
        return T_(slc(inner, bounds[2], bounds[3], bounds[0], bounds[1]))
    if z3.is_app(base) and base.decl().name() == "mat.slice":
        bt, r0, _r1, c0, _c1 = base.children()
        return slc(bt, simp(r0 + zi(bounds[0])), simp(r0 + zi(bounds[1])), simp(c0 + zi(bounds[2])), simp(c0 + zi(bounds[3])))
    return slc(base, *bounds)


def matmul(a: Arr, b: Arr):
    c = cur()
    ta, tb = termify(a), termify(b)
    ka = a.shape[-1]
    kb = b.shape[0]
    if not sym.int_eq_syntactic(ka, kb):
        c.oblige("safe", "shape", zi(ka) == zi(kb), {"what": "inner dimensions of a matrix product agree"})
    kind = sym.kind_join(a.kind, b.kind)
    t = mm_(ta, tb)
    if a.ndim == 2 and b.ndim == 2:
        return mat_arr(t, (a.shape[0], b.shape[1]), kind)
    if a.ndim == 2 and b.ndim == 1:
        return mat_arr(t, (a.shape[0],), kind)
    if a.ndim == 1 and b.ndim == 2:
        return mat_arr(t, (b.shape[1],), kind)
    raise Unsupported("matrix product of two vectors at term level")


def _min(a, b):
    if is_pyint(a) and is_pyint(b):
        return min(a, b)
    c = cur()
    if c.is_valid(zi(a) <= zi(b)):
        return a
    if c.is_valid(zi(b) <= zi(a)):
        return b
    return z3.If(zi(a) <= zi(b), zi(a), zi(b))


def qr(a: Arr, mode="reduced"):
    a = a if isinstance(a, Arr) else None
    if a is None or a.ndim != 2:
        raise Unsupported("qr of a non-matrix")
    t = termify(a)
    m, n = a.shape
    k = _min(m, n)
    Rm = mat_arr(fn("qr_r", Mat, Mat)(t), (k, n), a.kind)
    if mode == "r":
        return Rm
    if mode != "reduced":
        raise Unsupported(f"qr mode {mode}")
    Q = mat_arr(fn("qr_q", Mat, Mat)(t), (m, k), a.kind)
    return (Q, Rm)


def svd(a: Arr, full_matrices=True):
    if not isinstance(a, Arr) or a.ndim != 2:
        raise Unsupported("svd of a non-matrix")
    t = termify(a)
    m, n = a.shape
    k = _min(m, n)
    kind = a.kind
    U = mat_arr(fn("svd_u", Mat, Mat)(t), (m, m) if full_matrices else (m, k), kind)
    st = fn("svd_s", Mat, Mat)(t)
    S = Arr(((k,),), lambda idx: _sv(st, idx[0][0]), "float", term=st)
    vt_t = fn("svd_vt", Mat, Mat)(t)
    Vt = mat_arr(vt_t, (n, n) if full_matrices else (k, n), kind)
    if is_pyint(n) and n <= 3 and kind != "complex":
        # real orthogonal V for a matrix with few columns: rows of V^T are orthonormal (instances written out)
        c = cur()
        e = lambda i, j: fn("el_re", Mat, I, I, R)(vt_t, z3.IntVal(i), z3.IntVal(j))     # noqa: E731
        for i in range(n):
            for i2 in range(i, n):
                dotp = sum((e(i, j) * e(i2, j) for j in range(n)), z3.RealVal(0))
                c.fact(dotp == (1 if i == i2 else 0))
            for j in range(n):
                c.fact(z3.Not(fn("el_nan", Mat, I, I, B)(vt_t, z3.IntVal(i), z3.IntVal(j))))
        for j in range(n):
            for j2 in range(j, n):
                dotp = sum((e(i, j) * e(i, j2) for i in range(n)), z3.RealVal(0))
                c.fact(dotp == (1 if j == j2 else 0))
    return (U, S, Vt)


def _sv(st, i):
    """singular value i: finite, non-negative, non-increasing (instances at i, i+1)"""
    c = cur()
    f = fn("el_re", Mat, I, I, R)
    v = f(st, zi(i), 0)
    key = ("sv", st.sexpr(), zi(i).sexpr())
    if key not in c.memo:
        c.memo[key] = True
        c.fact(v >= 0)
        c.fact(z3.Implies(zi(i) >= 0, v >= f(st, zi(i) + 1, 0)))
        c.fact(z3.Implies(zi(i) >= 1, f(st, zi(i) - 1, 0) >= v))
    return F(False, v)


def eig(a: Arr, left=False):
    """eigen-decomposition as an uninterpreted kernel of the matrix: (w, [vl,] vr); entries may be non-finite only if the
    matrix is (el_nan flags are unconstrained)"""
    if not isinstance(a, Arr) or a.ndim != 2:
        raise Unsupported("eig of a non-matrix")
    t = termify(a)
    n = a.shape[0]
    w = mat_arr(fn("eig_w", Mat, Mat)(t), (n,), "complex")
    vr = mat_arr(fn("eig_vr", Mat, Mat)(t), (n, n), "complex")
    if left:
        vl = mat_arr(fn("eig_vl", Mat, Mat)(t), (n, n), "complex")
        return (w, vl, vr)
    return (w, vr)


def inv(a: Arr):
    t = termify(a)
    return mat_arr(fn("inv", Mat, Mat)(t), (a.shape[0], a.shape[1]), a.kind)


def pinv(a: Arr):
    t = termify(a)
    return mat_arr(fn("pinv", Mat, Mat)(t), (a.shape[1], a.shape[0]), a.kind)


def solve(a: Arr, b: Arr):
    ta, tb = termify(a), termify(b)
    kind = sym.kind_join(a.kind, b.kind)
    # solve(A, B) = A^-1 B: the same matrix as inv(A) @ B (normal form of both spellings)
    return mat_arr(mm_(fn("inv", Mat, Mat)(ta), tb), tuple(b.shape), kind)
