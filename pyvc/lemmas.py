"""Lemmas about lazy sums (each is a small, explicitly checked proof rule).

sum congruence:  n = n'  and  forall t in [0,n): f(t) = g(t)   ==>   SUM_n f = SUM_n' g
   The premise is checked at a fresh skolem t under the current path condition; only then is the
   conclusion added as a fact, and the check is also recorded as a `lemma` obligation so that it is
   re-discharged (and counted) with all the others.
"""
from __future__ import annotations

import z3

from . import sym
from .core import cur
from .sym import C, F, zi, zb


def _sum_consts(e, sums, acc):
    if isinstance(e, (bool, int)) or e is None:
        return
    seen = set()
    stack = [e]
    while stack:
        x = stack.pop()
        if x.get_id() in seen:
            continue
        seen.add(x.get_id())
        if z3.is_app(x):
            key = x.sexpr()
            if key in sums:
                acc[key] = x
                continue
            stack.extend(x.children())


def exprs_of(v):
    if isinstance(v, F):
        return [v.v] + ([v.nan] if isinstance(v.nan, z3.ExprRef) else [])
    if isinstance(v, C):
        return [v.re, v.im] + ([v.nan] if isinstance(v.nan, z3.ExprRef) else [])
    if isinstance(v, z3.ExprRef):
        return [v]
    return []


def close_sums(got, want):
    c = cur()
    sums = c.memo.get("sums", {})
    if not sums:
        return
    a, b = {}, {}
    for e in exprs_of(got):
        _sum_consts(e, sums, a)
    for e in exprs_of(want):
        _sum_consts(e, sums, b)
    for ka, ea in a.items():
        for kb, eb in b.items():
            if ka == kb:
                continue
            done = c.memo.setdefault("sumcong", set())
            if (ka, kb) in done:
                continue
            done.add((ka, kb))
            ia, ib = sums[ka], sums[kb]
            if len(ia.extents) != len(ib.extents):
                continue
            ext_eq = sym.And_(*[sym.eq(x, y) for x, y in zip(ia.extents, ib.extents)])
            if ext_eq is False:
                continue
            ts = tuple(c.fresh_int("ts") for _ in ia.extents)
            rng = sym.And_(*[sym.And_(zi(t) >= 0, zi(t) < zi(n)) for t, n in zip(ts, ia.extents)])
            c.numpy_mode += 1
            try:
                fa = ia.summand(ts)
                fb = ib.summand(ts)
            finally:
                c.numpy_mode -= 1
            goal = sym.And_(ext_eq, sym.Implies_(rng, sym.same(fa, fb)))
            if c.is_valid_full(zb(goal)):
                c.oblige("lemma", "sum-congruence", goal)
                for x, y in zip(ia.comps, ib.comps):
                    c.fact(x == y)
                    c.memo.setdefault("sum_equal", []).append((x, y))


def sum_same(got, want):
    close_sums(got, want)
    return sym.same(got, want)


def rewrite_equal_sums(expr, target):
    """replace, in expr, every sum constant proved equal to `target` (sum congruence) by `target`"""
    c = cur()
    subs = []
    for x, y in c.memo.get("sum_equal", []):
        if y.eq(target) and not x.eq(target):
            subs.append((x, target))
        elif x.eq(target) and not y.eq(target):
            subs.append((y, target))
    if not subs:
        return expr
    return z3.simplify(z3.substitute(expr, *subs))


def sum_bound(total_f, info_f, total_g, lo_coef, hi_coef, label="sum-bound"):
    """lemma: if lo*g(t) <= f(t) <= hi*g(t) for every t (finite values) then lo*SUM g <= SUM f <= hi*SUM g.
    f, g are given by their SumInfo-like (extents, summand) pairs; the point-wise premise is checked at a skolem
    index and recorded as a `lemma` obligation; only then is the conclusion added as a fact."""
    c = cur()
    ext_f, fn_f = info_f
    ext_g, fn_g = total_g[1]
    ts = tuple(c.fresh_int("tb") for _ in ext_f)
    rng = sym.And_(*[sym.And_(zi(t) >= 0, zi(t) < zi(n)) for t, n in zip(ts, ext_f)])
    c.numpy_mode += 1
    try:
        f = sym.toF(fn_f(ts))
        g = sym.toF(fn_g(ts))
    finally:
        c.numpy_mode -= 1
    goal = sym.Implies_(rng, sym.And_(sym.Not_(f.nan), sym.Not_(g.nan), lo_coef * g.v <= f.v, f.v <= hi_coef * g.v))
    ok = c.is_valid_full(zb(goal), 60000)
    if ok:
        c.oblige("lemma", label, goal)
        F_, G_ = sym.toF(total_f), sym.toF(total_g[0])
        c.fact(z3.And(lo_coef * G_.v <= F_.v, F_.v <= hi_coef * G_.v))
    return ok


def prove_then_assume(label, formula, timeout_ms=20000, heavy=True, rewrite=None):
    """a proof step: `formula` is checked under the full path condition; it is recorded as a `lemma` obligation
    and, only if the check succeeded, added as a fact for the steps that follow.  Returns whether it was proved."""
    c = cur()
    ok = c.is_valid_full(zb(formula), timeout_ms)
    c.oblige("lemma", label, formula)
    import os
    if os.environ.get("PYVC_DEBUG"):
        print("prove_then_assume", label, ok, formula.sexpr()[:120])
    if ok:
        c.fact(formula, heavy=heavy)
        if rewrite is not None:
            x, y = rewrite
            if isinstance(x, z3.ExprRef) and not x.eq(zi(y)):
                c.memo.setdefault("rewrites", []).append((x, zi(y)))
            return ok
        # a proved equation  t == u  between an uninterpreted constant and a term also serves as a rewrite rule t -> u
        f = formula
        if z3.is_eq(f) and f.num_args() == 2:
            a, b = f.arg(0), f.arg(1)
            for x, y in ((a, b), (b, a)):
                if z3.is_app(x) and x.decl().kind() == z3.Z3_OP_UNINTERPRETED and not x.eq(y) \
                        and x.sexpr() not in y.sexpr():
                    c.memo.setdefault("rewrites", []).append((x, y))
                    break
    return ok


def universal(label, variables, formula):
    """A stand-alone lemma `forall variables. formula` (no program symbols): recorded once as a `lemma` obligation with
    an empty context, and used by substitution - an instance needs no further proof (universal instantiation)."""
    from .core import Obligation
    c = cur()
    o = Obligation(f"{c.tag}/lemma.{label}", "lemma", label, [], formula, {"universal": True},
                   "".join("T" if d else "F" for d in c.decisions))
    c.obls.append(o)

    def inst(*terms, heavy=True):
        f = z3.substitute(formula, *list(zip(variables, terms)))
        c.fact(f, heavy=heavy)
        return f
    return inst
