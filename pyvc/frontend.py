"""Front end: locate and parse the real source of pyoma2 on every run (DESIGN.md 2.1)."""
from __future__ import annotations

import ast
import hashlib
import os

from .core import Unsupported


class FuncInfo:
    def __init__(self, qualname, node, module, cls=None, path=None, src=None):
        self.qualname = qualname
        self.node = node
        self.module = module      # ModuleInfo
        self.cls = cls            # ClassInfo | None
        self.path = path
        seg = ast.get_source_segment(src, node) or ""
        self.sha256 = hashlib.sha256(seg.encode()).hexdigest()
        self.lines = (node.lineno, node.end_lineno)
        self.is_static = any(isinstance(d, ast.Name) and d.id == "staticmethod" for d in node.decorator_list)
        self.is_property = any(isinstance(d, ast.Name) and d.id == "property" for d in node.decorator_list)
        self.is_setter = any(isinstance(d, ast.Attribute) and d.attr == "setter" for d in node.decorator_list)
        self.is_generator = any(isinstance(n, (ast.Yield, ast.YieldFrom)) for n in ast.walk(node))


class ClassInfo:
    def __init__(self, qualname, node, module):
        self.qualname = qualname
        self.node = node
        self.module = module
        self.methods = {}
        self.attrs = {}       # class-level simple assignments: name -> ast expr
        self.required = []    # annotated class-level names without a default (pydantic required fields)
        self.bases = []       # ast exprs


class ModuleInfo:
    def __init__(self, name, path, src):
        self.name = name
        self.path = path
        self.src = src
        self.tree = ast.parse(src)
        self.imports = {}     # local name -> dotted target
        self.functions = {}
        self.classes = {}
        self.globals = {}     # simple module-level assignments: name -> ast expr


class Repo:
    """All modules of <tree>/src/pyoma2, parsed."""

    def __init__(self, tree=None):
        self.tree = tree or os.environ.get("PYOMA2_TREE", "/repo")
        self.root = os.path.join(self.tree, "src")
        self.modules = {}
        self.functions = {}
        self.classes = {}
        pk = os.path.join(self.root, "pyoma2")
        if not os.path.isdir(pk):
            raise Unsupported(f"no package at {pk}")
        for dp, _dn, fns in os.walk(pk):
            for fn in sorted(fns):
                if not fn.endswith(".py"):
                    continue
                path = os.path.join(dp, fn)
                rel = os.path.relpath(path, self.root)[:-3].replace(os.sep, ".")
                if rel.endswith(".__init__"):
                    rel = rel[: -len(".__init__")]
                with open(path, encoding="utf-8") as fh:
                    src = fh.read()
                try:
                    self._load(rel, path, src)
                except SyntaxError as e:
                    raise Unsupported(f"cannot parse {path}: {e}")

    def _load(self, name, path, src):
        m = ModuleInfo(name, path, src)
        self.modules[name] = m
        pkg = name if path.endswith("__init__.py") else name.rsplit(".", 1)[0]
        for node in m.tree.body:
            if isinstance(node, ast.Import):
                for a in node.names:
                    m.imports[a.asname or a.name.split(".")[0]] = a.name if a.asname else a.name.split(".")[0]
            elif isinstance(node, ast.ImportFrom):
                base = node.module or ""
                if node.level:
                    parts = pkg.split(".")
                    parts = parts[: len(parts) - (node.level - 1)]
                    base = ".".join(parts + ([node.module] if node.module else []))
                for a in node.names:
                    m.imports[a.asname or a.name] = f"{base}.{a.name}"
            elif isinstance(node, ast.FunctionDef):
                fi = FuncInfo(f"{name}.{node.name}", node, m, None, path, src)
                m.functions[node.name] = fi
                self.functions[fi.qualname] = fi
            elif isinstance(node, ast.ClassDef):
                ci = ClassInfo(f"{name}.{node.name}", node, m)
                ci.bases = node.bases
                for sub in node.body:
                    if isinstance(sub, ast.FunctionDef):
                        fi = FuncInfo(f"{ci.qualname}.{sub.name}", sub, m, ci, path, src)
                        if fi.is_setter:
                            ci.methods[sub.name + ".setter"] = fi
                            continue
                        ci.methods[sub.name] = fi
                        self.functions[fi.qualname] = fi
                    elif isinstance(sub, ast.Assign) and len(sub.targets) == 1 and isinstance(sub.targets[0], ast.Name):
                        ci.attrs[sub.targets[0].id] = sub.value
                    elif isinstance(sub, ast.AnnAssign) and isinstance(sub.target, ast.Name) and sub.value is not None:
                        ci.attrs[sub.target.id] = sub.value
                    elif isinstance(sub, ast.AnnAssign) and isinstance(sub.target, ast.Name):
                        ci.required.append(sub.target.id)
                m.classes[node.name] = ci
                self.classes[ci.qualname] = ci
            elif isinstance(node, ast.Assign) and len(node.targets) == 1 and isinstance(node.targets[0], ast.Name):
                m.globals[node.targets[0].id] = node.value

    # -- lookups --------------------------------------------------------------------
    def function(self, qualname) -> FuncInfo:
        fi = self.functions.get(qualname)
        if fi is None:
            raise Unsupported(f"function {qualname} not found in {self.tree}")
        return fi

    def resolve_class(self, module: ModuleInfo, expr):
        """class referenced by a base-class expression (strips Generic[...] subscripts)."""
        while isinstance(expr, ast.Subscript):
            expr = expr.value
        if isinstance(expr, ast.Name):
            if expr.id in module.classes:
                return module.classes[expr.id]
            tgt = module.imports.get(expr.id)
            if tgt and tgt in self.classes:
                return self.classes[tgt]
            return None
        if isinstance(expr, ast.Attribute):
            return None
        return None

    def mro(self, ci: ClassInfo):
        out = [ci]
        for b in ci.bases:
            bc = self.resolve_class(ci.module, b)
            if bc is not None:
                for x in self.mro(bc):
                    if x not in out:
                        out.append(x)
        return out

    def find_method(self, ci: ClassInfo, name, after=None):
        """method lookup along the MRO; `after`: start after this class (super())."""
        chain = self.mro(ci)
        if after is not None:
            chain = chain[chain.index(after) + 1:]
        for c in chain:
            if name in c.methods:
                return c.methods[name]
        return None

    def find_class_attr(self, ci: ClassInfo, name):
        for c in self.mro(ci):
            if name in c.attrs:
                return c, c.attrs[name]
        return None, None
