"""Trusted models of NumPy on pyvc symbolic values (DESIGN.md 2.6).

Every function here is a *contract* of the NumPy function of the same name, written as a
computation on lambda arrays.  Opaque reductions (argmin, nanargmin, max, any, ...) return
fresh values constrained by quantified facts that are instantiated by hand at the ground index
terms registered in the context (`ground`).
"""
from __future__ import annotations

import z3

from . import sym
from .core import PyRaise, Unsupported, cur
from .sym import (And_, Arr, C, F, Implies_, Lazy, Not_, Or_, Seq, is_int, is_pyint, is_scalar,
                  ite, prod, same_axes, simp, split_index, flat_index, zi, zb)

# ----------------------------------------------------------------------------------
# quantified facts, instantiated by hand
# ----------------------------------------------------------------------------------


class QFact:
    """forall m in prod(range(extents)): body(m)   (m a tuple; body returns a z3 Bool / Python bool)"""

    def __init__(self, extents, body, label="", dom=None):
        self.extents = tuple(extents)
        self.body = body
        self.label = label
        self.dom = dom          # optional domain tag: a fact is instantiated at a ground term of another tag never


def add_qfact(extents, body, label="", dom=None):
    c = cur()
    if not isinstance(extents, (tuple, list)):
        extents = (extents,)
        body1 = body
        body = lambda m, body1=body1: body1(m[0])   # noqa: E731
    q = QFact(extents, body, label, dom)
    c.qfacts.append(q)
    doms = c.memo.setdefault("ground_doms", {})
    for g in list(c.grounds):
        gd = doms.get(tuple(zi(x).sexpr() for x in g))
        if dom is None or gd is None or gd == dom:
            _inst(q, g)
    return q


def ground(*m, dom=None):
    """Register an index term (tuple for structured axes); all quantified facts of that arity
    (existing and future) are instantiated at it."""
    c = cur()
    if len(m) == 1 and isinstance(m[0], tuple):
        m = m[0]
    key = tuple(zi(x).sexpr() for x in m)
    doms = c.memo.setdefault("ground_doms", {})
    if key in doms:
        old = doms[key]
        if old is None or old == dom:
            return m[0] if len(m) == 1 else m
        # known under another domain tag: instantiate what that tag left out, from now on untagged
        doms[key] = None
        for q in list(c.qfacts):
            if q.dom is not None and q.dom != old:
                _inst(q, tuple(m))
        return m[0] if len(m) == 1 else m
    c.grounds.append(tuple(m))
    doms[key] = dom
    for q in list(c.qfacts):
        if q.dom is None or dom is None or q.dom == dom:
            _inst(q, tuple(m))
    if len(m) == 1 and not c.memo.get("grounding_shift"):
        # slice-offset heuristic: an index into a[lo:hi] corresponds to index + lo of a (and back)
        c.memo["grounding_shift"] = True
        try:
            for off in list(c.memo.get("offsets", [])):
                ground(simp(zi(m[0]) + zi(off)), dom=dom)
                ground(simp(zi(m[0]) - zi(off)), dom=dom)
        finally:
            c.memo["grounding_shift"] = False
    return m[0] if len(m) == 1 else m


def note_offset(lo):
    """remember the lower bound of a symbolic slice (see ground)"""
    c = cur()
    if is_pyint(lo):
        return
    offs = c.memo.setdefault("offsets", [])
    key = zi(lo).sexpr()
    if any(zi(o).sexpr() == key for o in offs) or len(offs) >= 4:
        return
    offs.append(lo)
    c.memo["grounding_shift"] = True
    try:
        for g in list(c.grounds):
            if len(g) == 1:
                ground(simp(zi(g[0]) + zi(lo)))
                ground(simp(zi(g[0]) - zi(lo)))
    finally:
        c.memo["grounding_shift"] = False


def _inst(q, m):
    if len(m) != len(q.extents):
        return
    c = cur()
    rng = And_(*[And_(zi(x) >= 0, zi(x) < zi(n)) for x, n in zip(m, q.extents)])
    rng = simp(rng) if isinstance(rng, z3.ExprRef) else rng
    if rng is False:
        return
    c.numpy_mode += 1
    try:
        b = q.body(m)
    finally:
        c.numpy_mode -= 1
    c.fact(zb(Implies_(rng, b)))


# ----------------------------------------------------------------------------------
# conversion
# ----------------------------------------------------------------------------------


def probe_index(n):
    """fresh index constrained to [0, n) used to inspect the generic element of a symbolic list"""
    c = cur()
    k = c.fresh_int("probe")
    c.fact(z3.And(k >= 0, k < zi(n)))
    return k


def is_arraylike(x):
    return isinstance(x, (Arr, list, tuple, Seq))


def asarray(x, kind=None):
    if isinstance(x, Arr):
        return x
    if isinstance(x, MaskSel):
        raise Unsupported("boolean-mask selection used as an array")
    if is_scalar(x):
        return Arr((), lambda idx, x=x: x, kind or sym.kind_of(x))
    if isinstance(x, (list, tuple)):
        n = len(x)
        if n == 0:
            return Arr(((0,),), lambda idx: _oob(), kind or "float")
        items = [asarray(e) if not is_scalar(e) else e for e in x]
        if all(is_scalar(e) for e in items):
            k = "bool"
            for e in items:
                k = sym.kind_join(k, sym.kind_of(e))
            k = kind or k
            vals = [sym.cast(e, k) for e in items]
            return Arr(((n,),), lambda idx, vals=vals: _select(idx[0][0], vals), k)
        if all(isinstance(e, Arr) for e in items):
            ax = items[0].axes
            k = items[0].kind
            for e in items[1:]:
                k = sym.kind_join(k, e.kind)
                if len(e.axes) != len(ax):
                    raise Unsupported("np.array of ragged arrays")
            k = kind or k
            snaps = [e.snapshot_fn() for e in items]

            def fn(idx, items=items, k=k, snaps=snaps):
                sub = [_conv_read(e, idx[1:], ax, f) for e, f in zip(items, snaps)]
                return _select(idx[0][0], [sym.cast(v(), k) for v in sub])
            return Arr(((n,),) + tuple(ax), fn, k)
        raise Unsupported("np.array of mixed list")
    if isinstance(x, Seq):
        n = x.length
        probe = x.get(probe_index(n))
        if is_scalar(probe):
            k = kind or sym.kind_of(probe)
            return Arr(((n,),), lambda idx, x=x, k=k: sym.cast(x.get(idx[0][0]), k), k)
        if isinstance(probe, Arr):
            k = kind or probe.kind
            return Arr(((n,),) + tuple(probe.axes),
                       lambda idx, x=x: x.get(idx[0][0]).cell(idx[1:]), k)
        if isinstance(probe, (tuple, list)) and all(is_scalar(e) for e in probe):
            # list of fixed-width rows of scalars -> 2-D array
            w = len(probe)
            k = kind
            if k is None:
                k = sym.kind_of(probe[0]) if w else "float"
                for e in probe[1:]:
                    k = sym.kind_join(k, sym.kind_of(e))

            def fn2(idx, x=x, k=k, w=w):
                row = x.get(idx[0][0])
                j = idx[1][0]
                if is_pyint(j):
                    return sym.cast(row[j], k)
                v = sym.cast(row[w - 1], k)
                for q in range(w - 2, -1, -1):
                    v = ite(sym.eq(j, q), sym.cast(row[q], k), v)
                return v
            return Arr(((n,), (w,)), fn2, k)
        raise Unsupported("np.array of a symbolic list of non-arrays")
    raise Unsupported(f"asarray({type(x).__name__})")


def _oob():
    raise Unsupported("read of an empty array")


def _conv_read(e, idx, axes, f=None):
    """thunk reading e (snapshot f) at idx given in the factorisation `axes` (same extents)."""
    f = f or e.snapshot_fn()
    eaxes = e.axes

    def th(idx=idx, axes=axes):
        o = []
        for t, na, oa in zip(idx, axes, eaxes):
            if same_axes(na, oa):
                o.append(t)
            else:
                o.append(split_index(flat_index(t, na), oa))
        return f(tuple(o))
    return th


def _select(k, vals):
    """vals[k] for a (possibly symbolic) index into a concrete list of scalars."""
    if is_pyint(k):
        return vals[k]
    r = vals[-1]
    for j in range(len(vals) - 2, -1, -1):
        r = ite(zi(k) == j, vals[j], r)
    return r


# ----------------------------------------------------------------------------------
# broadcasting element-wise operations
# ----------------------------------------------------------------------------------


def _is_one(ax):
    return len(ax) == 1 and is_pyint(ax[0]) and ax[0] == 1


def broadcast_axes(arrs):
    nd = max(a.ndim for a in arrs)
    res = []
    for pos in range(nd):
        cand = None
        for a in arrs:
            k = pos - (nd - a.ndim)
            if k < 0:
                continue
            ax = a.axes[k]
            if _is_one(ax):
                continue
            if cand is None or (len(ax) > len(cand) and len(cand) == 1):
                cand = ax
        res.append(cand if cand is not None else (1,))
    c = cur()
    for pos in range(nd):
        for a in arrs:
            k = pos - (nd - a.ndim)
            if k < 0 or _is_one(a.axes[k]):
                continue
            if not sym.int_eq_syntactic(prod(a.axes[k]), prod(res[pos])):
                c.oblige("safe", "shape", zi(prod(a.axes[k])) == zi(prod(res[pos])),
                         {"what": "operands of an element-wise operation have equal extents"})
    return tuple(res)


def reader(a, axes):
    nd = len(axes)
    f = a.snapshot_fn()

    def rd(idx, a=a, f=f):
        o = []
        for k in range(a.ndim):
            pos = k + (nd - a.ndim)
            ax = a.axes[k]
            if _is_one(ax):
                o.append((0,))
            elif same_axes(ax, axes[pos]):
                o.append(idx[pos])
            else:
                o.append(split_index(flat_index(idx[pos], axes[pos]), ax))
        return f(tuple(o))
    return rd


def elementwise(op, *args, kind=None):
    args = [asarray(a) if isinstance(a, (list, tuple, Seq)) else a for a in args]
    arrs = [a for a in args if isinstance(a, Arr)]
    c = cur()
    if not arrs:
        return op(*args)
    axes = broadcast_axes(arrs)
    rds = [reader(a, axes) if isinstance(a, Arr) else None for a in args]

    def fn(idx):
        vals = [r(idx) if r is not None else a for r, a in zip(rds, args)]
        cc = cur()
        cc.numpy_mode += 1
        try:
            return op(*vals)
        finally:
            cc.numpy_mode -= 1
    if kind is None:
        k = "bool"
        for a in args:
            k = sym.kind_join(k, a.kind if isinstance(a, Arr) else sym.kind_of(a))
        kind = k
    out = Arr(axes, fn, kind)
    if out.ndim == 0:
        return out
    return out


def _arith_kind(args, div=False):
    k = "bool"
    for a in args:
        k = sym.kind_join(k, a.kind if isinstance(a, Arr) else sym.kind_of(a))
    if k == "bool":
        k = "int"
    if div and k == "int":
        k = "float"
    return k


def add(a, b): return elementwise(sym.add, a, b, kind=_arith_kind((a, b)))
def subtract(a, b): return elementwise(sym.sub, a, b, kind=_arith_kind((a, b)))
def multiply(a, b): return elementwise(sym.mul, a, b, kind=_arith_kind((a, b)))
def divide(a, b): return elementwise(sym.div, a, b, kind=_arith_kind((a, b), div=True))
def negative(a): return elementwise(sym.neg, a, kind=_arith_kind((a,)))


def power(a, b):
    k = _arith_kind((a, b))
    if isinstance(b, float):
        k = sym.kind_join(k, "float")
    return elementwise(lambda x, y=None: sym.pow_(x, b), a, kind=k)


def floor_divide(a, b): return elementwise(sym.floordiv, a, b, kind="int")
def mod(a, b): return elementwise(sym.imod, a, b, kind="int")
def less(a, b): return elementwise(sym.lt, a, b, kind="bool")
def less_equal(a, b): return elementwise(sym.le, a, b, kind="bool")
def greater(a, b): return elementwise(lambda x, y: sym.lt(y, x), a, b, kind="bool")
def greater_equal(a, b): return elementwise(lambda x, y: sym.le(y, x), a, b, kind="bool")
def equal(a, b): return elementwise(sym.eq, a, b, kind="bool")
def not_equal(a, b): return elementwise(lambda x, y: Not_(sym.eq(x, y)), a, b, kind="bool")


def logical_and(a, b):
    return elementwise(lambda x, y: And_(sym.truthy_scalar(x), sym.truthy_scalar(y)), a, b, kind="bool")


def logical_or(a, b):
    return elementwise(lambda x, y: Or_(sym.truthy_scalar(x), sym.truthy_scalar(y)), a, b, kind="bool")


def logical_not(a):
    return elementwise(lambda x: Not_(sym.truthy_scalar(x)), a, kind="bool")


def _absk(a):
    k = a.kind if isinstance(a, Arr) else sym.kind_of(a)
    return "float" if k == "complex" else ("int" if k == "bool" else k)


def abs_(a): return elementwise(sym.abs_, a, kind=_absk(a))
def sqrt(a): return elementwise(sym.sqrt_, a, kind="float")
def log(a): return elementwise(sym.log_, a, kind=sym.kind_join("float", a.kind if isinstance(a, Arr) else sym.kind_of(a)))
def log10(a): return elementwise(sym.log10_, a, kind="float")
def exp(a): return elementwise(sym.exp_, a, kind=sym.kind_join("float", a.kind if isinstance(a, Arr) else sym.kind_of(a)))
def arccos(a): return elementwise(sym.arccos_, a, kind="float")
def conj(a): return elementwise(sym.conj_, a, kind=a.kind if isinstance(a, Arr) else sym.kind_of(a))


def real(a):
    k = a.kind if isinstance(a, Arr) else sym.kind_of(a)
    return elementwise(sym.real_, a, kind="float" if k == "complex" else k)


def imag(a):
    k = a.kind if isinstance(a, Arr) else sym.kind_of(a)
    return elementwise(sym.imag_, a, kind="float" if k == "complex" else k)


def isnan(a): return elementwise(sym.isnan_, a, kind="bool")


def sign(a):
    def sg(x):
        x = sym.toF(x)
        return F(x.nan, z3.If(x.v > 0, z3.RealVal(1), z3.If(x.v < 0, z3.RealVal(-1), z3.RealVal(0))))
    return elementwise(sg, a, kind="float")


def where(c, a=None, b=None):
    if a is None:
        raise Unsupported("np.where with one argument")
    k = "bool"
    for x in (a, b):
        k = sym.kind_join(k, x.kind if isinstance(x, Arr) else sym.kind_of(x))
    out = elementwise(lambda cc, x, y: ite(sym.truthy_scalar(cc), x, y), c, a, b, kind=k)
    if isinstance(a, Arr) and a.vecfn is not None and isinstance(c, Arr) and is_scalar(b) \
            and sym.isnan_(b) is True and isinstance(out, Arr) and out.ndim == a.ndim:
        cb = c.meta.get("bcast_last") if c.ndim == a.ndim else None
        if cb is not None:
            av = a.vecfn
            out.vecfn = lambda lead, cb=cb, av=av: z3.If(zb(sym.truthy_scalar(cb(lead))), av(lead), sym.NANVEC)
    return out


def isclose(a, b, rtol=1e-05, atol=1e-08, equal_nan=False):
    def ic(x, y):
        x = sym.toF(x)
        y = sym.toF(y)
        d = sym.abs_(sym.sub(x, y))
        lim = sym.add(atol, sym.mul(rtol, sym.abs_(y)))
        return sym.le(d, lim)
    return elementwise(ic, a, b, kind="bool")


def nan_to_num(a, copy=True, nan=0.0):
    def f(x):
        x = sym.toF(x)
        z = sym.toF(nan)
        return F(False, z3.If(zb(x.nan), z.v, x.v))
    return elementwise(f, a, kind="float")


def astype(a, kind):
    a = asarray(a)
    return elementwise(lambda x: sym.cast(x, kind), a, kind=kind)


# ----------------------------------------------------------------------------------
# construction
# ----------------------------------------------------------------------------------


def _axes_from_shape(shape):
    if is_int(shape):
        shape = (shape,)
    if isinstance(shape, Arr):
        raise Unsupported("array as shape")
    return tuple((simp(sym.to_int(s)) if not is_int(s) else s,) for s in shape)


def _dtype_kind(dtype, default="float"):
    if dtype is None:
        return default
    if isinstance(dtype, str):
        return {"int": "int", "float": "float", "complex": "complex", "bool": "bool"}.get(dtype, default)
    return getattr(dtype, "kind", default)


def full(shape, value, dtype=None):
    k = _dtype_kind(dtype, sym.kind_of(value))
    v = sym.cast(value, k)
    a = Arr(_axes_from_shape(shape), lambda idx: v, k)
    a.meta["fill"] = True
    return a


def zeros(shape, dtype=None): return full(shape, 0.0 if _dtype_kind(dtype) != "int" else 0, dtype or "float")
def ones(shape, dtype=None): return full(shape, 1.0, dtype or "float")
def empty(shape, dtype=None):
    """np.empty: contents unspecified - every cell is an uninterpreted value (possibly non-finite)"""
    from . import spec as S
    k = _dtype_kind(dtype, "float")
    axes = _axes_from_shape(shape)
    a = S.array("empty", k, shape=tuple(ax[0] for ax in axes))
    a.fresh = True
    a.meta["param"] = False
    a.label = None
    return a


def zeros_like(a, dtype=None):
    a = asarray(a)
    k = _dtype_kind(dtype, a.kind)
    r = Arr(a.axes, lambda idx: sym.cast(0, k), k)
    r.meta["fill"] = True
    return r


def empty_like(a, dtype=None):
    a = asarray(a)
    if all(len(ax) == 1 for ax in a.axes):
        return empty(tuple(ax[0] for ax in a.axes), dtype or a.kind)
    return zeros_like(a, dtype)


def eye(n, dtype=None):
    return Arr(((n,), (n,)), lambda idx: F(False, z3.If(zi(idx[0][0]) == zi(idx[1][0]), z3.RealVal(1), z3.RealVal(0))), "float")


def arange(a, b=None, step=1):
    if b is None:
        a, b = 0, a
    if not is_int(a) or not is_int(b):
        raise Unsupported("arange with non-integer bounds")
    if not (is_pyint(step) and step == 1):
        raise Unsupported("arange with step != 1")
    n = simp(zi(b) - zi(a)) if not (is_pyint(a) and is_pyint(b)) else b - a
    if is_pyint(n):
        n = max(n, 0)
    else:
        c = cur()
        if not c.branch(zi(n) >= 0):
            n = 0
    return Arr(((n,),), lambda idx, a=a: sym.add(a, idx[0][0]), "int")


def linspace(start, stop, num):
    s = sym.toF(start)
    e = sym.toF(stop)

    def fn(idx):
        k = idx[0][0]
        cur().numpy_mode += 1
        try:
            stepv = sym.div(sym.sub(e, s), sym.sub(num, 1))
        finally:
            cur().numpy_mode -= 1
        return sym.add(s, sym.mul(k, stepv))
    return Arr(((num,),), fn, "float")


# ----------------------------------------------------------------------------------
# shape manipulation
# ----------------------------------------------------------------------------------


def transpose(a):
    a = asarray(a)
    if a.ndim < 2:
        return a
    ax = tuple(reversed(a.axes))
    out = Arr(ax, lambda idx, a=a, f=a.snapshot_fn(): f(tuple(reversed(idx))), a.kind, term=_term_T(a))
    out.meta["view_of"] = a
    return out


def transpose_axes(a, axes):
    """a.transpose(*axes) / np.transpose(a, axes) with an explicit permutation of concrete axis numbers: result axis j is source axis axes[j]
    (a view of the base array, like the plain transpose)"""
    a = asarray(a)
    nd = a.ndim
    if len(axes) != nd or not all(isinstance(k, int) and not isinstance(k, bool) for k in axes):
        raise Unsupported("transpose with a symbolic or incomplete axis list")
    order = [k % nd for k in axes]
    if sorted(order) != list(range(nd)):
        raise Unsupported("transpose: axes are not a permutation")
    if nd == 2 and order == [1, 0]:
        return transpose(a)
    if order == list(range(nd)):
        return a
    ax = tuple(a.axes[k] for k in order)
    f = a.snapshot_fn()

    def fn(idx):
        o = [None] * nd
        for j, k in enumerate(order):
            o[k] = idx[j]
        return f(tuple(o))
    out = Arr(ax, fn, a.kind)
    out.meta["view_of"] = a
    return out


def _term_T(a):
    if a.term is None:
        return None
    from . import matmodel
    return matmodel.T_(a.term)


def moveaxis(a, src, dst):
    a = asarray(a)
    nd = a.ndim
    src %= nd
    dst %= nd
    order = [k for k in range(nd) if k != src]
    order.insert(dst, src)           # result axis j is source axis order[j]
    ax = tuple(a.axes[k] for k in order)
    f = a.snapshot_fn()

    def fn(idx):
        o = [None] * nd
        for j, k in enumerate(order):
            o[k] = idx[j]
        return f(tuple(o))
    return Arr(ax, fn, a.kind)


def expand_dims(a, axis):
    a = asarray(a)
    nd = a.ndim + 1
    axis %= nd
    ax = list(a.axes)
    ax.insert(axis, (1,))
    f = a.snapshot_fn()
    return Arr(tuple(ax), lambda idx: f(tuple(t for k, t in enumerate(idx) if k != axis)), a.kind)


def repeat(a, n, axis=None):
    if is_scalar(a) and axis is None:
        return Arr(((n,),), lambda idx, a=a: a, sym.kind_of(a))
    a = asarray(a)
    if axis is None:
        raise Unsupported("np.repeat without axis")
    axis %= a.ndim
    if not _is_one(a.axes[axis]):
        raise Unsupported("np.repeat along an axis of extent != 1")
    ax = list(a.axes)
    ax[axis] = (n,)
    f = a.snapshot_fn()

    def fn(idx):
        o = list(idx)
        o[axis] = (0,)
        return f(tuple(o))
    out = Arr(tuple(ax), fn, a.kind)
    if axis == a.ndim - 1:
        out.meta["bcast_last"] = lambda lead, f=f: f(tuple(lead) + ((0,),))
    return out


def flatten(a, order="C"):
    a = asarray(a)
    order = order.upper()
    if a.ndim == 1:
        return Arr(a.axes, a.snapshot_fn(), a.kind)
    f = a.snapshot_fn()
    if order not in ("C", "F"):
        raise Unsupported(f"flatten order {order}")
    seq = list(a.axes) if order == "C" else list(reversed(a.axes))
    keep = [[not (is_pyint(x) and x == 1) for x in ax] for ax in seq]
    fac = tuple(x for ax, kp in zip(seq, keep) for x, k_ in zip(ax, kp) if k_)
    if not fac:
        fac = (1,)

    def fn(idx):
        t = list(idx[0])
        o = []
        p = 0
        for ax, kp in zip(seq, keep):
            sub = []
            for k_ in kp:
                if k_:
                    sub.append(t[p] if p < len(t) else 0)
                    p += 1
                else:
                    sub.append(0)
            o.append(tuple(sub))
        return f(tuple(o if order == "C" else reversed(o)))
    return Arr((fac,), fn, a.kind)


def ravel(a, order="C"):
    return flatten(a, order)


def reshape(a, *shape, order="C"):
    """ndarray.reshape / np.reshape: NumPy returns a view whenever it can - the result is tagged so that writes through it are refused"""
    base = asarray(a)
    out = _reshape(base, *shape, order=order)
    if isinstance(out, Arr) and out is not base:
        out.meta["view_of"] = base
    return out


def _reshape(a, *shape, order="C"):
    a = asarray(a)
    if len(shape) == 1 and isinstance(shape[0], (tuple, list)):
        shape = tuple(shape[0])
    shape = tuple(shape)
    if order not in ("C", "F"):
        raise Unsupported(f"reshape(order={order!r})")
    if order == "F":
        # a.reshape(shape, order="F") == a.T.reshape(shape[::-1]).T   (.T reverses all axes)
        at = transpose(a) if a.ndim > 1 else a
        res = _reshape(at, *reversed(shape))
        return transpose(res) if res.ndim > 1 else res
    tot_fac = tuple(x for ax in a.axes for x in ax)
    total = prod(tot_fac)
    # resolve -1
    known = [s for s in shape if not (is_pyint(s) and s == -1)]
    nminus = len(shape) - len(known)
    if nminus > 1:
        raise PyRaise("ValueError", "can only specify one unknown dimension")
    flat = flatten(a, "C") if a.ndim != 1 else a
    ff = flat.snapshot_fn()
    fax = flat.axes[0]
    c = cur()
    # common cases decided structurally -------------------------------------------------
    if nminus == 1 and all(is_pyint(s) and s == 1 for s in known):
        # (-1, 1), (1, -1), (-1,)
        ax = tuple((1,) if (is_pyint(s) and s == 1) else fax for s in shape)
        pos = [k for k, s in enumerate(shape) if is_pyint(s) and s == -1][0]
        return Arr(ax, lambda idx: ff((idx[pos],)), a.kind)
    if nminus == 1:
        kp = prod(known)
        # -1 is total / kp : try to peel factors
        pos = [k for k, s in enumerate(shape) if is_pyint(s) and s == -1][0]
        if pos == len(shape) - 1:
            # leading known dims must match a prefix of the factor list
            got = _match_prefix(fax, known)
            if got is not None:
                lead, rest = got
                if not rest:
                    rest = (1,)
                ax = tuple(lead) + (tuple(rest),)
                return _reshape_by_factors(ff, fax, ax, a.kind)
        if pos == 0:
            got = _match_suffix(fax, known)
            if got is not None:
                rest, tail = got
                if not rest:
                    rest = (1,)
                ax = (tuple(rest),) + tuple(tail)
                return _reshape_by_factors(ff, fax, ax, a.kind)
        # general: quotient
        missing = sym.idiv(total, kp) if not (is_pyint(total) and is_pyint(kp)) else total // kp
        c.oblige("safe", "reshape", zi(missing) * zi(kp) == zi(total), {"what": "reshape size"})
        shape = tuple(missing if (is_pyint(s) and s == -1) else s for s in shape)
    else:
        if not sym.int_eq_syntactic(prod(shape), total):
            if c.branch(zi(prod(shape)) != zi(total)):
                raise PyRaise("ValueError", "cannot reshape array")
    got = _match_prefix(fax, list(shape))
    if got is not None and not got[1]:
        return _reshape_by_factors(ff, fax, tuple(got[0]), a.kind)
    # fall back: flat index arithmetic
    ax = tuple((s,) for s in shape)

    def fn(idx):
        fl = flat_index(tuple(t[0] for t in idx), tuple(shape))
        return ff((split_index(fl, fax),))
    return Arr(ax, fn, a.kind)


def _match_prefix(fax, dims):
    """try to write dims[k] as products of consecutive factors of fax; returns (axes, rest)."""
    p = 0
    out = []
    for d in dims:
        if is_pyint(d) and d == 1:
            out.append((1,))
            continue
        acc = []
        ok = False
        while p < len(fax):
            acc.append(fax[p])
            p += 1
            if sym.int_eq_syntactic(prod(acc), d):
                ok = True
                break
        if not ok:
            return None
        out.append(tuple(acc))
    return out, tuple(fax[p:])


def _match_suffix(fax, dims):
    r = _match_prefix(tuple(reversed(fax)), list(reversed(dims)))
    if r is None:
        return None
    lead, rest = r
    return tuple(reversed(rest)), [tuple(reversed(t)) for t in reversed(lead)]


def _reshape_by_factors(ff, fax, axes, kind):
    def fn(idx):
        t = []
        for sub, ax in zip(idx, axes):
            if _is_one(ax):
                continue
            t.extend(sub)
        if len(t) != len(fax):
            # a (1,) axis standing for an empty factor list
            t = list(t) + [0] * (len(fax) - len(t))
        return ff((tuple(t),))
    return Arr(axes, fn, kind)


# ----------------------------------------------------------------------------------
# stacking
# ----------------------------------------------------------------------------------


def _stack_axis(items, axis):
    """concatenate arrays (list, or Seq with uniform extents) along `axis`."""
    if isinstance(items, Seq):
        n = items.length
        probe = items.get(probe_index(n))
        if not isinstance(probe, Arr):
            raise Unsupported("stack of a symbolic list of non-arrays")
        nd = probe.ndim
        axis %= nd
        # extents along `axis` must not depend on the element index: checked structurally by
        # evaluating at two different indices
        p2 = items.get(probe_index(n))
        if not same_axes(probe.axes[axis], p2.axes[axis]):
            raise Unsupported("stack of a symbolic list with varying block extents")
        ax = list(probe.axes)
        ax[axis] = (n,) + tuple(probe.axes[axis])

        def fn(idx, items=items):
            blk = idx[axis][0]
            o = list(idx)
            o[axis] = tuple(idx[axis][1:])
            return items.get(blk).cell(tuple(o))
        return Arr(tuple(ax), fn, probe.kind)
    items = [asarray(x) for x in items]
    if not items:
        raise PyRaise("ValueError", "need at least one array to concatenate")
    nd = items[0].ndim
    axis %= nd
    if len(items) == 1:
        a = items[0]
        return Arr(a.axes, a.snapshot_fn(), a.kind)
    k = items[0].kind
    for e in items[1:]:
        k = sym.kind_join(k, e.kind)
    uniform = all(same_axes(e.axes[axis], items[0].axes[axis]) for e in items[1:])
    snaps = [e.snapshot_fn() for e in items]
    other = [a for j, a in enumerate(items[0].axes) if j != axis]
    c = cur()
    for e in items[1:]:
        if e.ndim != nd:
            raise PyRaise("ValueError", "all the input array dimensions must match")
        for j in range(nd):
            if j != axis and not sym.int_eq_syntactic(e.extent(j), items[0].extent(j)):
                c.oblige("safe", "shape", zi(e.extent(j)) == zi(items[0].extent(j)),
                         {"what": "stacked arrays agree on the other axes"})
    if uniform:
        ax = list(items[0].axes)
        ax[axis] = (len(items),) + tuple(items[0].axes[axis])

        def fn(idx):
            blk = idx[axis][0]
            o = list(idx)
            o[axis] = tuple(idx[axis][1:])
            o = tuple(o)
            vals = [(lambda e=e, f=f: sym.cast(_conv_read(e, o, [a if j != axis else e.axes[axis] for j, a in enumerate(items[0].axes)], f)(), k)) for e, f in zip(items, snaps)]
            if is_pyint(blk):
                return vals[blk]()
            r = vals[-1]()
            for j in range(len(vals) - 2, -1, -1):
                r = ite(zi(blk) == j, vals[j](), r)
            return r
        return Arr(tuple(ax), fn, k)
    # ragged: single-factor axis, piecewise on the flat index
    offs = [0]
    for e in items:
        offs.append(sym.add(offs[-1], e.extent(axis)))
    ax = list(items[0].axes)
    ax[axis] = (simp(zi(offs[-1])) if not is_pyint(offs[-1]) else offs[-1],)

    def fn(idx):
        fl = idx[axis][0]

        def rd(j):
            e = items[j]
            o = list(idx)
            local = sym.sub(fl, offs[j])
            ext_j = e.extent(axis)
            if not (is_pyint(local) and is_pyint(ext_j)):
                inr = And_(sym.le(0, local), sym.lt(local, ext_j))
                if not cur().is_valid(zb(inr) if not isinstance(inr, bool) else inr):
                    # outside its block this reader's value is discarded by the enclosing ite: read a clamped index so
                    # that the index facts of the block apply
                    local = ite(inr, local, 0)
            o[axis] = split_index(local, e.axes[axis])
            tgt = [a if jj != axis else e.axes[axis] for jj, a in enumerate(items[0].axes)]
            return sym.cast(_conv_read(e, tuple(o), tgt, snaps[j])(), k)
        r = rd(len(items) - 1)
        for j in range(len(items) - 2, -1, -1):
            cond = sym.lt(fl, offs[j + 1])
            if isinstance(cond, bool):
                r = rd(j) if cond else r
            else:
                r = ite(cond, rd(j), r)
        return r
    return Arr(tuple(ax), fn, k)


def vstack(items):
    items = _prep_items(items, lambda a: expand_dims(a, 0) if a.ndim == 1 else a)
    return _stack_axis(items, 0)


def hstack(items):
    items = _prep_items(items, lambda a: a)
    nd = _first_ndim(items)
    return _stack_axis(items, 0 if nd == 1 else 1)


def concatenate(items, axis=0):
    items = _prep_items(items, lambda a: a)
    return _stack_axis(items, axis)


def _first_ndim(items):
    if isinstance(items, Seq):
        return items.get(probe_index(items.length)).ndim
    return asarray(items[0]).ndim


def _prep_items(items, f):
    if isinstance(items, Seq):
        return Seq(items.length, lambda k, items=items: f(asarray(items.get(k))))
    if isinstance(items, Arr):
        # stacking the sub-arrays of an array along its first axis
        raise Unsupported("stack of an ndarray")
    return [f(asarray(x)) for x in items]


def delete(a, obj, axis=None):
    """np.delete(a, obj, axis): the entries of `a` along `axis` whose index is not in `obj`, in ascending index
    order.  `obj` must carry an enumeration of its complement (meta['rov'](n) -> (count, b -> index)): the
    strictly increasing enumeration of range(n) minus obj (list lemma A7)."""
    a = asarray(a)
    if a.ndim != 1 and axis is None:
        raise Unsupported("np.delete without axis on a matrix")
    axis = 0 if axis is None else axis % a.ndim
    meta = getattr(obj, "meta", None)
    if isinstance(obj, (list, tuple)) and not obj:
        return a.copy()
    if not meta or "rov" not in meta:
        raise Unsupported("np.delete with an index list that has no complement enumeration")
    n = a.extent(axis)
    count, enum = meta["rov"](n)
    f = a.snapshot_fn()
    ax = a.axes[axis]
    axes = list(a.axes)
    axes[axis] = (count,)

    def fn(idx):
        o = list(idx)
        o[axis] = split_index(enum(idx[axis][0]), ax)
        return f(tuple(o))
    return Arr(tuple(axes), fn, a.kind)


# ----------------------------------------------------------------------------------
# indexing
# ----------------------------------------------------------------------------------


class MaskSel:
    """a[mask] for a boolean mask: only usable as the right-hand side of b[mask] = a[mask]
    and in a few reductions."""

    def __init__(self, arr, mask):
        self.arr = arr
        self.mask = mask
        self.fn = arr.snapshot_fn()
        self.mfn = mask.snapshot_fn()


def _norm_bound(b, n, default):
    """slice bound -> non-clamped index in [0, n] (forks on the sign/clamping cases)."""
    if b is None:
        return default
    if not is_int(b):
        b = sym.to_int(b) if isinstance(b, (F, float)) else b
        if not is_int(b):
            raise Unsupported(f"slice bound of type {type(b).__name__}")
    c = cur()

    def decide(cond):
        # prefer a validity check (no fork) over a case split
        if c.is_valid(cond):
            return True
        return c.branch(cond)
    if is_pyint(b):
        if b >= 0:
            if is_pyint(n):
                return min(b, n)
            if b == 0:
                return 0
            return b if decide(zi(n) >= b) else n
        r = sym.add(n, b)
        if is_pyint(r):
            return max(r, 0)
        return r if decide(zi(r) >= 0) else 0
    if decide(zi(b) >= 0):
        return b if decide(zi(b) <= zi(n)) else n
    r = sym.add(n, b)
    return r if decide(zi(r) >= 0) else 0


def getitem(a, key):
    if not isinstance(key, tuple):
        key = (key,)
    a = asarray(a)
    c = cur()
    # boolean mask
    if len(key) == 1 and isinstance(key[0], Arr) and key[0].kind == "bool":
        return MaskSel(a, key[0])
    if any(k is Ellipsis for k in key):
        raise Unsupported("Ellipsis index")
    nidx = sum(1 for k in key if k is not None)
    if nidx > a.ndim:
        raise PyRaise("IndexError", "too many indices for array")
    key = list(key) + [slice(None)] * (a.ndim - nidx)
    f = a.snapshot_fn()
    res_axes = []
    maps = []     # per source axis: function(res_idx) -> factor tuple
    src = 0
    fancy = [k for k in key if isinstance(k, (Arr, list, Seq))]
    if len(fancy) > 1:
        raise Unsupported("more than one array index")
    for k in key:
        if k is None:
            res_axes.append((1,))
            continue
        ax = a.axes[src]
        n = prod(ax)
        if isinstance(k, slice):
            if k.step is not None and not (is_pyint(k.step) and k.step in (1, -1)):
                raise Unsupported("slice step other than 1/-1")
            if k.step == -1:
                if k.start is not None or k.stop is not None:
                    raise Unsupported("reversed slice with bounds")
                pos = len(res_axes)
                res_axes.append((n,))
                maps.append(lambda idx, pos=pos, n=n, ax=ax: split_index(sym.sub(sym.sub(n, 1), idx[pos][0]), ax))
            elif k.start is None and k.stop is None:
                pos = len(res_axes)
                res_axes.append(ax)
                maps.append(lambda idx, pos=pos: idx[pos])
            else:
                lo = _norm_bound(k.start, n, 0)
                hi = _norm_bound(k.stop, n, n)
                if a.ndim <= 3:
                    note_offset(lo)
                ln = sym.sub(hi, lo)
                if is_pyint(ln):
                    ln = max(ln, 0)
                elif not c.branch(zi(ln) >= 0):
                    ln = 0
                pos = len(res_axes)
                # slicing whole leading blocks of a structured axis keeps the structure
                blk = _block_slice(ax, lo, ln)
                if blk is not None:
                    nax, off = blk
                    res_axes.append(nax)
                    maps.append(lambda idx, pos=pos, off=off: (sym.add(idx[pos][0], off),) + tuple(idx[pos][1:]))
                else:
                    res_axes.append((ln,))
                    maps.append(lambda idx, pos=pos, lo=lo, ax=ax: split_index(sym.add(idx[pos][0], lo), ax))
        elif isinstance(k, (Arr, list, Seq)):
            ia = asarray(k)
            if ia.kind == "bool":
                raise Unsupported("boolean mask combined with other indices")
            pos = len(res_axes)
            nfa = ia.ndim
            res_axes.extend(ia.axes)
            iaf = ia.snapshot_fn()

            def mp(idx, pos=pos, nfa=nfa, iaf=iaf, ax=ax, n=n):
                v = iaf(tuple(idx[pos:pos + nfa]))
                v = sym.to_int(v) if not is_int(v) else v
                if is_pyint(v):
                    v = v if v >= 0 else sym.add(v, n)
                elif not cur().is_valid(zi(v) >= 0):
                    v = ite(zi(v) < 0, sym.add(v, n), v)
                return split_index(v, ax)
            maps.append(mp)
            # bounds of every index element
            sk = ia.skolem("fi") if ia.ndim else ()
            v = iaf(sk)
            c.oblige("safe", "idx", And_(zi(v) >= -zi(n), zi(v) < zi(n)),
                     {"what": "fancy index within bounds"})
        else:
            if isinstance(k, (F, float)):
                raise PyRaise("IndexError", "only integers ... are valid indices")
            if isinstance(k, Arr):
                k = k.cell(())
            if not is_int(k):
                raise Unsupported(f"index of type {type(k).__name__}")
            if is_pyint(k) and k < 0:
                kk = sym.add(n, k)
            elif is_pyint(k):
                kk = k
            else:
                kk = ite(zi(k) < 0, sym.add(k, n), k) if not c.is_valid(zi(k) >= 0) else k
            bad = Or_(sym.lt(kk, 0), sym.le(n, kk))
            if c.branch(zb(bad) if not isinstance(bad, bool) else bad):
                raise PyRaise("IndexError", "index out of bounds")
            maps.append(lambda idx, kk=kk, ax=ax: split_index(kk, ax))
        src += 1

    def fn(idx):
        return f(tuple(m(idx) for m in maps))
    term = None
    if a.term is not None:
        term = _term_getitem(a, key)
    out = Arr(tuple(res_axes), fn, a.kind, term=term)
    if out.ndim == 0:
        return out.cell(())
    if not fancy:
        # basic indexing returns a VIEW in NumPy: the model builds a separate value, so an in-place write through it (x /= .., x[i] = ..)
        # would not reach the base - such writes are refused (see interp.s_AugAssign / setitem) rather than modelled wrongly
        out.meta["view_of"] = a
    if a.vecfn is not None and isinstance(key[-1], slice) and key[-1].start is None and key[-1].stop is None \
            and key[-1].step is None and not any(k is None for k in key):
        av = a.vecfn
        lead_maps = maps[:-1]
        out.vecfn = lambda lead, av=av, lead_maps=lead_maps: av(tuple(m(tuple(lead) + ((0,),)) for m in lead_maps))
    return out


def _block_slice(ax, lo, ln):
    """a slice [lo, lo+ln) of a structured axis (n0, rest...) that is a whole number of leading
    blocks: lo = b0*R, ln = nb*R (R = prod(rest)) -> ((nb,)+rest, b0)."""
    if len(ax) < 2:
        return None
    R = prod(ax[1:])
    for cand_lo, cand_ln in ((lo, ln),):
        b0 = _div_exact(cand_lo, R)
        nb = _div_exact(cand_ln, R)
        if b0 is not None and nb is not None:
            return (nb,) + tuple(ax[1:]), b0
    return None


def _div_exact(x, R):
    """x / R if x is syntactically k*R."""
    if is_pyint(x) and x == 0:
        return 0
    if is_pyint(x) and is_pyint(R):
        return x // R if x % R == 0 else None
    if sym.int_eq_syntactic(x, R):
        return 1
    xe = z3.simplify(zi(x))
    Re = z3.simplify(zi(R))
    # try small structural patterns: x = k*R with k an argument of a product
    if z3.is_mul(xe):
        args = list(xe.children())
        for j, arg in enumerate(args):
            rest = args[:j] + args[j + 1:]
            pr = rest[0]
            for r in rest[1:]:
                pr = pr * r
            if sym.int_eq_syntactic(pr, Re):
                return simp(arg)
    return None


def _term_getitem(a, key):
    from . import matmodel
    return matmodel.getitem_term(a, key)


def setitem(a, key, val):
    """a[key] = val (in place)."""
    if not isinstance(a, Arr):
        raise Unsupported("subscript store on a non-array")
    if a.meta.get("view_of") is not None:
        raise Unsupported("store into a view of another array (basic slice / transpose): the write-through to the base is not modelled")
    if not isinstance(key, tuple):
        key = (key,)
    c = cur()
    old = a.snapshot_fn()
    kind = a.kind
    # boolean-mask store -----------------------------------------------------------
    if len(key) == 1 and isinstance(key[0], Arr) and key[0].kind == "bool":
        m = key[0]
        mfn = m.snapshot_fn()
        if not all(same_axes(x, y) for x, y in zip(m.axes, a.axes)) or m.ndim != a.ndim:
            if m.ndim != a.ndim:
                raise Unsupported("mask of different rank")
            a2 = a.restructure(m.axes)
            old = a2.snapshot_fn()
            a.axes = m.axes
        if isinstance(val, MaskSel):
            if val.mask is not m:
                raise Unsupported("x[m] = y[m2] with different masks")
            vfn = val.fn
            vk = val.arr.kind
            a.set_fn(lambda idx: ite(sym.truthy_scalar(mfn(idx)), sym.cast(_rd(vfn, val.arr, idx, a), kind), old(idx)))
            return
        if not is_scalar(val):
            raise Unsupported("x[mask] = array")
        v = sym.cast(val, kind)
        a.set_fn(lambda idx: ite(sym.truthy_scalar(mfn(idx)), v, old(idx)))
        return
    if any(k is None or k is Ellipsis for k in key):
        raise Unsupported("newaxis/Ellipsis in subscript store")
    if len(key) > a.ndim:
        raise PyRaise("IndexError", "too many indices")
    key = list(key) + [slice(None)] * (a.ndim - len(key))
    conds = []     # per axis: idx -> bool
    vmaps = []     # for sliced axes: idx -> index tuple into val axis
    new_axes = list(a.axes)
    for j, k in enumerate(key):
        ax = a.axes[j]
        n = prod(ax)
        if isinstance(k, slice):
            if k.step is not None and not (is_pyint(k.step) and k.step == 1):
                raise Unsupported("slice step in store")
            if k.start is None and k.stop is None:
                conds.append(None)
                vmaps.append(("full", j))
            else:
                lo = _norm_bound(k.start, n, 0)
                hi = _norm_bound(k.stop, n, n)
                conds.append(("range", j, lo, hi))
                vmaps.append(("off", j, lo))
        elif isinstance(k, (Arr, list, Seq)):
            raise Unsupported("fancy index in subscript store")
        else:
            if isinstance(k, Arr):
                k = k.cell(())
            if not is_int(k):
                raise Unsupported(f"store index of type {type(k).__name__}")
            kk = k
            if is_pyint(k) and k < 0:
                kk = sym.add(n, k)
            bad = Or_(sym.lt(kk, 0), sym.le(n, kk))
            if c.branch(zb(bad) if not isinstance(bad, bool) else bad):
                raise PyRaise("IndexError", "index out of bounds")
            conds.append(("eq", j, kk))
    # value
    if isinstance(val, (list, tuple, Seq)):
        val = asarray(val)
    if isinstance(val, Arr) and val.ndim == 0:
        val = val.cell(())
    if isinstance(val, Arr):
        vfn = val.snapshot_fn()
        # align val axes with the sliced axes (trailing alignment, broadcasting of 1)
        nsl = len(vmaps)
        if val.ndim > nsl:
            # leading axes of extent 1 may be dropped
            drop = val.ndim - nsl
            if not all(_is_one(x) for x in val.axes[:drop]):
                raise PyRaise("ValueError", "could not broadcast input array")
        vaxes = val.axes
        # adopt the structure of val on fully-sliced, unstructured axes of a fill array
        for q, vm in enumerate(vmaps):
            vpos = q + (val.ndim - nsl)
            if vpos < 0:
                continue
            if vm[0] == "full":
                j = vm[1]
                if not same_axes(a.axes[j], vaxes[vpos]) and not _is_one(vaxes[vpos]):
                    if not sym.int_eq_syntactic(prod(a.axes[j]), prod(vaxes[vpos])):
                        c.oblige("safe", "shape", zi(prod(a.axes[j])) == zi(prod(vaxes[vpos])),
                                 {"what": "stored value matches the target extent"})
                    if len(a.axes[j]) == 1 and len(vaxes[vpos]) > 1:
                        new_axes[j] = vaxes[vpos]
            elif vm[0] == "off":
                j, lo = vm[1], vm[2]
                hi = conds[j][3]
                if not _is_one(vaxes[vpos]):
                    ext = sym.sub(hi, lo)
                    if not sym.int_eq_syntactic(ext, prod(vaxes[vpos])):
                        c.oblige("safe", "shape", zi(ext) == zi(prod(vaxes[vpos])),
                                 {"what": "stored value matches the target slice length"})
        if tuple(new_axes) != tuple(a.axes):
            a2 = a.restructure(new_axes)
            old = a2.snapshot_fn()
            a.axes = tuple(new_axes)
        axes_now = a.axes
        vk = val.kind

        def valat(idx):
            o = []
            for q, vm in enumerate(vmaps):
                vpos = q + (val.ndim - nsl)
                if vpos < 0:
                    continue
                vax = vaxes[vpos]
                if _is_one(vax):
                    o.append((0,))
                    continue
                j = vm[1]
                if vm[0] == "full":
                    if same_axes(axes_now[j], vax):
                        o.append(idx[j])
                    else:
                        o.append(split_index(flat_index(idx[j], axes_now[j]), vax))
                else:
                    fl = sym.sub(flat_index(idx[j], axes_now[j]), vm[2])
                    o.append(split_index(fl, vax))
            o = [(0,)] * (val.ndim - len(o)) + o
            return vfn(tuple(o))
        kind = sym.kind_join(kind, "bool") if False else kind
    else:
        if not is_scalar(val) and val is not None:
            raise Unsupported(f"store of {type(val).__name__} into an array")
        axes_now = a.axes
        v = sym.cast(val, kind) if a.kind != "obj" else val

        def valat(idx):
            return v

    def cond_at(idx):
        cs = []
        for cd in conds:
            if cd is None:
                continue
            if cd[0] == "eq":
                j, kk = cd[1], cd[2]
                cs.append(sym.eq(flat_index(idx[j], axes_now[j]), kk))
            else:
                j, lo, hi = cd[1], cd[2], cd[3]
                fl = flat_index(idx[j], axes_now[j])
                cs.append(And_(sym.le(lo, fl), sym.lt(fl, hi)))
        return And_(*cs)

    def fn(idx):
        cd = cond_at(idx)
        if isinstance(cd, bool):
            return sym.cast(valat(idx), kind) if cd else old(idx)
        nv = valat(idx)
        return ite(cd, sym.cast(nv, kind), old(idx))
    a.set_fn(fn)


def _rd(vfn, varr, idx, a):
    o = []
    for t, na, oa in zip(idx, a.axes, varr.axes):
        o.append(t if same_axes(na, oa) else split_index(flat_index(t, na), oa))
    return vfn(tuple(o))


# ----------------------------------------------------------------------------------
# lazy sums
# ----------------------------------------------------------------------------------


def _depends(e, ids):
    st = [e]
    seen = set()
    while st:
        x = st.pop()
        if x.get_id() in seen:
            continue
        seen.add(x.get_id())
        if x.get_id() in ids:
            return True
        st.extend(x.children())
    return False


def factor_out(e, bvars):
    """real expression -> (independent factor, dependent part): pulls multiplicative factors that do not
    mention the bound variables out of a summand (sum_t c*f(t) = c * sum_t f(t)); common independent factors of
    the terms of a sum are pulled out as well."""
    ids = {v.get_id() for v in bvars}

    def fac(x):
        """-> (list of independent symbolic factors, dependent expression or None)"""
        if z3.is_rational_value(x) or z3.is_int_value(x):
            return [], x
        if not _depends(x, ids):
            return [x], None
        if z3.is_mul(x):
            ind, dep = [], None
            for ch in x.children():
                i2, d2 = fac(ch)
                ind += i2
                if d2 is not None:
                    dep = d2 if dep is None else dep * d2
            return ind, dep
        if z3.is_div(x) and not _depends(x.arg(1), ids):
            i2, d2 = fac(x.arg(0))
            return i2 + [1 / x.arg(1)], d2
        if z3.is_app(x) and x.decl().kind() == z3.Z3_OP_UMINUS:
            i2, d2 = fac(x.arg(0))
            return i2, (-d2 if d2 is not None else z3.RealVal(-1))
        if z3.is_add(x) or z3.is_sub(x):
            parts = [fac(ch) for ch in x.children()]
            keys = [[z3.simplify(f).sexpr() for f in p[0]] for p in parts]
            common = list(keys[0])
            for ks in keys[1:]:
                rest = list(ks)
                nc = []
                for k_ in common:
                    if k_ in rest:
                        rest.remove(k_)
                        nc.append(k_)
                common = nc
            ind = []
            acc = None
            for j, (p, ks) in enumerate(zip(parts, keys)):
                need = list(common)
                d = p[1] if p[1] is not None else z3.RealVal(1)
                for f, k_ in zip(p[0], ks):
                    if k_ in need:
                        need.remove(k_)
                        if j == 0:
                            ind.append(f)
                    else:
                        d = d * f
                if acc is None:
                    acc = d
                elif z3.is_sub(x):
                    acc = acc - d
                else:
                    acc = acc + d
            return ind, acc
        return [], x
    ind, dep = fac(e)
    fi = z3.RealVal(1)
    for x in ind:
        fi = fi * x
    if dep is None:
        return z3.simplify(fi), None
    dep = z3.simplify(dep)
    if z3.is_rational_value(dep):
        return z3.simplify(fi * dep), None
    # canonical form of a monomial: numeric coefficient to the independent part, factors sorted by their text
    if z3.is_mul(dep):
        num = z3.RealVal(1)
        fs_ = []
        st = list(dep.children())
        while st:
            x = st.pop()
            if z3.is_mul(x):
                st.extend(x.children())
            elif z3.is_rational_value(x):
                num = num * x
            else:
                fs_.append(x)
        fs_.sort(key=lambda x: x.sexpr())
        dep = fs_[0]
        for x in fs_[1:]:
            dep = dep * x
        fi = fi * num
    return z3.simplify(fi), dep


class SumInfo:
    def __init__(self, extents, summand, comps):
        self.extents = extents      # tuple of extents (one per bound variable)
        self.summand = summand      # fn(tuple of ints) -> scalar
        self.comps = comps          # the z3 constants standing for the sum


def make_sum(extents, summand):
    """sum over t in prod(range(extents)) of summand(t); returns a scalar (int, F or C) whose
    components are constants memoised by the summand's syntactic form."""
    c = cur()
    extents = tuple(extents)
    if any(is_pyint(n) and n == 0 for n in extents):
        return F(False, z3.RealVal(0))
    tot = prod(extents)
    lim = 8 if getattr(c, "tol", None) is None else 20000
    if is_pyint(tot) and tot <= lim and all(is_pyint(n) for n in extents):
        # tiny concrete sums are unfolded
        import itertools
        acc = None
        for t in itertools.product(*[range(n) for n in extents]):
            v = summand(t)
            acc = v if acc is None else sym.add(acc, v)
        return acc
    depth = c.memo.get("sumdepth", 0)
    outer = c.memo.setdefault("sumouter", [])
    bvars = tuple(z3.Int(f"t!{depth}!{j}") for j in range(len(extents)))
    c.memo["sumdepth"] = depth + 1
    outer.append(bvars)
    c.numpy_mode += 1
    try:
        body = summand(bvars)
    finally:
        c.numpy_mode -= 1
        outer.pop()
        c.memo["sumdepth"] = depth
    k = sym.kind_of(body)
    ovars = [v for vs in outer for v in vs]
    exts = tuple(zi(n).sexpr() for n in extents)

    bids = {v.get_id() for v in bvars}

    def free_consts(exprs):
        out = []
        seen = set()
        for e in exprs:
            st = [e]
            while st:
                x = st.pop()
                if x.get_id() in seen:
                    continue
                seen.add(x.get_id())
                if z3.is_const(x) and x.decl().kind() == z3.Z3_OP_UNINTERPRETED and x.get_id() not in bids \
                        and x.sort() in (z3.IntSort(), z3.RealSort(), z3.BoolSort()):
                    out.append(x)
                    continue
                st.extend(reversed(x.children()))
        return out

    def mk(expr, sort, tag):
        """the sum as an uninterpreted function of the free constants of its summand (so that sums over the same
        template at provably equal parameters are equal by congruence)"""
        e = c.rewrite(z3.simplify(expr))
        ext_e = [c.rewrite(zi(n)) if not is_pyint(n) else z3.IntVal(n) for n in extents]
        tk, free = sym.template_of([e] + ext_e, bids)
        key = ("sum", tag, tk)
        decl = c.memo.get(key)
        if decl is None:
            nm = c.fresh_name("SUM" + tag)
            decl = z3.Function(nm, *[x.sort() for x in free], sort) if free else z3.Const(nm, sort)
            c.memo[key] = decl
        return decl(*free) if free else decl
    sums = c.memo.setdefault("sums", {})
    if k in ("int", "bool"):
        body = sym.b2i(body)
        s = mk(zi(body), z3.IntSort(), "i")
        sums[s.sexpr()] = SumInfo(extents, summand, (s,))
        return s
    rng_b = And_(*[And_(bv >= 0, bv < zi(n)) for bv, n in zip(bvars, extents)])

    def nanflag(nan):
        """non-finite iff some summand is: decided statically when possible, else a Boolean with a witness"""
        if nan is False:
            return False
        if not ovars:
            ck = ("sumnan-static", z3.simplify(zb(nan)).sexpr(), tuple(zi(n).sexpr() for n in extents))
            hit = c.memo.get(ck)
            if hit is None:
                hit = c.is_valid(zb(Implies_(rng_b, Not_(nan))))
                c.memo[ck] = hit
            if hit:
                return False
        b = mk(zb(nan), z3.BoolSort(), "n")
        key = ("sumnan", b.sexpr())
        if key not in c.memo and not ovars:
            c.memo[key] = True
            w = tuple(c.fresh_int("wn") for _ in extents)

            def nan_at(t):
                c.numpy_mode += 1
                try:
                    return sym.isnan_(summand(t))
                finally:
                    c.numpy_mode -= 1
            c.fact(z3.Implies(b, z3.And(*[z3.And(x >= 0, x < zi(n)) for x, n in zip(w, extents)], zb(nan_at(w)))))
            add_qfact(extents, lambda m: Implies_(nan_at(m), b), "sum.nan")
            ground(*w)
            ground(*[0 for _ in extents])       # the first summand (in range whenever the sum is not empty)
        return b

    def real_sum(expr, tag):
        """sum of a real summand: expanded into monomials, each with its summation-independent coefficient pulled
        out: sum_t (c1*m1(t) + c2*m2(t) + ...) = c1*SUM(m1) + c2*SUM(m2) + ..."""
        e = z3.simplify(expr, som=True)
        terms = list(e.children()) if z3.is_add(e) else [e]
        acc = None
        for t in terms:
            coef, dep = factor_out(t, bvars)
            if dep is None:
                part = coef * z3.ToReal(zi(tot)) if not is_pyint(tot) else coef * z3.RealVal(tot)
            else:
                v = mk(dep, z3.RealSort(), tag)
                if v.sexpr() not in sums:
                    sums[v.sexpr()] = SumInfo(extents, _unit(dep), (v,))
                part = coef * v
            acc = part if acc is None else acc + part
        return z3.simplify(acc)

    def _unit(dep):
        def f(t, dep=dep):
            return F(False, z3.substitute(dep, *[(bv, zi(x)) for bv, x in zip(bvars, t)]))
        return f
    sums = c.memo.setdefault("sums", {})
    if k in ("int", "bool"):
        body = sym.b2i(body)
        s = mk(zi(body), z3.IntSort(), "i")
        sums[s.sexpr()] = SumInfo(extents, summand, (s,))
        return s
    if k == "float":
        body = sym.toF(body)
        nan = nanflag(body.nan)
        return F(nan, real_sum(body.v, "r"))
    body = sym.toC(body)
    nan = nanflag(body.nan)
    return C(nan, real_sum(body.re, "r"), real_sum(body.im, "r"))


def _unused_old_sum_tail():
    body = None


def sum_info(v):
    """SumInfo of a scalar produced by make_sum (or None)."""
    c = cur()
    sums = c.memo.get("sums", {})
    if isinstance(v, F):
        e = v.v
    elif isinstance(v, C):
        e = v.re
    elif isinstance(v, z3.ExprRef):
        e = v
    else:
        return None
    return sums.get(e.sexpr())


def dot(a, b):
    a = asarray(a) if not isinstance(a, Arr) else a
    b = asarray(b) if not isinstance(b, Arr) else b
    if a.ndim == 0 or b.ndim == 0:
        return multiply(a, b)
    if (a.term is not None or b.term is not None) and a.ndim <= 2 and b.ndim <= 2:
        from . import matmodel
        return matmodel.matmul(a, b)
    c = cur()
    ka = a.axes[-1]
    kb = b.axes[0] if b.ndim == 1 else b.axes[-2]
    if not sym.int_eq_syntactic(prod(ka), prod(kb)):
        c.oblige("safe", "shape", zi(prod(ka)) == zi(prod(kb)), {"what": "inner dimensions of dot agree"})
    fa = a.snapshot_fn()
    fb = b.snapshot_fn()
    kind = sym.kind_join(sym.kind_join(a.kind, b.kind), "int")
    if kind == "bool":
        kind = "int"
    if b.ndim > 2 or a.ndim > 2:
        raise Unsupported("dot of arrays with more than 2 dimensions")
    res_axes = tuple(a.axes[:-1]) + (tuple(b.axes[-1:]) if b.ndim == 2 else ())

    def cellfn(idx):
        ia = idx[: a.ndim - 1]
        ib = idx[a.ndim - 1:]

        def summand(t):
            tb = t if same_axes(ka, kb) else split_index(flat_index(t, ka), kb)
            x = fa(tuple(ia) + (tuple(t),))
            y = fb((tuple(tb),) + tuple(ib)) if b.ndim == 2 else fb((tuple(tb),))
            return sym.mul(x, y)
        return make_sum(ka, summand)
    out = Arr(res_axes, cellfn, kind)
    if out.ndim == 0:
        return out.cell(())
    return out


def matmul(a, b):
    return dot(a, b)


def sum_(a, axis=None):
    if isinstance(a, (list, tuple)) and all(is_scalar(x) for x in a):
        acc = 0
        for x in a:
            acc = sym.add(acc, x)
        return acc
    a = asarray(a)
    f = a.snapshot_fn()
    if axis is None:
        fac = tuple(x for ax in a.axes for x in ax)

        def summand(t):
            o = []
            p = 0
            for ax in a.axes:
                o.append(tuple(t[p:p + len(ax)]))
                p += len(ax)
            return f(tuple(o))
        return make_sum(fac, summand)
    axis %= a.ndim
    res_axes = tuple(ax for j, ax in enumerate(a.axes) if j != axis)
    red = a.axes[axis]

    def cellfn(idx):
        def summand(t):
            o = list(idx)
            o.insert(axis, tuple(t))
            return f(tuple(o))
        return make_sum(red, summand)
    out = Arr(res_axes, cellfn, a.kind if a.kind != "bool" else "int")
    return out if out.ndim else out.cell(())


def nansum(a, axis=None):
    """np.nansum: non-finite entries count as zero"""
    a = asarray(a)

    def z(x):
        if isinstance(x, C):
            return C(False, z3.If(zb(x.nan), z3.RealVal(0), x.re), z3.If(zb(x.nan), z3.RealVal(0), x.im))
        x = sym.toF(x)
        return F(False, z3.If(zb(x.nan), z3.RealVal(0), x.v))
    return sum_(elementwise(z, a, kind=a.kind if a.kind in ("float", "complex") else "float"), axis)


def mean(a, axis=None):
    a = asarray(a)
    s = sum_(a, axis)
    n = prod(tuple(x for ax in a.axes for x in ax)) if axis is None else a.extent(axis % a.ndim)
    return divide(s, n)


def std(a, axis=None, ddof=0):
    """standard deviation with `ddof` delta degrees of freedom (np.std's default 0 = population formula)."""
    a = asarray(a)
    if not (is_pyint(ddof) and ddof == 0):
        m = mean(a, axis)
        d = subtract(a, expand_dims(m, axis % a.ndim) if (axis is not None and isinstance(m, Arr)) else m)
        sq = elementwise(lambda x: sym.mul(sym.abs_(x), sym.abs_(x)), d, kind="float")
        n = prod(tuple(x for ax in a.axes for x in ax)) if axis is None else a.extent(axis % a.ndim)
        return sqrt(divide(sum_(sq, axis), sym.sub(n, ddof)))
    m = mean(a, axis)
    if axis is None:
        d = subtract(a, m)
    else:
        d = subtract(a, expand_dims(m, axis % a.ndim) if isinstance(m, Arr) else m)
    sq = elementwise(lambda x: sym.mul(sym.abs_(x), sym.abs_(x)), d, kind="float")
    return sqrt(mean(sq, axis))


# ----------------------------------------------------------------------------------
# opaque reductions
# ----------------------------------------------------------------------------------


def _vec(a):
    a = asarray(a)
    if a.ndim != 1:
        a = flatten(a)
    return a


def _bound_vars(n, tag):
    return tuple(z3.Int(f"{tag}!{j}") for j in range(n))


def _argext(a, better, skip_nan, name, total=False):
    """first index k such that no element is strictly `better` than a[k].
    skip_nan: NaN entries are ignored and an all-NaN input raises ValueError (total=True: returns
    (all_nan, k) instead of raising)."""
    a = _vec(a)
    c = cur()
    ax = a.axes[0]
    if len(ax) != 1:
        a = Arr(((prod(ax),),), (lambda idx, f=a.snapshot_fn(), ax=ax: f((split_index(idx[0][0], ax),))), a.kind)
        ax = a.axes[0]
    n = ax[0]
    f = a.snapshot_fn()

    def at(m):
        return sym.toF(f(((m,),)))
    if c.branch(zi(n) <= 0) if not is_pyint(n) else n <= 0:
        raise PyRaise("ValueError", f"attempt to get {name} of an empty sequence")
    if is_pyint(n) and n == 1 and not skip_nan:
        return 0
    bv = _bound_vars(1, "bv")[0]
    c.numpy_mode += 1
    try:
        probe = at(bv)
    finally:
        c.numpy_mode -= 1
    # the result is an uninterpreted function of the free constants of the generic element (template abstraction): the
    # same reduction at provably equal parameters is the same index by congruence
    exprs = [c.rewrite(z3.simplify(probe.v)), c.rewrite(zb(probe.nan)), c.rewrite(zi(n)) if not is_pyint(n) else z3.IntVal(n)]
    tk, free = sym.template_of(exprs, {bv.get_id()})
    tkey = ("argext-template", name, tk)
    import os
    if os.environ.get("PYVC_DEBUG") and name == "nanargmax":
        print("TEMPLATE", hash(tk), [str(x) for x in free], tk[0][:300])
    decls = c.memo.get(tkey)
    if decls is None:
        nm = c.fresh_name(name)
        srt = [x.sort() for x in free]
        decls = (z3.Function(nm, *srt, z3.IntSort()) if free else z3.Int(nm),
                 z3.Function(nm + ".allnan", *srt, z3.BoolSort()) if free else z3.Bool(nm + ".allnan"))
        c.memo[tkey] = decls
    k = decls[0](*free) if free else decls[0]
    key = ("argext", k.sexpr())
    if key not in c.memo:
        c.fact(z3.And(k >= 0, k < zi(n)))
        ak = at(k)
        if skip_nan:
            allnan = decls[1](*free) if free else decls[1]
            c.fact(z3.Implies(z3.Not(allnan), zb(Not_(ak.nan))))
            add_qfact(n, lambda m: Implies_(allnan, at(m).nan), "allnan", dom="idx")

            def body(m):
                am = at(m)
                return Implies_(And_(Not_(allnan), Not_(am.nan)),
                                And_(Not_(better(am, ak)), Implies_(am.v == ak.v, zi(k) <= zi(m))))
        else:
            allnan = False

            # NumPy: a NaN wins argmin/argmax; the fact below only speaks about finite data
            def body(m):
                am = at(m)
                return Implies_(And_(Not_(am.nan), Not_(ak.nan)),
                                And_(Not_(better(am, ak)), Implies_(am.v == ak.v, zi(k) <= zi(m))))
        add_qfact(n, body, name, dom="idx")
        ground(k, dom="idx")
        c.memo[key] = (allnan, k)
    allnan, k = c.memo[key]
    if total:
        return allnan, k
    if skip_nan and c.branch(allnan):
        raise PyRaise("ValueError", "All-NaN slice encountered")
    return k


def nanargmin_total(a):
    """specification helper: (all_nan, k) without raising"""
    return _argext(a, lambda x, y: x.v < y.v, True, "nanargmin", total=True)


def argmin(a, axis=None):
    return _argext(a, lambda x, y: x.v < y.v, False, "argmin")


def argmax(a, axis=None):
    return _argext(a, lambda x, y: x.v > y.v, False, "argmax")


def nanargmin(a, axis=None):
    return _argext(a, lambda x, y: x.v < y.v, True, "nanargmin")


def nanargmax(a, axis=None):
    return _argext(a, lambda x, y: x.v > y.v, True, "nanargmax")


def max_(a, axis=None):
    a = _vec(a)
    k = argmax(a)
    return a.get(k)


def min_(a, axis=None):
    a = _vec(a)
    k = argmin(a)
    return a.get(k)


def any_(a, axis=None):
    if isinstance(a, (bool, z3.BoolRef)):
        return a
    a = asarray(a)
    if a.ndim == 0:
        return sym.truthy_scalar(a.cell(()))
    a = _vec(a)
    ax = a.axes[0]
    f = a.snapshot_fn()
    tot = prod(ax)
    if is_pyint(tot) and tot <= 6 and all(is_pyint(x) for x in ax):
        return Or_(*[sym.truthy_scalar(f((split_index(j, ax),))) for j in range(tot)])
    c = cur()

    def P(m):
        c.numpy_mode += 1
        try:
            return sym.truthy_scalar(f((tuple(m),)))
        finally:
            c.numpy_mode -= 1
    bv = _bound_vars(len(ax), "bv")
    pb = P(bv)
    if isinstance(pb, bool):
        if not pb:
            return False
        return simp(zi(tot) > 0) if not is_pyint(tot) else tot > 0
    key = ("any", tuple(zi(x).sexpr() for x in ax), z3.simplify(pb).sexpr())
    if key in c.memo:
        return c.memo[key]
    b = c.fresh_bool("any")
    w = tuple(c.fresh_int("w") for _ in ax)
    c.fact(z3.Implies(b, z3.And(*[z3.And(x >= 0, x < zi(n)) for x, n in zip(w, ax)], zb(P(w)))))
    add_qfact(ax, lambda m: Implies_(P(m), b), "any", dom="idx")
    ground(*w, dom="idx")
    c.memo[key] = b
    return b


def all_(a, axis=None):
    if isinstance(a, (bool, z3.BoolRef)):
        return a
    a = asarray(a)
    return Not_(any_(logical_not(a)))


def argsort(a):
    """np.argsort of a 1-D array of finite numbers: a permutation P of range(n) with a[P[k]] non-decreasing
    (facts are instantiated where the result is read; the inverse permutation is a ghost function)."""
    a = _vec(a)
    c = cur()
    n = a.extent(0)
    f = a.snapshot_fn()
    ax = a.axes[0]

    def at(m):
        return sym.toF(f((split_index(m, ax),)))
    bv = _bound_vars(1, "bv")[0]
    probe = at(bv)
    key = ("argsort", zi(n).sexpr(), z3.simplify(probe.v).sexpr())
    if key not in c.memo:
        P = c.fresh_fun("argsort", z3.IntSort(), z3.IntSort())
        Q = c.fresh_fun("argsort.inv", z3.IntSort(), z3.IntSort())
        c.memo[key] = (P, Q)
        c.memo.setdefault("ghost:argsort", []).append({"P": P, "Q": Q, "n": n, "at": at})
    P, Q = c.memo[key]

    def fn(idx):
        k = zi(idx[0][0])
        v = P(k)
        inr = z3.And(k >= 0, k < zi(n))
        c.fact(z3.Implies(inr, z3.And(v >= 0, v < zi(n), Q(v) == k)))
        c.fact(z3.Implies(z3.And(k >= 0, k + 1 < zi(n)), at(P(k)).v <= at(P(k + 1)).v))
        c.fact(z3.Implies(z3.And(k >= 1, k < zi(n)), at(P(k - 1)).v <= at(v).v))
        return v
    out = Arr(((n,),), fn, "int")
    out.meta["perm"] = (P, Q)
    return out


# ----------------------------------------------------------------------------------
# series abstraction: a 1-D array as a term of sort Ser (uninterpreted function of the free constants of its
# element expression), so that opaque transforms of "the same series" are equal by congruence
# ----------------------------------------------------------------------------------

SerSort = z3.DeclareSort("Ser")


def series_term(fn1, n):
    """fn1: index -> scalar (element of the series), n: length.  Returns a z3 term of sort Ser."""
    c = cur()
    bv = z3.Int("s!0")
    c.numpy_mode += 1
    try:
        v = fn1(bv)
    finally:
        c.numpy_mode -= 1
    if isinstance(v, (F, int, float, z3.ArithRef, bool, z3.BoolRef)):
        v = sym.toF(v)
        exprs = [z3.simplify(v.v), zb(v.nan)]
    else:
        v = sym.toC(v)
        exprs = [z3.simplify(v.re), z3.simplify(v.im), zb(v.nan)]
    exprs.append(zi(n) if not is_pyint(n) else z3.IntVal(n))
    tk, free = sym.template_of(exprs, {bv.get_id()})
    key = ("series", tk)
    decl = c.memo.get(key)
    if decl is None:
        nm = c.fresh_name("SER")
        decl = z3.Function(nm, *[x.sort() for x in free], SerSort) if free else z3.Const(nm, SerSort)
        c.memo[key] = decl
    return decl(*free) if free else decl


def last_axis_series(a, lead):
    """series term of a[lead..., :]"""
    f = a.snapshot_fn()
    ax = a.axes[-1]
    return series_term(lambda t: f(tuple(lead) + (split_index(t, ax),)), a.extent(a.ndim - 1))


def searchsorted(a, v, side="left"):
    """np.searchsorted on an ascending 1-D array: left: the first index i with a[i] >= v (all earlier entries < v);
    right: the first index with a[i] > v.  The facts are what NumPy guarantees for a sorted array."""
    a = _vec(a)
    c = cur()
    n = a.extent(0)
    f = a.snapshot_fn()
    ax = a.axes[0]

    def at(m):
        return sym.toF(f((split_index(m, ax),)))
    v = sym.toF(v)
    i = c.fresh_int("ss")
    c.fact(z3.And(i >= 0, i <= zi(n)))
    if side == "left":
        add_qfact(n, lambda m: And_(Implies_(zi(m) < i, at(m).v < v.v), Implies_(zi(m) >= i, at(m).v >= v.v)), "searchsorted.left")
    elif side == "right":
        add_qfact(n, lambda m: And_(Implies_(zi(m) < i, at(m).v <= v.v), Implies_(zi(m) >= i, at(m).v > v.v)), "searchsorted.right")
    else:
        raise Unsupported("searchsorted side")
    ground(i)
    ground(simp(i - 1))
    return i
